"""C20 — every operation is pure, elementwise over stacks, and strict about shapes.

Three families of cases (registry: props/c20_registry.py):

  shape   for a callable, a base configuration of documented shapes and one argument position (or a group of
          arguments set jointly), a sweep over alternative shapes of rank 0..4 with dimensions in 0..5.  The real
          callable is run on arrays of those shapes: accept / ValueError / other exception.  The Lean driver op
          `shape.accepts` evaluates the GENERATED signature (lean/PW/Gen/Signatures.lean) on the same shapes; the two
          tag lists are compared exactly.  The oracle judges every outcome against the DOCUMENTED forms.
          Every call doubles as the purity monitor: arguments byte-compared before/after, `self` snapshotted,
          accepted calls repeated with write-protected arguments and compared (determinism).
  stack   for a single-or-stacked operation: the stack vs each row alone (oracle key stack-is-map/<callable>),
          empty stacks included; the plane functions are additionally compared with the Lean model (ops of C05).
  helper  columnize (polliwog's and vg's), check_value, check_value_any, check_shape_any against their models.

Purity is corr-only: a runtime monitor, no theorem.
"""
import itertools
import random

import copy

import numpy as np

from pwlib.share import shcopy

from pwlib.engine import Case
from pwlib.proto import Line

from . import c20_registry as R

ID = "C20"
TARGETS = ["PW.Props.C20"]
RULE = ("shape cases: for every public callable x base configuration (each documented form instantiated with k=2 and k=1) x "
        "argument position (and every group of arguments sharing a base shape, set jointly) a sweep over alternative shapes "
        "(quick: 47 fixed representatives + 8 seed-dependent ones of rank 0..4, dims 0..5; thorough: all 1555 shapes of rank <= 4 "
        "with dims <= 5), one case per chunk of <= 40 shapes, outcomes compared exactly with the generated signature run by the "
        "Lean driver; stack cases: lattice and float stacks of k in {0,1,2,3,5} rows vs the rows alone; helper cases: the shape "
        "helpers on pattern x shape; a case is non-trivial unless it is a k=0 stack; distinct = distinct spec")
TRUSTED = ["NumPy raises ValueError (not a silent broadcast) where a callable has no explicit check and is marked impl-raises",
           "purity is observed at run time only (byte-wise comparison of arguments and of self's arrays, write-protected re-run)",
           "the value builders give valid values for documented shapes (unit normals, in-range indices, positive sizes, triangles of positive area for tri.sample); other degenerate configurations (coincident points) can occur and are judged only by shape / purity / stack clauses"]
ASSUMPTIONS = ["array arguments are float64 / int64 / bool ndarrays; Python lists and other array-likes are not enumerated",
               "CompositeTransform / CoordinateManager builder methods append to self by design: purity for them means the "
               "matrices already stored are unchanged"]
EXHAUSTIVE = {"quick": False, "thorough": True}

DIMS = (0, 1, 2, 3, 4, 5)
ALL_SHAPES = [()] + [s for r in (1, 2, 3, 4) for s in itertools.product(DIMS, repeat=r)]
QUICK_SHAPES = [(), (0,), (1,), (2,), (3,), (4,), (5,),
                (0, 3), (1, 3), (2, 3), (3, 3), (4, 3), (5, 3), (3, 1), (3, 2), (3, 4), (2, 4), (4, 4), (1, 4), (0, 4), (2, 2),
                (3, 0), (0, 0), (1, 1), (2, 1), (1, 2), (4, 2), (5, 4),
                (1, 3, 3), (2, 3, 3), (0, 3, 3), (3, 3, 3), (2, 2, 3), (1, 2, 3), (0, 2, 3), (2, 3, 2), (2, 3, 4), (1, 1, 3), (1, 3, 1),
                (2, 4, 4), (3, 2, 3), (2, 1, 3),
                (1, 1, 3, 3), (2, 2, 3, 3), (1, 2, 2, 3), (0, 0, 0, 0), (1, 1, 1, 3)]
CHUNK = 40
MODEL_STACK = ("plane.signed_distance_to_plane", "plane.project_point_to_plane", "plane.mirror_point_across_plane",
               "Plane.signed_distance", "Plane.distance", "Plane.project_point", "Plane.mirror_point")
VAR_DEFAULT = {"k": 2, "n": 4, "m": 2, "v": 3}

# ---------------------------------------------------------------------------------------------------
# self objects


def _poly(closed):
    from polliwog import Polyline
    v = np.array([[0.0, 0.0, 0.0], [1.0, 0.0, 0.0], [1.0, 2.0, 0.0], [0.0, 2.0, 1.0], [-1.0, 1.0, 1.0]])
    return Polyline(v, is_closed=closed)


def _plane():
    from polliwog import Plane
    return Plane(np.array([0.5, -1.0, 2.0]), np.array([2.0, -1.0, 2.0]) / 3.0)


def _composite():
    from polliwog import CompositeTransform
    t = CompositeTransform()
    t.translate(np.array([1.0, -2.0, 0.5]))
    t.uniform_scale(2.0)
    t.rotate(np.array([[0.0, -1.0, 0.0], [1.0, 0.0, 0.0], [0.0, 0.0, 1.0]]))
    return t


def _manager(with_points):
    from polliwog import CoordinateManager
    m = CoordinateManager()
    m.tag_as("a")
    m.translate(np.array([1.0, -2.0, 0.5]))
    m.tag_as("b")
    m.uniform_scale(2.0)
    m.rotate(np.array([[0.0, -1.0, 0.0], [1.0, 0.0, 0.0], [0.0, 0.0, 1.0]]))
    m.tag_as("c")
    if with_points:
        m.a = np.array([[1.0, 2.0, 3.0], [0.0, -1.0, 0.5]])
    return m


def make_self(kind):
    if kind is None:
        return None
    if kind == "plane":
        return _plane()
    if kind == "plane_axis":
        from polliwog import Plane
        return Plane(np.array([0.123456789, 2.0, -1.0]), np.array([0.0, 1.0, 0.0]))
    if kind == "box":
        from polliwog import Box
        return Box(np.array([1.0, -2.0, 0.5]), np.array([2.0, 3.0, 0.0]))
    if kind == "line":
        from polliwog import Line
        return Line(np.array([1.0, -2.0, 0.5]), np.array([2.0, 1.0, -2.0]))
    if kind == "line_pair":
        from polliwog import Line
        return (Line(np.array([0.0, 0.0, 0.0]), np.array([1.0, 1.0, 0.0])), Line(np.array([2.0, 0.0, 0.0]), np.array([-1.0, 1.0, 0.0])))
    if kind == "polyline_open":
        return _poly(False)
    if kind == "polyline_closed":
        return _poly(True)
    if kind == "polyline_and_plane":
        from polliwog import Plane
        return (_poly(False), Plane(np.array([0.5, 0.0, 0.0]), np.array([1.0, 0.0, 0.0])))
    if kind == "composite":
        return _composite()
    if kind == "composite_empty":
        from polliwog import CompositeTransform
        return CompositeTransform()          # nothing appended yet: the degenerate receiver
    if kind == "manager":
        return _manager(False)
    if kind == "manager_set":
        return _manager(True)
    if kind == "m44":
        return np.array([[0.0, -2.0, 0.0, 1.0], [2.0, 0.0, 0.0, -3.0], [0.0, 0.0, 2.0, 0.5], [0.0, 0.0, 0.0, 1.0]])
    raise ValueError(kind)


def self_dims(S):
    d = {}
    if type(S).__name__ == "Polyline":
        d["self.num_e"] = int(S.num_e)
        d["self.num_v"] = int(S.num_v)
    return d


def self_ctx(S):
    c = {"S": S}
    if type(S).__name__ == "Polyline":
        c.update(num_v=int(S.num_v), num_e=int(S.num_e), num_v1=int(S.num_v) + 1)
    return c


def snapshot(S):
    """bytes of every array reachable from a self object (tuples of objects included)"""
    out = []

    def visit(o, depth):
        if depth > 4:
            return
        if isinstance(o, np.ndarray):
            out.append((o.shape, o.dtype.str, o.tobytes()))
        elif isinstance(o, (list, tuple)):
            for x in o:
                visit(x, depth + 1)
        elif isinstance(o, dict):
            for k in sorted(o, key=str):
                visit(o[k], depth + 1)
        elif hasattr(o, "__dict__") and type(o).__module__.startswith("polliwog"):
            for k in sorted(vars(o)):
                visit(vars(o)[k], depth + 1)
    visit(S, 0)
    return out


OBSERVERS = {
    "Box": ("origin", "size", "ranges", "center_point", "floor_point", "mid_x", "mid_y", "mid_z", "v", "volume", "surface_area"),
    "Plane": ("reference_point", "normal", "equation", "canonical_point"),
    "Polyline": ("v", "e", "is_closed", "num_v", "num_e", "segment_lengths", "total_length"),
    "Line": ("reference_point", "along", "reference_points"),
}


def observe(S):
    """the object's state as seen through its public read-only properties (so that a cached value which a later call
    corrupts is noticed, not only the arrays stored in __dict__)"""
    out = []

    def visit(o, depth):
        if depth > 2:
            return
        if isinstance(o, (list, tuple)):
            for x in o:
                visit(x, depth + 1)
            return
        names = OBSERVERS.get(type(o).__name__)
        if names and type(o).__module__.startswith("polliwog"):
            for nm in names:
                try:
                    val = getattr(o, nm)
                except Exception as e:  # noqa: BLE001
                    val = "raised " + type(e).__name__
                if isinstance(val, np.ndarray):
                    out.append((nm, val.shape, val.tobytes()))
                elif isinstance(val, tuple) and all(isinstance(x, np.ndarray) for x in val):
                    out.append((nm,) + tuple(x.tobytes() for x in val))
                else:
                    out.append((nm, repr(val)))
    visit(S, 0)
    return out


def snapshot_unchanged(before, after):
    """every array present before is still there with the same bytes (builders may append new ones)"""
    if len(after) < len(before):
        return False
    pool = list(after)
    for b in before:
        if b in pool:
            pool.remove(b)
        else:
            return False
    return True


# ---------------------------------------------------------------------------------------------------
# documented forms

def parse_var(spec):
    """'k' -> (k, 0, strict) ; 'k>=2' -> (k, 2, True) ; 'k~2' -> (k, 2, False)"""
    if ">=" in spec:
        v, n = spec.split(">=")
        return v, int(n), True
    if "~" in spec:
        v, n = spec.split("~")
        return v, int(n), False
    return spec, 0, True


def match_form(form, shapes, sdims):
    """-> None (no match) | 'doc' | 'below' (a strict minimum violated) | 'soft' (a degenerate stack)"""
    binding = {}
    status = "doc"
    for arg, pat in form.items():
        have = shapes.get(arg)
        if pat is None:
            if have is not None:
                return None
            continue
        if pat == "num":
            if have != "num":
                return None
            continue
        if have is None or have == "num":
            return None
        if len(have) != len(pat):
            return None
        for d, p in zip(have, pat):
            if isinstance(p, int):
                if d != p:
                    return None
            else:
                v, lo, strict = parse_var(p)
                if v.startswith("self."):
                    if d != sdims.get(v):
                        return None
                    continue
                if v in binding and binding[v] != d:
                    return None
                binding[v] = d
                if d < lo:
                    if strict:
                        status = "below"
                    elif status == "doc":
                        status = "soft"
    # arguments not mentioned by the form must be absent
    for arg, have in shapes.items():
        if arg not in form and have is not None:
            return None
    return status


def classify(entry, shapes, sdims):
    best = None
    for f in entry.forms:
        m = match_form(f, shapes, sdims)
        if m == "doc":
            return "doc"
        if m is not None and best != "below":
            best = m
    return best or "undoc"


def instantiate(form, sdims, k):
    out = {}
    for arg, pat in form.items():
        if pat is None:
            out[arg] = None
        elif pat == "num":
            out[arg] = "num"
        else:
            dims = []
            for p in pat:
                if isinstance(p, int):
                    dims.append(p)
                else:
                    v, lo, _ = parse_var(p)
                    if v.startswith("self."):
                        dims.append(sdims[v])
                    elif v == "k":
                        dims.append(max(k, lo))
                    else:
                        dims.append(max(VAR_DEFAULT.get(v, 2), lo))
            out[arg] = tuple(dims)
    return out


def has_var(form, var="k"):
    return any(isinstance(p, tuple) and any(isinstance(x, str) and parse_var(x)[0] == var for x in p) for p in form.values())


# ---------------------------------------------------------------------------------------------------
# running one call under the monitors

def build_args(entry, shapes, S, seed):
    """-> {arg: array | python scalar} or None when valid values cannot be built for these shapes"""
    g = np.random.default_rng(seed)
    ctx = self_ctx(S)
    ctx.update(entry.ctx(shapes, S))
    A = {}
    for arg, kind in entry.args:
        sh = shapes.get(arg)
        if sh is None:
            continue
        if sh == "num":
            A[arg] = 0.375
            continue
        a = R.build(kind, sh, g, ctx)
        if a is None:
            return None
        A[arg] = a
    return A


def same_result(a, b, depth=0):
    if depth > 6:
        return True
    if isinstance(a, np.ndarray) or isinstance(b, np.ndarray):
        a, b = np.asarray(a), np.asarray(b)
        if a.shape != b.shape or a.dtype != b.dtype:
            return False
        if a.dtype.kind in "fc":
            return bool(np.array_equal(a, b, equal_nan=True))
        return bool(np.array_equal(a, b))
    if isinstance(a, (list, tuple)) and isinstance(b, (list, tuple)):
        return len(a) == len(b) and all(same_result(x, y, depth + 1) for x, y in zip(a, b))
    if isinstance(a, dict) and isinstance(b, dict):
        return sorted(a, key=str) == sorted(b, key=str) and all(same_result(a[k], b[k], depth + 1) for k in a)
    if hasattr(a, "__dict__") and type(a).__module__.startswith("polliwog") and type(a) is type(b):
        # public state only: a lazily filled private cache on one of two equal objects is not a difference
        return same_result({k: v for k, v in vars(a).items() if not k.startswith("_")},
                           {k: v for k, v in vars(b).items() if not k.startswith("_")}, depth + 1)
    if isinstance(a, float) and isinstance(b, float) and a != a and b != b:
        return True
    try:
        return bool(a == b)
    except Exception:
        return True


def run_once(entry, selfkind, shapes, seed, obs, label):
    """one monitored call -> 'A' | 'V' | 'X:<Class>' | None (values cannot be built)"""
    from pwlib.canon import err_name
    S = make_self(selfkind)
    A = build_args(entry, shapes, S, seed)
    if A is None:
        return None
    before = {k: (v.tobytes(), v.shape, v.dtype.str) for k, v in A.items() if isinstance(v, np.ndarray)}
    sbefore = snapshot(S)
    obefore = observe(S)
    try:
        res = entry.call(A, S)
        tag = "A"
    except Exception as e:  # noqa: BLE001
        res = None
        tag = "V" if err_name(e) == "ValueError" else "X:" + err_name(e)
    if not entry.no_purity:
        for k, v in A.items():
            if isinstance(v, np.ndarray) and (v.tobytes(), v.shape, v.dtype.str) != before[k]:
                obs["purity"].append("%s modified its argument `%s` (%s)" % (label, k, tag))
        if not snapshot_unchanged(sbefore, snapshot(S)):
            obs["purity"].append("%s modified the object it was called on (%s)" % (label, tag))
        elif observe(S) != obefore:
            obs["purity"].append("%s changed what the object's read-only properties return (%s)" % (label, tag))
    if tag == "A":
        # write-protected, fresh self, same values: must succeed again with the same result
        S2 = make_self(selfkind)
        A2 = build_args(entry, shapes, S2, seed)
        for v in A2.values():
            if isinstance(v, np.ndarray):
                v.setflags(write=False)
        try:
            res2 = entry.call(A2, S2)
        except Exception as e:  # noqa: BLE001
            if "read-only" in str(e):
                obs["purity"].append("%s writes into a write-protected argument: %s" % (label, str(e)[:80]))
            else:
                obs["determinism"].append("%s succeeded once and raised %s the second time" % (label, type(e).__name__))
        else:
            if not same_result(res, res2):
                obs["determinism"].append("%s returned two different results for the same arguments" % label)
        # the caller owns what it was handed: it edits the returned arrays / documents in place and asks the same
        # object again -- the answer must be the one it got before (a result handed out by reference from a cache, a
        # module-level constant or the object's own state fails here)
        if not entry.no_purity:
            try:
                saved = copy.deepcopy(res)
            except Exception:
                saved = None
            mine = [v for v in A.values() if isinstance(v, np.ndarray)]
            mine += [v for k, v in (vars(S).items() if hasattr(S, "__dict__") else []) if isinstance(v, np.ndarray)]
            if isinstance(S, tuple):
                for s_ in S:
                    mine += [v for v in (vars(s_).values() if hasattr(s_, "__dict__") else []) if isinstance(v, np.ndarray)]
            # control (before anything is edited, and kept by value): the same two calls on a fresh receiver without an edit in
            # between (a method that appends to its receiver legitimately answers differently the second time -- in both
            # histories alike)
            try:
                Sc = make_self(selfkind)
                Ac = build_args(entry, shapes, Sc, seed)
                entry.call(Ac, Sc)
                control = ("ok", copy.deepcopy(entry.call(Ac, Sc)))
            except Exception as e:  # noqa: BLE001
                control = ("err", type(e).__name__)
            if saved is not None and edit_result(res, mine):
                try:
                    again = ("ok", entry.call(A, S))
                except Exception as e:  # noqa: BLE001
                    again = ("err", type(e).__name__)
                if again[0] != control[0] or (again[0] == "err" and again[1] != control[1]) or \
                        (again[0] == "ok" and not same_result(control[1], again[1])):
                    obs["determinism"].append("%s answers differently the second time when the caller has edited, in place, the "
                                              "result of the first call (handed out by reference): %s instead of %s" % (
                                                  label, "raised " + again[1] if again[0] == "err" else "a different result",
                                                  "raising " + control[1] if control[0] == "err" else "the result of an unedited history"))
    return tag


def edit_result(res, mine, depth=0):
    """in-place edits of everything in a result that the caller owns: writable arrays that do not share memory with an
    argument or with a public array attribute of the receiver, plain lists / dicts (documents).  -> anything edited?"""
    if depth > 4:
        return False
    if isinstance(res, np.ndarray):
        if res.size == 0 or not res.flags.writeable or res.dtype == object:
            return False
        if any(np.may_share_memory(res, m) for m in mine):
            return False
        try:
            if res.dtype == bool:
                res[...] = ~res
            else:
                res[...] = 77
        except Exception:
            return False
        return True
    if isinstance(res, (tuple, list)):
        done = [edit_result(x, mine, depth + 1) for x in res]
        if isinstance(res, list) and res and all(isinstance(x, (int, float)) and not isinstance(x, bool) for x in res):
            for i in range(len(res)):
                res[i] = res[i] + 1.0
            return True
        return any(done)
    if isinstance(res, dict):
        done = [edit_result(v, mine, depth + 1) for v in res.values()]
        res["edited-by-the-caller"] = True
        return True or any(done)
    return False


def describe(entry, shapes):
    return "%s(%s)" % (entry.name, ", ".join("%s=%s" % (a, "None" if shapes.get(a) is None else ("<number>" if shapes[a] == "num" else tuple(shapes[a])))
                                             for a, _ in entry.args))


# ---------------------------------------------------------------------------------------------------
# generation

def shape_family(rng, tier):
    if tier == "quick":
        extra = rng.sample(ALL_SHAPES, 8)
        fam = list(QUICK_SHAPES) + [s for s in extra if s not in QUICK_SHAPES]
    else:
        fam = list(ALL_SHAPES)
    return fam


def bases_of(entry, sdims):
    out = []
    for fi, f in enumerate(entry.forms):
        ks = (2, 1) if has_var(f) else (2,)
        for k in ks:
            b = instantiate(f, sdims, k)
            if b not in [x[1] for x in out]:
                out.append((fi, b))
    return out


def gen(rng, tier):
    fam = shape_family(rng, tier)
    for name in R.ORDER:
        e = R.REG[name]
        for si, sk in enumerate(e.selfs):
            sdims = self_dims(make_self(sk)) if sk and sk.startswith("polyline") else {}
            for fi, base in bases_of(e, sdims):
                if not e.args:
                    yield {"op": "shape", "callable": name, "self": si, "base": _j(base), "vary": [], "shapes": [],
                           "seed": rng.randrange(1 << 30)}
                    continue
                groups = [[a] for a, _ in e.args]
                byshape = {}
                for a, _ in e.args:
                    if base.get(a) not in (None, "num"):
                        byshape.setdefault(base[a], []).append(a)
                groups += [g for g in byshape.values() if len(g) > 1]
                for grp in groups:
                    shapes = list(fam)
                    extra = []
                    if len(grp) == 1:
                        extra = ["N"] if any(f.get(grp[0], 0) is None for f in e.forms) else []
                        extra += ["S"] if any(f.get(grp[0]) == "num" for f in e.forms) else []
                    for i in range(0, len(shapes), CHUNK):
                        yield {"op": "shape", "callable": name, "self": si, "base": _j(base), "vary": grp,
                               "shapes": [list(s) for s in shapes[i:i + CHUNK]] + (extra if i == 0 else []),
                               "seed": rng.randrange(1 << 30)}
        if e.stack:
            for si, sk in enumerate(e.selfs):
                for fi, f in enumerate(e.forms):
                    if not has_var(f):
                        if name in MODEL_STACK:
                            for stream in ("lattice", "float"):
                                yield {"op": "stack", "callable": name, "self": si, "form": fi, "k": 1, "stream": stream,
                                       "seed": rng.randrange(1 << 30)}
                        continue
                    for k in (0, 1, 2, 3, 5):
                        for stream in ("lattice", "float"):
                            yield {"op": "stack", "callable": name, "self": si, "form": fi, "k": k, "stream": stream,
                                   "seed": rng.randrange(1 << 30)}
                    # rows of very different sizes in one stack (each row of the stacked arguments times its own power of
                    # ten): a row must not feel its neighbours
                    for k in (2, 4):
                        yield {"op": "stack", "callable": name, "self": si, "form": fi, "k": k, "stream": "float-mixed",
                               "seed": rng.randrange(1 << 30)}
    for fnname in ("signed_distance_to_plane", "project_point_to_plane", "mirror_point_across_plane"):
        for kp, ke in ((2, 3), (3, 2), (1, 2), (2, 1), (0, 1), (5, 0)):
            yield {"op": "stackerr", "fn": fnname, "kp": kp, "ke": ke, "seed": rng.randrange(1 << 30)}
    pats = [[3], [-1, 3], [-1, 3, 3], [-1], [4, 4], [-1, -1], [-1, 2, 3], [2], [], [3, -1], [-1, 4], [1, 3]]
    colpats = [[3], [-1, 3], [-1, 3, 3], [-1], [4, 4], [-1, 2, 3], [2], [1], [-1, 4], [1, 3]]
    for which in ("check_value", "columnize_pw", "columnize_vg"):
        for p in (pats if which == "check_value" else colpats):
            for i in range(0, len(fam), CHUNK):
                yield {"op": "helper", "which": which, "pats": [p], "shapes": [list(s) for s in fam[i:i + CHUNK]] + (["N", "S"] if i == 0 else [])}
    for which in ("check_value_any", "check_shape_any"):
        for ps in ([[3], [-1, 3]], [[4], [-1, 4]], [[3], [2, 3]], [[-1, 3], [-1, -1]], [], [[-1, 3]], [[3], [-1, 3], [-1, 3, 3]]):
            for i in range(0, len(fam), CHUNK):
                yield {"op": "helper", "which": which, "pats": ps, "shapes": [list(s) for s in fam[i:i + CHUNK]] + (["N", "S"] if i == 0 else [])}


def _j(base):
    return {a: (None if s is None else ("num" if s == "num" else list(s))) for a, s in base.items()}


def _unj(base):
    return {a: (None if s is None else ("num" if s == "num" else tuple(s))) for a, s in base.items()}


def desc_tokens(sh):
    if sh is None or sh == "N":
        return ["N"]
    if sh == "num" or sh == "S":
        return ["S"]
    return ["A", str(len(sh))] + [str(int(d)) for d in sh]


# ---------------------------------------------------------------------------------------------------
# cases

def make(spec):
    op = spec["op"]
    if op == "shape":
        return make_shape(spec)
    if op == "stack":
        return make_stack(spec)
    if op == "helper":
        return make_helper(spec)
    if op == "stackerr":
        return make_stackerr(spec)
    raise ValueError(op)


def make_shape(spec):
    e = R.REG[spec["callable"]]
    sk = e.selfs[spec["self"]]
    base = _unj(spec["base"])
    vary = list(spec["vary"])
    sweep = [("num" if s == "S" else None if s == "N" else tuple(s)) for s in spec["shapes"]] if vary else [None]
    S0 = make_self(sk)
    sdims = self_dims(S0) if sk and sk.startswith("polyline") else {}
    obs = {"purity": [], "determinism": [], "rows": []}

    def shapes_for(s):
        sh = dict(base)
        for a in vary:
            sh[a] = s
        return sh

    def impl():
        tags = []
        for i, s in enumerate(sweep):
            sh = shapes_for(s)
            tag = run_once(e, sk, sh, spec["seed"] + i, obs, describe(e, sh))
            obs["rows"].append((sh, tag))
            tags.append("-" if tag is None else tag)
        return tags

    line = None
    compare = None
    if e.model and e.args:
        ln = Line("shape.accepts").tok(e.name.split("[")[0])
        ln.tok(len(sdims))
        for k_, v_ in sorted(sdims.items()):
            ln.tok(k_, v_)
        ln.tok(len(e.flags))
        for k_, v_ in sorted(e.flags.items()):
            ln.tok(k_, 1 if v_ else 0)
        present = [(a, base.get(a)) for a, _ in e.args if a not in vary]
        ln.tok(len(present))
        for a, s in present:
            ln.tok(a, *desc_tokens(s))
        ln.tok(len(vary), *vary)
        ln.tok(len(sweep))
        for s in sweep:
            ln.tok(*desc_tokens(s))
        line = str(ln)

        def compare(r, model_line, mode):
            toks = model_line.split(" ")
            if toks[0] != "ok":
                return "model answered %s" % model_line[:200]
            if r[0] != "ok":
                return "the adapter itself raised %s" % (r[1],)
            mt = toks[1:]
            if len(mt) != len(r[1]):
                return "length differs: impl %d model %d" % (len(r[1]), len(mt))
            for i, (a, m) in enumerate(zip(r[1], mt)):
                if a == "-" or a == m:
                    continue
                if classify(e, shapes_for(sweep[i]), sdims) == "soft":
                    continue     # a degenerate (too short) stack of a documented form: value-dependent outcome
                if e.impl_raises and m == "A" and a == "V":
                    continue     # no explicit check, NumPy raised ValueError: judged by the oracle only
                if e.impl_raises and m == "A":
                    continue     # the oracle reports the non-ValueError exception
                return "%s: implementation %s, generated signature %s" % (describe(e, shapes_for(sweep[i])), a, m)
            return None

    def oracle(r):
        out = []
        key_arg = vary[0] if vary else "-"
        for sh, tag in obs["rows"]:
            if tag is None:
                continue
            cl = classify(e, sh, sdims)
            what = describe(e, sh)
            if cl == "undoc" and tag != "V":
                out.append(("shape/%s/%s" % (e.name, key_arg),
                            "%s is not a documented form but %s" % (what, "was accepted" if tag == "A" else "raised " + tag[2:] + " instead of ValueError")))
            elif cl == "below" and tag != "V":
                out.append(("shape/%s/%s" % (e.name, key_arg), "%s has too few rows but %s" % (what, "was accepted" if tag == "A" else "raised " + tag[2:])))
            elif cl == "doc" and tag != "A":
                out.append(("documented-form-rejected/%s/%s" % (e.name, key_arg), "%s is a documented form but raised %s" % (what, "ValueError" if tag == "V" else tag[2:])))
        for m in obs["purity"]:
            out.append(("purity/%s" % e.name, m))
        for m in obs["determinism"]:
            out.append(("determinism/%s" % e.name, m))
        if e.name.startswith("transform.apply_transform.apply"):
            for m in reused_closure(S0):
                out.append(("determinism/%s" % e.name, m))
        seen = {}
        for k, m in out:
            seen.setdefault(k, []).append(m)
        return [(k, ms[0] + ("" if len(ms) == 1 else "  [+%d more in this sweep: %s]" % (len(ms) - 1, "; ".join(x.split(" is ")[0] for x in ms[1:6]))))
                for k, ms in seen.items()]

    kl = "shape/%s/%s" % (e.name, "+".join(vary) if vary else "-")
    return Case(spec, line, impl, mode="rat", klass=kl, trivial=False, oracle=oracle, compare=compare)


def reused_closure(matrix):
    """the function `apply_transform(m)` returns is a public callable of its own: a caller keeps it and calls it many
    times, with points and with vectors, with stacks of the same and of other sizes.  Every one of those calls must
    answer what a freshly made function answers for the same arguments."""
    from polliwog.transform import apply_transform
    f = apply_transform(np.array(matrix))
    pts = np.array([[1.0, 2.0, 3.0], [-4.0, 0.5, 6.0]])
    one = np.array([0.25, -1.5, 2.0])
    plan = [(pts, {"treat_input_as_vector": True}), (pts, {}), (pts, {"discard_z_coord": True}), (one, {"treat_input_as_vector": True}),
            (one, {}), (pts[:1], {}), (pts, {"treat_input_as_vector": True, "discard_z_coord": True}), (pts, {})]
    out = []
    for i, (p, kw) in enumerate(plan):
        try:
            got = f(p.copy(), **kw)
            want = apply_transform(np.array(matrix))(p.copy(), **kw)
        except Exception as ex:  # noqa: BLE001
            out.append("call %d of a kept apply_transform function raised %s" % (i, type(ex).__name__))
            break
        if not np.array_equal(np.asarray(got), np.asarray(want), equal_nan=True):
            out.append("a kept apply_transform(m) function answers %r for (%r, %r) as its call number %d, a fresh one answers %r"
                       % (np.asarray(got).tolist(), p.tolist(), kw, i, np.asarray(want).tolist()))
            break
    return out


# ---- stack-is-map -----------------------------------------------------------------------------------

def xsection_undetermined(plane, mname, a, b):
    """the single/stacked line-plane twins decide `parallel` (denominator == 0) and `within the segment`
    (0 <= t <= 1) with differently rounded arithmetic; rows within rounding error of those thresholds are not
    compared (the property excludes them), except exact parallelism against an axis-aligned plane, where every
    product is exact"""
    from fractions import Fraction as Fr
    n = [Fr(float(x)) for x in plane.normal]
    ref = [Fr(float(x)) for x in plane.reference_point]
    a = [Fr(float(x)) for x in a]
    b = [Fr(float(x)) for x in b]
    ray = b if mname == "line_xsection" else [y - x for x, y in zip(a, b)]
    d = sum(r * m for r, m in zip(ray, n))
    scale = max([Fr(1)] + [abs(x) for x in a + b + ref])
    eps = Fr(1, 10 ** 9) * scale
    axis = sorted(abs(float(x)) for x in plane.normal) == [0.0, 0.0, 1.0]
    if d == 0:
        return not axis
    if abs(d) < eps:
        return True
    if mname == "line_segment_xsection":
        t = sum((r - x) * m for r, x, m in zip(ref, a, n)) / d
        if t == 0 or t == 1:
            # an end point exactly on an axis-aligned plane, small dyadic coordinates: every operation of both twins is
            # exact, so the row is compared (both must report that end point)
            ax = [i for i in range(3) if n[i] != 0]
            exact = axis and all(x.denominator <= 1024 and abs(x) <= 1024 for x in a + b + [ref[i] for i in ax])
            return not exact
        if abs(t) < Fr(1, 10 ** 9) or abs(t - 1) < Fr(1, 10 ** 9):
            return True
    return False


def sign_undetermined(plane, row):
    """Plane.sign is a step function of the signed distance, and the stacked and the single call round that distance
    differently (different summation order): a point within rounding error of an oblique plane has no determined sign and
    is not compared.  Against an axis-aligned plane the one non-zero product is exact and every point is compared."""
    from fractions import Fraction as Fr
    n = [Fr(float(x)) for x in plane.normal]
    if sorted(abs(float(x)) for x in plane.normal) == [0.0, 0.0, 1.0]:
        return False
    ref = [Fr(float(x)) for x in plane.reference_point]
    pts = np.asarray(list(row.values())[0], dtype=np.float64).reshape(-1, 3)
    for p in pts:
        q = [Fr(float(x)) for x in p]
        d = sum((a - b) * c for a, b, c in zip(q, ref, n))
        if abs(d) <= Fr(1, 10 ** 9) * max([Fr(1)] + [abs(x) for x in q + ref]):
            return True
    return False


def as_list(res):
    if isinstance(res, tuple):
        return [np.asarray(x) for x in res]
    return [np.asarray(res)]


def make_stack(spec):
    e = R.REG[spec["callable"]]
    sk = e.selfs[spec["self"]]
    form = e.forms[spec["form"]]
    k = spec["k"]
    st = e.stack
    mode = st.get("mode", "index")
    obs = {"msgs": []}
    S0 = make_self(sk)
    sdims = self_dims(S0) if sk and sk.startswith("polyline") else {}
    shapes = instantiate(form, sdims, 0)
    # instantiate() clamps k to the minimum; set k explicitly
    for a, pat in form.items():
        if isinstance(pat, tuple):
            shapes[a] = tuple((k if (isinstance(p, str) and parse_var(p)[0] == "k") else d) for p, d in zip(pat, shapes[a]))
    stacked = [a for a, pat in form.items() if isinstance(pat, tuple) and any(isinstance(p, str) and parse_var(p)[0] == "k" for p in pat)]

    def build():
        S = make_self(sk)
        A = build_args(e, shapes, S, spec["seed"])
        if spec["stream"] == "lattice" and A is not None and e.name == "Plane.line_segment_xsections" and sk == "plane_axis":
            # rows that end / start exactly on the plane y = 2 (small dyadic coordinates: exact in both twins)
            if k >= 1:
                A["b"][0, 1] = 2.0
                if A["a"][0, 1] == 2.0:
                    A["a"][0, 1] = -1.5
            if k >= 2:
                A["a"][1, 1] = 2.0
                if A["b"][1, 1] == 2.0:
                    A["b"][1, 1] = 3.5
        if spec["stream"] == "lattice" and A is not None and e.name == "plane.intersect_segment_with_plane" and k >= 1 \
                and all(isinstance(A.get(a), np.ndarray) and A[a].ndim == 2 for a in ("start_points", "segment_vectors", "points_on_plane", "plane_normals")):
            # a row whose segment lies in its plane (t = 0/0): start on the plane, vector perpendicular to the normal, all exact
            n0 = A["plane_normals"][0]
            if np.any(n0):
                e_ = np.array([1.0, 0.0, 0.0]) if n0[1] or n0[2] else np.array([0.0, 1.0, 0.0])
                A["segment_vectors"][0] = np.cross(n0, e_)
                A["start_points"][0] = A["points_on_plane"][0] + np.cross(n0, np.cross(n0, e_))
        if spec["stream"] == "lattice" and A is not None and k >= 2 and spec["seed"] % 2 == 0 and \
                e.name in ("line.coplanar_points_are_on_same_side_of_line", "tri.tri_contains_coplanar_point") and \
                all(isinstance(v, np.ndarray) and v.ndim == 2 and len(v) == k for v in A.values()):
            # a yes/no answer per row: a large row next to a unit-sized row whose point is a hair (2^-30) on the "no" side --
            # a tolerance or normalisation taken over the whole stack answers "yes" for the small row (all dyadic: exact)
            h = 2.0 ** -30
            if e.name.startswith("line."):
                A["a"][0], A["b"][0], A["p1"][0], A["p2"][0] = [0, 0, 0], [4096, 0, 0], [0, 4096, 0], [8.0, 4096, 0]
                A["a"][1], A["b"][1], A["p1"][1], A["p2"][1] = [0, 0, 0], [1, 0, 0], [0.5, 1, 0], [0.5, -h, 0]
            else:
                A["a"][0], A["b"][0], A["c"][0], A["point"][0] = [0, 0, 0], [4096, 0, 0], [0, 4096, 0], [1024, 1024, 0]
                A["a"][1], A["b"][1], A["c"][1], A["point"][1] = [0, 0, 0], [1, 0, 0], [0, 1, 0], [0.5, -h, 0]
            return S, A
        if spec["stream"] in ("float", "float-mixed") and A is not None:
            g = np.random.default_rng(spec["seed"] + 7)
            for a, kind in e.args:
                if a in A and isinstance(A[a], np.ndarray) and kind in ("f", "ff") and A[a].dtype == np.float64:
                    A[a] = A[a] + g.normal(size=A[a].shape) * 0.37
        if spec["stream"] == "float-mixed" and A is not None:
            g = np.random.default_rng(spec["seed"] + 11)
            rowscale = 10.0 ** (g.choice([-40.0, -20.0, 0.0, 20.0, 40.0], size=k) + g.uniform(-1, 1, size=k))
            if k >= 2:
                rowscale[0], rowscale[1] = 10.0 ** g.uniform(-41, -39), 10.0 ** g.uniform(39, 41)
            kinds = dict(e.args)
            for a in stacked:
                if isinstance(A.get(a), np.ndarray) and kinds.get(a) in ("f", "ff") and A[a].dtype == np.float64 \
                        and A[a].ndim >= 1 and A[a].shape[0] == k:
                    A[a] = A[a] * rowscale.reshape((k,) + (1,) * (A[a].ndim - 1))
        return S, A

    def impl():
        S, A = build()
        if A is None or not stacked:
            return []
        what = "%s on a stack of %d" % (describe(e, shapes), k)
        try:
            full = as_list(e.call({a: (v.copy() if isinstance(v, np.ndarray) else v) for a, v in A.items()}, S))
        except Exception as ex:  # noqa: BLE001
            if k == 0:
                obs["msgs"].append(("empty-stack/%s" % e.name, "%s raised %s: %s" % (what, type(ex).__name__, str(ex)[:80])))
            else:
                obs["msgs"].append(("stack-is-map/%s" % e.name, "%s raised %s: %s" % (what, type(ex).__name__, str(ex)[:80])))
            return []
        for j, out in enumerate(full):
            if out.ndim == 0 or out.shape[0] != k:
                obs["msgs"].append((("empty-stack/%s" if k == 0 else "stack-is-map/%s") % e.name,
                                    "%s: output %d has shape %s, expected %d rows" % (what, j, out.shape, k)))
                return []
        scale = max([1.0] + [float(np.max(np.abs(v))) for v in A.values() if isinstance(v, np.ndarray) and v.size and v.dtype.kind == "f"])
        tol = 1e-9 * scale * scale
        mixed = spec["stream"] == "float-mixed"
        # the same stack in column-major memory order is the same stack
        decision = any(w in e.name for w in ("sign", "points_in_front", "points_on_or_in_front", "contains", "is_point_on",
                                             "same_side", "index_of", "nearest", "extent", "apex"))
        # (step functions of a rounded quantity -- a sign, a mask, an argmax, which segment is nearest -- are not comparable
        # across summation orders for inputs within rounding error of the step; same exclusion as `sign_undetermined`)
        if k >= 2 and not mixed and not st.get("single") and not decision:     # (the line / plane twins decide `parallel` by an exact zero: not
            try:                                                 # comparable across summation orders, see xsection_undetermined)
                fort = as_list(e.call({a: (np.asfortranarray(v) if isinstance(v, np.ndarray) and v.ndim >= 2 else
                                           (v.copy() if isinstance(v, np.ndarray) else v)) for a, v in A.items()}, make_self(sk)))
            except Exception as ex:  # noqa: BLE001
                obs["msgs"].append(("stack-is-map/%s" % e.name, "%s raised %s for column-major arguments" % (what, type(ex).__name__)))
            else:
                for j, (o1, o2) in enumerate(zip(full, fort)):
                    if o1.shape != o2.shape or (o1.dtype.kind == "f" and not np.allclose(o1, o2, rtol=1e-9, atol=tol, equal_nan=True)) \
                            or (o1.dtype.kind != "f" and spec["stream"] == "lattice" and not np.array_equal(o1, o2)):
                        obs["msgs"].append(("stack-is-map/%s" % e.name, "%s: output %d differs when the same arguments are given in "
                                            "column-major order: %s vs %s" % (what, j, o2.tolist(), o1.tolist())))
                        break
        for i in range(k):
            if mixed:
                # judged at the row's own size (the other rows are up to 1e80 times larger)
                rs = max([1.0] + [float(np.max(np.abs(v[i] if a in stacked else v))) for a, v in A.items()
                                  if isinstance(v, np.ndarray) and v.size and v.dtype.kind == "f"])
                tol = 1e-9 * rs * rs
            row = {}
            for a, v in A.items():
                if a in stacked:
                    if st.get("scalar_rows"):
                        row[a] = float(v[i])
                    else:
                        row[a] = v[i].copy() if mode == "index" else v[i:i + 1].copy()
                else:
                    row[a] = v.copy() if isinstance(v, np.ndarray) else v
            S = make_self(sk)
            try:
                if st.get("single"):
                    mname, ren = st["single"]
                    names = list(ren)
                    if xsection_undetermined(S, mname, row[names[0]][0], row[names[1]][0]):
                        obs["undetermined"] = obs.get("undetermined", 0) + 1
                        continue
                    r = getattr(S, mname)(**{ren[a]: row[a][0] for a in ren})
                    # the single-item twin returns the point or None; the stacked one returns (points, is_valid)
                    valid = bool(full[1][i])
                    if (r is not None) != valid:
                        obs["msgs"].append(("stack-is-map/%s" % e.name, "%s: row %d is %s in the stack but the single call returned %s" % (what, i, "valid" if valid else "invalid", r)))
                    elif valid and not np.allclose(full[0][i], r, rtol=0, atol=tol):
                        obs["msgs"].append(("stack-is-map/%s" % e.name, "%s: row %d = %s but the single call gives %s" % (what, i, full[0][i], r)))
                    elif not valid and not np.all(np.isnan(full[0][i])):
                        obs["msgs"].append(("stack-is-map/%s" % e.name, "%s: invalid row %d is not NaN" % (what, i)))
                    continue
                if e.name == "Plane.sign" and sign_undetermined(S, row):
                    obs["undetermined"] = obs.get("undetermined", 0) + 1
                    continue
                one = as_list(e.call(row, S))
            except Exception as ex:  # noqa: BLE001
                obs["msgs"].append(("stack-is-map/%s" % e.name, "%s: row %d alone raised %s" % (what, i, type(ex).__name__)))
                continue
            for j, out in enumerate(full):
                got = out[i]
                want = one[j] if mode == "index" else one[j][0]
                want = np.asarray(want)
                if got.shape != want.shape:
                    obs["msgs"].append(("stack-is-map/%s" % e.name, "%s: row %d of output %d has shape %s, alone %s" % (what, i, j, got.shape, want.shape)))
                elif got.dtype.kind == "f":
                    if not np.allclose(got, want, rtol=1e-9, atol=tol, equal_nan=True):
                        obs["msgs"].append(("stack-is-map/%s" % e.name, "%s: row %d of output %d = %s, alone %s" % (what, i, j, got, want)))
                elif not np.array_equal(got, want):
                    if spec["stream"] == "lattice":   # discrete outputs are compared on the exact stream only
                        obs["msgs"].append(("stack-is-map/%s" % e.name, "%s: row %d of output %d = %s, alone %s" % (what, i, j, got, want)))
        return []

    def oracle(r):
        seen = {}
        for key, m in obs["msgs"]:
            seen.setdefault(key, m)
        return list(seen.items())

    cases = [Case(spec, None, impl, mode="rat", klass="stack/%s/k%s" % (e.name, "0" if k == 0 else "+"), trivial=(k == 0), oracle=oracle)]
    # the plane functions and Plane methods also against the Lean model PW.Model.Stacked (exact rationals)
    short = e.name.split(".")[-1]
    fops = {"signed_distance_to_plane": "sd", "project_point_to_plane": "project", "mirror_point_across_plane": "mirror"}
    mops = {"signed_distance": "sd", "distance": "dist", "project_point": "project", "mirror_point": "mirror"}
    if (e.name.startswith("plane.") and short in fops) or (e.name.startswith("Plane.") and short in mops):
        S, A = build()
        width = 1 if short in ("signed_distance_to_plane", "signed_distance", "distance") else 3

        def put(ln, a):
            if a.ndim == 1:
                ln.tok("one").vec(a)
            else:
                ln.tok("many").vecs(a)

        def canon_stk(res):
            r = np.asarray(res, dtype=np.float64)
            single = (r.ndim == 0) if width == 1 else (r.ndim == 1)
            vals = [None if x != x else float(x) for x in r.ravel()]
            return (["one"] if single else ["many", int(r.shape[0])]) + vals
        P = A["points"]
        if e.name.startswith("plane."):
            E = A["plane_equations"]
            ln = Line("stk." + fops[short])
            put(ln, P)
            put(ln, E)
            f = getattr(__import__("polliwog.plane", fromlist=[short]), short)
            im = lambda: canon_stk(f(shcopy(P), shcopy(E)))
            sc = max(1.0, float(np.max(np.abs(P))) if P.size else 1.0) * max(1.0, float(np.max(np.abs(E))) if E.size else 1.0) ** 2
        else:
            ln = Line("stk.plane").tok(mops[short]).vec(S.reference_point).vec(S.normal)
            put(ln, P)
            im = lambda: canon_stk(getattr(make_self(sk), short)(shcopy(P)))
            sc = max(1.0, float(np.max(np.abs(P))) if P.size else 1.0, float(np.max(np.abs(S.reference_point))))
        cases.append(Case(spec, ln, im, mode="rat", klass="stack-model/%s/%s" % (e.name, "+".join(sorted(stacked)) or "single"),
                          trivial=(k == 0), scale=sc))
    # the stacked segment / plane intersection also against C14's model of it (values, not only stack = rows: a row that both
    # forms get wrong in the same way -- e.g. a segment lying in its plane -- is invisible to the row-by-row comparison)
    if e.name == "plane.intersect_segment_with_plane" and spec["stream"] == "lattice" and k >= 1:
        S, A = build()
        names = ("start_points", "segment_vectors", "points_on_plane", "plane_normals")
        if A is not None and all(isinstance(A.get(a), np.ndarray) and A[a].ndim == 2 for a in names) \
                and all(np.any(n_) for n_ in A["plane_normals"]):
            import sys as _sys
            ln = Line("xs.isp").f(_sys.float_info.max)
            for a in names:
                ln.vecs(A[a])
            f = getattr(__import__("polliwog.plane", fromlist=["intersect_segment_with_plane"]), "intersect_segment_with_plane")

            def im_isp():
                r = np.asarray(f(*[shcopy(A[a]) for a in names]), dtype=np.float64).reshape(-1, 3)
                return [int(len(r))] + [None if x != x else float(x) for x in r.ravel()]
            cases.append(Case(spec, ln, im_isp, mode="rat", klass="stack-model/%s" % e.name, scale=max(1.0, float(np.max(np.abs(A["start_points"]))))))
    return cases


def make_stackerr(spec):
    """stacks of different lengths: ValueError on both sides"""
    short = spec["fn"]
    ops = {"signed_distance_to_plane": "sd", "project_point_to_plane": "project", "mirror_point_across_plane": "mirror"}
    g = np.random.default_rng(spec["seed"])
    P = g.integers(-8, 9, size=(spec["kp"], 3)).astype(np.float64) / 2.0
    E = g.integers(-8, 9, size=(spec["ke"], 4)).astype(np.float64) / 2.0
    f = getattr(__import__("polliwog.plane", fromlist=[short]), short)
    ln = Line("stk." + ops[short]).tok("many").vecs(P).tok("many").vecs(E)
    return Case(spec, ln, lambda: [float(x) for x in np.asarray(f(shcopy(P), shcopy(E))).ravel()], mode="rat",
                klass="stack-model/%s/length-mismatch" % short, trivial=False)


# ---- the helpers themselves ---------------------------------------------------------------------------

def ret_tag(r):
    if r is None:
        return "none"
    if isinstance(r, tuple):
        return "tup:" + ",".join(str(int(x)) for x in r)
    return "one:%d" % int(r)


def make_helper(spec):
    import vg.shape as vgs  # vg 2.x exposes the same module through vg.compat.v2
    from polliwog._common import shape as pws
    from pwlib.canon import err_name
    which = spec["which"]
    pats = [tuple(p) for p in spec["pats"]]
    sweep = [("num" if s == "S" else None if s == "N" else tuple(s)) for s in spec["shapes"]]

    def value(s):
        if s is None:
            return None
        if s == "num":
            return 0.5
        return np.zeros(s)

    def one(s):
        x = value(s)
        try:
            if which == "check_value":
                r1 = vgs.check_value(x, pats[0])
                ns = {"x": x}
                r2 = vgs.check(ns, "x", pats[0])
                if r1 != r2:
                    return "check!=check_value"
                return ret_tag(r1)
            if which == "check_value_any":
                return ret_tag(vgs.check_value_any(x, *pats))
            if which == "check_shape_any":
                return ret_tag(pws.check_shape_any(x, *pats))
            f = pws.columnize if which == "columnize_pw" else vgs.columnize
            arr, is_col, undo = f(x, pats[0])
            back = undo(arr)
            if isinstance(x, np.ndarray) and np.asarray(back).shape != x.shape:
                return "undo-shape-differs"
            return "col:%s:%s" % (",".join(str(int(d)) for d in np.asarray(arr).shape), "T" if is_col else "F")
        except Exception as ex:  # noqa: BLE001
            n = err_name(ex)
            return "V" if n == "ValueError" else "X:" + n

    def impl():
        return [one(s) for s in sweep]

    ln = Line("shape." + which)
    if which in ("check_value_any", "check_shape_any"):
        ln.tok(len(pats))
    for p in pats:
        ln.tok(len(p), *p)
    ln.tok(len(sweep))
    for s in sweep:
        ln.tok(*desc_tokens(s))
    return Case(spec, ln, impl, mode="rat", klass="helper/%s/%s" % (which, "|".join(str(p) for p in pats)), trivial=False)
