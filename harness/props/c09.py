"""C09 — Polyline is an immutable value whose edits match a plain list-of-points model.

Correspondence: random operation *programs* (each op applied to results of earlier ones) are executed on the
real `polliwog.Polyline` and on the Lean model (PW.Model.PolylineOps, driver op `c09.prog`: the whole program
is one driver line because the driver is stateless).  After every op both sides list the value of *every*
polyline created so far (closed flag, vertices, edges, read-only flags): on the implementation side these are
fresh reads of the live objects, so a method that changed its receiver, or any earlier object, or an array
that is writable or shares memory with its source, shows up as a difference.
Oracle: `ListPolyline` below, a plain Python list implementation of every op written from the property text
(independent of the Lean model and of NumPy), plus the property's clauses on the returned index maps.
Positions are opaque data: integer lattice coordinates, so every equality test is exact (mode "rat").
"""
import collections
import itertools

import numpy as np

from pwlib.share import shcopy

from pwlib.engine import Case
from pwlib.proto import Line

ID = "C09"
TARGETS = ["PW.Props.C09"]
# history pairs (pwlib/share.py): arrays are pooled, Polyline objects are not -- this property is about which results are
# the same object as the receiver, so the adapter must build distinct objects for distinct handles
SHARE_VALUE_CLASSES = ()
RULE = ("random programs of Polyline operations (quick: 1200 programs of <= 15 ops, thorough: 10000 of <= 25 ops): 1-3 "
        "constructors (0..12 integer-lattice vertices drawn with repeats, open and closed) followed by flipped, flipped_if, "
        "rolled (index in -3n-2..3n+2, with/without edge mapping), sliced_at_indices (both orders, wrap), sectioned, join, "
        "with_insertions (k <= 3 points at positions 0..num_v incl. 0, num_v, repeats, negative spellings; with/without "
        "ret_new_indices), index_of_vertex, aligned_with, apex, bounding_box, len/num_v/num_e, each applied to a polyline "
        "produced earlier in the same program, with the kind-errors (open roll, closed align/section, reversed open slice, "
        "empty/closed join, bad breakpoints, out-of-range insertion) mixed in; after every op every live object is re-read. "
        "Plus the exhaustive family: every insertion index tuple in {0..n}^k for n <= 4, k <= 3, open and closed. "
        "A case is one program; non-trivial when it has at least one op besides constructors; distinct = distinct spec")
TRUSTED = ["np.roll / np.insert / np.flipud / np.vstack / np.bincount / np.cumsum / np.argsort(kind='stable') / np.argmax / "
           "np.isclose / Python slicing are modelled by the list functions of PW.Model.PolylineOps (namespace PW.NP); the "
           "correspondence run is what ties them to NumPy",
           "vg.project / vg.scale_factor / vg.apex modelled from vg 2.0.0's source",
           "read-only flags and memory independence are constant tags (ro, fresh, same) on the model side: correspondence only"]
ASSUMPTIONS = ["coordinates are small integers, so np.isclose(atol=1e-8) coincides with equality and all dot products are exact",
               "aligned_with vectors are axis-aligned, zero, or not perpendicular to the end-to-end extent (a perpendicular oblique "
               "vector makes the sign of vg.scale_factor depend on rounding)",
               "with_insertions indices below -num_v are not exercised (outside the property's quantifier)"]
EXHAUSTIVE = {"quick": False, "thorough": True}

MAXV = 12
ATOL_DEFAULT = 1e-08

# op-level statistics of the programs built in this run (reported through engine's extra_coverage hook)
_OPS = collections.Counter()
_FEATURES = collections.Counter()


# ---------------------------------------------------------------------------------------------------
# the plain-list reference implementation (the property oracle's notion of each op)

class Raised(Exception):
    def __init__(self, name):
        self.name = name


class ListPolyline:
    def __init__(self, pts, closed):
        self.v = [tuple(p) for p in pts]
        self.closed = bool(closed)

    @property
    def n(self):
        return len(self.v)

    def edges(self):
        n = self.n
        e = [(i, i + 1) for i in range(n - 1)]
        if self.closed and n > 0:
            e.append((n - 1, 0))
        return e

    def flipped(self):
        return ListPolyline(self.v[::-1], self.closed)

    def rolled(self, index):
        if not self.closed:
            raise Raised("ValueError")
        n = self.n
        mapping = [(i + index) % n for i in range(n)]
        return ListPolyline([self.v[j] for j in mapping], True), mapping

    def sliced(self, start, stop):
        if stop <= start:
            if not self.closed:
                raise Raised("ValueError")
            n = self.n
            around = [self.v[(start + i) % n] for i in range(n)]
            return ListPolyline(around[0:n - start + stop], False)
        return ListPolyline(self.v[start:stop], False)

    def sectioned(self, bps):
        if self.closed:
            raise Raised("NotImplementedError")
        starts = [0] + list(bps)
        ends = [b + 1 for b in bps] + [self.n]
        if any(e - s - 1 < 1 for s, e in zip(starts, ends)):
            raise Raised("ValueError")
        return [ListPolyline(self.v[s:e], False) for s, e in zip(starts, ends)]

    @staticmethod
    def join(pieces, closed):
        if len(pieces) == 0 or any(p.closed for p in pieces):
            raise Raised("ValueError")
        return ListPolyline([q for p in pieces for q in p.v], closed)

    def inserted(self, points, indices):
        n = self.n
        if len(indices) != len(points):
            raise Raised("ValueError")
        if any(i < -n or i > n for i in indices):
            raise Raised("IndexError")
        idx = [i + n if i < 0 else i for i in indices]
        # every item carries the key (position it goes before, inserted-before-original, argument order)
        items = [((idx[m], 0, m), tuple(points[m])) for m in range(len(points))] + [((j, 1, j), self.v[j]) for j in range(n)]
        items.sort(key=lambda t: t[0])
        keys = [k for k, _ in items]
        new = ListPolyline([p for _, p in items], self.closed)
        orig = [keys.index((j, 1, j)) for j in range(n)]
        ins = [keys.index((idx[m], 0, m)) for m in range(len(points))]
        return new, orig, ins

    def index_of(self, point):
        for i, q in enumerate(self.v):
            if q == tuple(point):
                return i
        raise Raised("ValueError")

    def aligned(self, vector):
        """-> (result, is_self)"""
        if self.closed:
            raise Raised("ValueError")
        if self.n < 2:
            return self, True
        ext = [b - a for a, b in zip(self.v[0], self.v[-1])]
        if sum(x * y for x, y in zip(ext, vector)) < 0:
            return self.flipped(), False
        return self, True

    def apex(self, axis):
        if self.n == 0:
            raise Raised("ValueError")
        d = [sum(x * y for x, y in zip(q, axis)) for q in self.v]
        return self.v[d.index(max(d))]

    def bbox(self):
        if self.n == 0:
            return None
        mn = [min(q[c] for q in self.v) for c in range(3)]
        mx = [max(q[c] for q in self.v) for c in range(3)]
        return mn + [b - a for a, b in zip(mn, mx)]


# ---------------------------------------------------------------------------------------------------
# running a program: on the list reference, and on the real code.  Both produce the same record structure:
#   [{"op": name, "res": [items], "table": [[items of handle 0], …]}, …]

def num(x):
    x = float(x)
    return int(x) if x == int(x) else x


def dump_list(p):
    e = p.edges()
    return [p.closed, p.n] + [int(c) for q in p.v for c in q] + [len(e)] + [i for ab in e for i in ab] + ["ro", "ro"]


def dump_impl(p):
    v = np.asarray(p.v)
    e = np.asarray(p.e)
    return ([bool(p.is_closed), int(v.shape[0])] + [num(c) for c in v.ravel()] + [int(e.shape[0])] + [int(i) for i in e.ravel()]
            + ["rw" if v.flags.writeable else "ro", "rw" if e.flags.writeable else "ro"])


def counted_ints(a):
    a = list(a)
    return [len(a)] + [int(x) for x in a]


def ref_apply(table, op):
    """apply one op to the table of list polylines (extends it in place) -> the op's answer items"""
    name = op[0]
    try:
        if name == "new":
            table.append(ListPolyline(op[2], op[1]))
            return ["fresh"]
        if name == "flipped":
            table.append(table[op[1]].flipped())
            return ["fresh"]
        if name == "flipped_if":
            table.append(table[op[1]].flipped() if op[2] else table[op[1]])
            return ["fresh" if op[2] else "same"]
        if name == "rolled":
            q, mapping = table[op[1]].rolled(op[2])
            table.append(q)
            return ["fresh"] + (counted_ints(mapping) if op[3] else [])
        if name == "slice":
            table.append(table[op[1]].sliced(op[2], op[3]))
            return ["fresh"]
        if name == "sectioned":
            qs = table[op[1]].sectioned(op[2])
            table.extend(qs)
            return [len(qs)] + ["fresh"] * len(qs)
        if name == "join":
            table.append(ListPolyline.join([table[h] for h in op[2]], op[1]))
            return ["fresh"]
        if name == "insert":
            q, orig, ins = table[op[1]].inserted(op[3], op[4])
            table.append(q)
            return ["fresh"] + (counted_ints(orig) + counted_ints(ins) if op[2] else [])
        if name == "index_of":
            return [table[op[1]].index_of(op[2])]
        if name == "aligned":
            q, same = table[op[1]].aligned(op[2])
            table.append(q)
            return ["same" if same else "fresh"]
        if name == "apex":
            return [int(c) for c in table[op[1]].apex(op[2])] + ["fresh"]
        if name == "bbox":
            b = table[op[1]].bbox()
            return ["none"] if b is None else [int(c) for c in b]
        if name == "len":
            p = table[op[1]]
            return [p.n, p.n, len(p.edges())]
    except Raised as r:
        return ["err", r.name]
    raise KeyError(name)


def run_reference(ops):
    table = []
    recs = []
    for op in ops:
        res = ref_apply(table, op)
        recs.append({"op": op[0], "res": res, "table": [dump_list(p) for p in table]})
    return recs, table


def freshness(res_arr, others):
    return "alias" if any(np.shares_memory(res_arr, np.asarray(o)) for o in others) else "fresh"


def run_impl(ops):
    from polliwog import Polyline
    from pwlib.canon import err_name
    table = []
    recs = []
    for op in ops:
        name = op[0]
        res = []
        try:
            if name == "new":
                a = np.array(np.reshape(op[2], (-1, 3)), dtype=np.float64).copy()  # private copy (never pooled): overwritten below
                p = Polyline(a, is_closed=op[1])
                res = [freshness(p.v, [a])]
                a[...] = 77.0  # the constructor's argument is changed afterwards: the polyline must not follow
                table.append(p)
            elif name == "flipped":
                r = table[op[1]]
                p = r.flipped()
                res = ["same" if p is r else freshness(p.v, [r.v])]
                table.append(p)
            elif name == "flipped_if":
                r = table[op[1]]
                p = r.flipped_if(bool(op[2]))
                res = ["same" if p is r else freshness(p.v, [r.v])]
                table.append(p)
            elif name == "rolled":
                r = table[op[1]]
                if op[3]:
                    p, mapping = r.rolled(op[2], ret_edge_mapping=True)
                    res = ["same" if p is r else freshness(p.v, [r.v])] + counted_ints(mapping)
                else:
                    p = r.rolled(op[2])
                    res = ["same" if p is r else freshness(p.v, [r.v])]
                table.append(p)
            elif name == "slice":
                r = table[op[1]]
                p = r.sliced_at_indices(op[2], op[3])
                res = ["same" if p is r else freshness(p.v, [r.v])]
                table.append(p)
            elif name == "sectioned":
                r = table[op[1]]
                qs = r.sectioned(np.array(op[2], dtype=np.int64), copy_vs=bool(op[3]))
                res = [len(qs)] + ["same" if q is r else freshness(q.v, [r.v]) for q in qs]
                table.extend(qs)
            elif name == "join":
                rs = [table[h] for h in op[2]]
                p = Polyline.join(*rs, is_closed=op[1])
                res = ["same" if any(p is r for r in rs) else freshness(p.v, [r.v for r in rs])]
                table.append(p)
            elif name == "insert":
                r = table[op[1]]
                pts = np.array(np.reshape(op[3], (-1, 3)), dtype=np.float64)
                idx = np.array(op[4], dtype=np.int64)
                if op[2]:
                    p, orig, ins = r.with_insertions(pts, idx, ret_new_indices=True)
                    res = ["same" if p is r else freshness(p.v, [r.v, pts])] + counted_ints(orig) + counted_ints(ins)
                else:
                    p = r.with_insertions(pts, idx)
                    res = ["same" if p is r else freshness(p.v, [r.v, pts])]
                table.append(p)
            elif name == "index_of":
                r = table[op[1]]
                pt = np.array(op[2], dtype=np.float64)
                i = r.index_of_vertex(pt) if op[3] is None else r.index_of_vertex(pt, atol=op[3])
                res = [int(i)]
            elif name == "aligned":
                r = table[op[1]]
                p = r.aligned_with(np.array(op[2], dtype=np.float64))
                res = ["same" if p is r else freshness(p.v, [r.v])]
                table.append(p)
            elif name == "apex":
                r = table[op[1]]
                a = r.apex(np.array(op[2], dtype=np.float64))
                res = [num(c) for c in np.asarray(a).ravel()] + [freshness(a, [r.v])]
            elif name == "bbox":
                b = table[op[1]].bounding_box
                res = ["none"] if b is None else [num(c) for c in b.origin] + [num(c) for c in b.size]
            elif name == "len":
                p = table[op[1]]
                res = [int(len(p)), int(p.num_v), int(p.num_e)]
            else:
                raise KeyError(name)
        except KeyError:
            raise
        except Exception as e:  # noqa: BLE001 - the exception class is the observable outcome of the op
            res = ["err", err_name(e)]
        recs.append({"op": name, "res": res, "table": [dump_impl(p) for p in table]})
    return recs


def flatten(recs):
    out = []
    for r in recs:
        out.append("|" + r["op"])
        out.extend(r["res"])
        out.append("#")
        out.append(len(r["table"]))
        for d in r["table"]:
            out.extend(d)
    return out


def program_line(ops):
    ln = Line("c09.prog").i(len(ops))
    for op in ops:
        name = op[0]
        ln.tok(name)
        if name == "new":
            ln.b(op[1]).vecs(np.array(np.reshape(op[2], (-1, 3)), dtype=np.float64))
        elif name == "flipped":
            ln.i(op[1])
        elif name == "flipped_if":
            ln.i(op[1]).b(op[2])
        elif name == "rolled":
            ln.i(op[1], op[2]).b(op[3])
        elif name == "slice":
            ln.i(op[1], op[2], op[3])
        elif name == "sectioned":
            ln.i(op[1]).ints(op[2])
        elif name == "join":
            ln.b(op[1]).ints(op[2])
        elif name == "insert":
            ln.i(op[1]).b(op[2]).vecs(np.array(np.reshape(op[3], (-1, 3)), dtype=np.float64)).ints(op[4])
        elif name == "index_of":
            ln.i(op[1]).vec(op[2]).f(ATOL_DEFAULT if op[3] is None else op[3])
        elif name in ("aligned", "apex"):
            ln.i(op[1]).vec(op[2])
        elif name in ("bbox", "len"):
            ln.i(op[1])
        else:
            raise KeyError(name)
    return ln


# ---------------------------------------------------------------------------------------------------
# property oracle: the implementation's records against the list reference, clause by clause

def split_dump(d):
    closed, n = d[0], d[1]
    v = [tuple(d[2 + 3 * i: 5 + 3 * i]) for i in range(n)]
    ne = d[2 + 3 * n]
    e = [tuple(d[3 + 3 * n + 2 * i: 5 + 3 * n + 2 * i]) for i in range(ne)]
    flags = d[3 + 3 * n + 2 * ne:]
    return closed, v, e, flags


def oracle_program(ops, recs):
    out = []

    def bad(key, msg):
        out.append((key, msg))

    exp, _ = run_reference(ops)
    for k, (op, r, x) in enumerate(zip(ops, recs, exp)):
        name = op[0]
        where = "op %d %s%s" % (k, name, tuple(op[1:]))
        # --- the op's own answer ---------------------------------------------------------------
        if r["res"][:1] == ["err"] or x["res"][:1] == ["err"]:
            if r["res"] != x["res"]:
                bad(name + "/error", "%s: implementation answered %s, the list model %s" % (where, r["res"][:6], x["res"][:6]))
                break  # the tables differ from here on
        elif name == "insert":
            old = split_dump(r["table"][op[1]])[1]
            new = split_dump(r["table"][-1])[1]
            want = split_dump(x["table"][-1])[1]
            if op[2]:
                n, kk = len(old), len(op[3])
                orig = r["res"][2:2 + n]
                ins = r["res"][3 + n:3 + n + kk]
                if r["res"][1] != n or r["res"][2 + n] != kk:
                    bad("with_insertions/map-lengths", "%s: index maps have the wrong lengths: %s" % (where, r["res"]))
                else:
                    if any(not (0 <= orig[j] < len(new)) or new[orig[j]] != old[j] for j in range(n)):
                        bad("with_insertions/orig-map", "%s: indices_of_original_vertices=%s but new vertices are %s and old %s"
                            % (where, orig, new, old))
                    if any(not (0 <= ins[m] < len(new)) or new[ins[m]] != tuple(op[3][m]) for m in range(kk)):
                        bad("with_insertions/ins-map", "%s: indices_of_inserted_points=%s but new vertices are %s" % (where, ins, new))
            if new != want:
                bad("with_insertions/values", "%s: new vertices %s, expected %s" % (where, new, want))
            if r["res"][0] != "fresh":
                bad("fresh/with_insertions", "%s: result shares memory with an argument" % where)
        elif name == "rolled":
            new = split_dump(r["table"][-1])[1]
            want = split_dump(x["table"][-1])[1]
            if new != want:
                bad("rolled/values", "%s: vertices %s, expected old[(i+index) mod n] = %s" % (where, new, want))
            if r["res"][1:] != x["res"][1:]:
                bad("rolled/edge-mapping", "%s: edge mapping %s, expected %s" % (where, r["res"][1:], x["res"][1:]))
            if r["res"][0] != x["res"][0]:
                bad("fresh/rolled", "%s: result tag %s" % (where, r["res"][0]))
        else:
            if r["res"] != x["res"]:
                bad(name + "/result", "%s: implementation answered %s, the list model %s" % (where, r["res"][:12], x["res"][:12]))
        # --- every polyline made so far, re-read after the op -----------------------------------
        if len(r["table"]) != len(x["table"]):
            bad(name + "/result-count", "%s: %d polylines exist afterwards, expected %d" % (where, len(r["table"]), len(x["table"])))
            break
        nprev = len(recs[k - 1]["table"]) if k else 0
        stop = False
        for h, (d, dx) in enumerate(zip(r["table"], x["table"])):
            c, v, e, fl = split_dump(d)
            if fl != ["ro", "ro"]:
                bad("immutable/flags", "%s: polyline %d has writable arrays (v, e: %s)" % (where, h, fl))
            if h < nprev:
                # an earlier polyline: must read exactly as it did before this op
                before = recs[k - 1]["table"][h]
                if d != before:
                    cb, vb, eb, _ = split_dump(before)
                    if (c, v, e) != (cb, vb, eb):
                        bad("immutable/changed-by-" + name, "%s: polyline %d reads closed=%s %s %s afterwards, before the op it read closed=%s %s %s"
                            % (where, h, c, v, e, cb, vb, eb))
                        stop = True
            elif d != dx:
                cx, vx, ex, _ = split_dump(dx)
                if e != ex and (c, v) == (cx, vx):
                    bad("edges/spec", "%s: polyline %d (closed=%s, %d vertices) has edges %s, expected %s" % (where, h, c, len(v), e, ex))
                elif (c, v) != (cx, vx):
                    bad(name + "/values", "%s: result %d is closed=%s %s, expected closed=%s %s" % (where, h, c, v, cx, vx))
                    stop = True
        if stop:
            break
    seen = {}
    for key, m in out:
        seen.setdefault(key, m)
    return list(seen.items())


# ---------------------------------------------------------------------------------------------------
# cases

def note_stats(ops, exp):
    for op, x in zip(ops, exp):
        out = "err:" + x["res"][1] if x["res"][:1] == ["err"] else "ok"
        _OPS["%s/%s" % (op[0], out)] += 1
        if out != "ok":
            continue
        if op[0] == "insert":
            n = x["table"][op[1]][1]
            idx = [i + n if i < 0 else i for i in op[4]]
            _FEATURES["insert: k=%d" % len(idx)] += 1
            if len(set(idx)) < len(idx):
                _FEATURES["insert: repeated position"] += 1
            if n in idx:
                _FEATURES["insert: at num_v"] += 1
            if 0 in idx:
                _FEATURES["insert: at 0"] += 1
            if any(i < 0 for i in op[4]):
                _FEATURES["insert: negative spelling"] += 1
            if idx != sorted(idx):
                _FEATURES["insert: unsorted positions"] += 1
        elif op[0] == "rolled":
            n = x["table"][op[1]][1]
            _FEATURES["rolled: index %s" % ("negative" if op[2] < 0 else "in 0..n-1" if op[2] < n else ">= n")] += 1
        elif op[0] == "slice":
            _FEATURES["slice: %s" % ("wrap (stop <= start)" if op[3] <= op[2] else "forward")] += 1
    if exp:
        for d in exp[-1]["table"]:
            _FEATURES["polyline with %2d vertices, %s" % (d[1], "closed" if d[0] else "open")] += 1


def extra_coverage():
    return {"op_histogram": dict(sorted(_OPS.items())), "feature_histogram": dict(sorted(_FEATURES.items()))}


def make(spec):
    ops = spec["ops"]
    line = program_line(ops)
    box = {}

    def impl():
        box["recs"] = run_impl(ops)
        return flatten(box["recs"])

    def oracle(_r):
        return oracle_program(ops, box["recs"]) if "recs" in box else []

    exp, _ = run_reference(ops)
    note_stats(ops, exp)
    last = ops[-1][0] if ops else "empty"
    outcome = "err:" + exp[-1]["res"][1] if ops and exp[-1]["res"][:1] == ["err"] else "ok"
    trivial = all(op[0] == "new" for op in ops)
    fam = spec.get("family", "random")
    return Case(spec, line, impl, mode="rat", klass="%s/%s/%s" % (fam, last, outcome), trivial=trivial, oracle=oracle)


# ---------------------------------------------------------------------------------------------------
# generators

def lattice_points(rng, n):
    pool = [[rng.randint(-3, 3) for _ in range(3)] for _ in range(max(1, n - rng.randint(0, 2)))]
    return [list(rng.choice(pool)) if rng.random() < 0.35 else [rng.randint(-3, 3) for _ in range(3)] for _ in range(n)]


def pick(rng, table, pred=None):
    cands = [h for h, p in enumerate(table) if pred is None or pred(p)]
    if not cands:
        return None
    # favour recent results
    return cands[-1 - min(int(rng.expovariate(0.5)), len(cands) - 1)] if rng.random() < 0.6 else rng.choice(cands)


def gen_vector(rng, ext=None):
    """direction for aligned_with: zero, axis-aligned, or oblique but not perpendicular to the extent"""
    r = rng.random()
    if r < 0.08:
        return [0, 0, 0]
    if r < 0.45:
        v = [0, 0, 0]
        v[rng.randrange(3)] = rng.choice([-3, -2, -1, 1, 2, 3])
        return v
    for _ in range(50):
        v = [rng.randint(-3, 3) for _ in range(3)]
        if any(v) and (ext is None or sum(a * b for a, b in zip(ext, v)) != 0):
            return v
    return [1, 0, 0]


def gen_op(rng, table):
    """one op with arguments in range for the current table (list reference objects)"""
    r = rng.random()
    names = ["flipped", "flipped_if", "rolled", "slice", "sectioned", "join", "insert", "index_of", "aligned", "apex", "bbox", "len", "new"]
    weights = [5, 5, 12, 12, 8, 8, 16, 7, 7, 6, 4, 5, 3]
    name = rng.choices(names, weights)[0]
    if name == "new":
        n = rng.choice([0, 1, 2, 3, 4, 5, 6, 8, 10, 12])
        return ["new", rng.random() < 0.5, lattice_points(rng, n)]
    if name == "flipped":
        return ["flipped", pick(rng, table)]
    if name == "flipped_if":
        return ["flipped_if", pick(rng, table), rng.random() < 0.5]
    if name == "rolled":
        h = pick(rng, table, lambda p: p.closed) if r < 0.85 else pick(rng, table)
        if h is None:
            h = pick(rng, table)
        n = table[h].n
        index = rng.randint(0, max(n - 1, 0)) if rng.random() < 0.4 else rng.randint(-3 * n - 2, 3 * n + 2)
        return ["rolled", h, index, rng.random() < 0.6]
    if name == "slice":
        h = pick(rng, table)
        p = table[h]
        n = p.n
        if rng.random() < 0.04:
            return ["slice", h, rng.randint(-n - 2, n + 2), rng.randint(-n - 2, n + 2)]
        start = rng.randint(0, max(n - 1, 0))
        stop = rng.randint(0, n)
        if not p.closed and stop <= start and rng.random() < 0.8:
            start, stop = min(start, stop), max(start, stop)
            if start == stop and stop < n:
                stop += 1
        return ["slice", h, start, stop]
    if name == "sectioned":
        h = pick(rng, table, lambda p: not p.closed and p.n >= 3) if r < 0.8 else pick(rng, table)
        if h is None:
            h = pick(rng, table)
        n = table[h].n
        if n >= 3 and rng.random() < 0.8:
            k = rng.randint(0, min(3, n - 2))
            bps = sorted(rng.sample(range(1, n - 1), k))
        else:
            bps = [rng.randint(0, max(n - 1, 0)) for _ in range(rng.randint(0, 3))]
            if rng.random() < 0.5:
                bps.sort()
        return ["sectioned", h, bps, rng.random() < 0.5]
    if name == "join":
        k = rng.choice([0, 1, 2, 2, 3, 3])
        hs = []
        total = 0
        for _ in range(k):
            h = pick(rng, table, lambda p: not p.closed) if rng.random() < 0.92 else pick(rng, table)
            if h is None:
                h = pick(rng, table)
            if total + table[h].n <= MAXV:
                hs.append(h)
                total += table[h].n
        return ["join", rng.random() < 0.4, hs]
    if name == "insert":
        h = pick(rng, table, lambda p: p.n <= MAXV - 1) if r < 0.9 else pick(rng, table, lambda p: p.n <= MAXV)
        if h is None:
            h = pick(rng, table)
        n = table[h].n
        k = rng.randint(0, max(0, min(3, MAXV - n)))
        pts = [[rng.randint(-3, 3) for _ in range(3)] for _ in range(k)]
        style = rng.random()
        idx = []
        for m in range(k):
            if style < 0.2:
                i = rng.choice([0, n])
            elif style < 0.4 and idx:
                i = rng.choice(idx) % (n + 1) if rng.random() < 0.7 else rng.randint(0, n)
            else:
                i = rng.randint(0, n)
            if i < n and rng.random() < 0.12:
                i -= n  # negative spelling of the same position
            idx.append(i)
        e = rng.random()
        if e < 0.03:
            idx = idx + [0] if rng.random() < 0.5 or not idx else idx[:-1]  # wrong number of indices
        elif e < 0.06 and k:
            idx[rng.randrange(k)] = n + 1  # one past the last allowed position
        return ["insert", h, rng.random() < 0.7, pts, idx]
    if name == "index_of":
        h = pick(rng, table)
        p = table[h]
        pt = list(rng.choice(p.v)) if p.n and rng.random() < 0.7 else [rng.randint(-3, 3) for _ in range(3)]
        return ["index_of", h, pt, rng.choice([None, None, ATOL_DEFAULT, 0.0, 0.25])]
    if name == "aligned":
        h = pick(rng, table, lambda p: not p.closed) if r < 0.85 else pick(rng, table)
        if h is None:
            h = pick(rng, table)
        p = table[h]
        ext = [b - a for a, b in zip(p.v[0], p.v[-1])] if p.n >= 2 else None
        return ["aligned", h, gen_vector(rng, ext)]
    if name == "apex":
        v = [rng.randint(-3, 3) for _ in range(3)] if rng.random() < 0.9 else [0, 0, 0]
        return ["apex", pick(rng, table), v]
    return [name, pick(rng, table)]


def gen_program(rng, max_ops):
    nops = rng.randint(2, max_ops)
    ops = []
    table = []
    for _ in range(rng.randint(1, 3)):
        n = rng.choice([0, 1, 2, 3, 3, 4, 5, 6, 7, 8, 10, 12])
        ops.append(["new", rng.random() < 0.5, lattice_points(rng, n)])
        ref_apply(table, ops[-1])
    while len(ops) < nops:
        op = gen_op(rng, table)
        ops.append(op)
        ref_apply(table, op)
    return ops


def shift_program(ops, off):
    mv = lambda p: [c + o for c, o in zip(p, off)]
    out = []
    for op in ops:
        op = list(op)
        if op[0] == "new":
            op[2] = [mv(p) for p in op[2]]
        elif op[0] == "insert":
            op[3] = [mv(p) for p in op[3]]
        elif op[0] == "index_of":
            op[2] = mv(op[2])
        out.append(op)
    return out


def exhaustive_insertions():
    for n in range(0, 5):
        old = [[j + 1, 0, 0] for j in range(n)]
        for k in range(0, 4):
            pts = [[0, m + 1, 0] for m in range(k)]
            for idx in itertools.product(range(n + 1), repeat=k):
                for closed in (False, True):
                    yield {"op": "program", "family": "insert-exhaustive", "n": n, "k": k,
                           "ops": [["new", closed, old], ["insert", 0, True, pts, list(idx)], ["insert", 0, False, pts, list(idx)],
                                   ["len", 1]]}


def gen(rng, tier):
    for s in exhaustive_insertions():
        yield s
    if tier == "quick":
        nprog, max_ops = 1200, 15
    else:
        nprog, max_ops = 10000, 25
    for i in range(nprog):
        ops = gen_program(rng, max_ops)
        if i % 5 == 4:
            # the same program far from the origin: every point moved by the same large (exactly representable) offset, so
            # vertices that differ by 1 differ by 1e-6 of their size -- equality of points is still exact equality
            off = [rng.choice([0, 1, -1, 6]) * 2 ** 20 for _ in range(3)]
            if not any(off):
                off[rng.randrange(3)] = 2 ** 20
            yield {"op": "program", "family": "random-far", "ops": shift_program(ops, off)}
        else:
            yield {"op": "program", "family": "random", "ops": ops}
