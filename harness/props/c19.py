"""C19 — serialization round-trips Polylines and Planes at the stated precision.

Correspondence: Polyline/Plane `rounded`, `serialize`, `validate`, `deserialize` (with the real jsonschema and the real
`json.dumps/loads` in the loop) against the Lean model PW.Model.Serialize, whose validator is a Draft-7 interpreter run
on the schema *generated* from /repo's polliwog/schema.json.  Rounding is compared at exact rationals (`rat`): the model
computes roundHalfEven(x*10^d)/10^d on the exact value of the double, NumPy multiplies / divides in floating point, so
values are compared to a few ulps and inputs whose product lies within rounding error of a tie are dropped.
Oracle: the clauses of C19 evaluated on the implementation's own outputs (exact `Fraction` arithmetic).
"""
import json
import math
import random
from fractions import Fraction

import numpy as np

from pwlib.share import shcopy

from pwlib.canon import flat
from pwlib.engine import Case
from pwlib.proto import Line, fhex

ID = "C19"
TARGETS = ["PW.Props.C19"]
RULE = ("four streams: (1) polylines with 0..n vertices, open/closed, every coordinate of its own magnitude 1e-9..1e12 "
        "(plus zeros), decimals 0..12 and None, and a lattice stream of dyadic coordinates whose products with 10^d are exact "
        "half-integers (round-half-even ties); (2) planes with float-normalised normals in all 8 octants, on axes and in "
        "coordinate planes, position decimals 0..12/None, direction decimals 0..12/None; each object runs rounded, serialize, "
        "validate(serialize), deserialize(serialize) and the round trip through json.dumps/loads (planes: round trip at the "
        "default direction decimals and at >= 6; deserialize of coarser documents is compared too: both sides refuse them "
        "with ValueError); (3) every single-fault corruption of valid documents (drop key, extra key, wrong type at every "
        "leaf incl. True/1/'1'/None/nested list/dict, arity 2 and 4, non-list vectors, non-dict document) through the real "
        "validate and deserialize, with the uncorrupted document and int-for-float leaves as accepted controls; "
        "(4) hand-written documents. A case is non-trivial unless the polyline is empty; distinct = distinct spec")
TRUSTED = ["json.dumps/json.loads are the identity on finite doubles, bools, lists and str-keyed dicts (exercised on every "
           "round-trip case, not modelled)",
           "jsonschema Draft7Validator implements Draft 7 for the keywords used (type, properties, required, "
           "additionalProperties, items, minItems, maxItems, $ref): modelled by PW.Ser.valid, tied by the corruption stream",
           "np.around(x, d) = rint(x*10^d)/10^d with rint = round half to even; IEEE rounding of the multiply/divide not modelled "
           "(values compared with rtol 1e-13)",
           "vg.almost_unit_length(n, atol) = |norm(n) - 1| <= atol, modelled square-root free as (1-a)^2 <= n.n <= (1+a)^2"]
ASSUMPTIONS = ["finite coordinates; decimals are non-negative ints or None",
               "coordinates whose exact product with 10^d is within 2^-50 relative of a half-integer without the float product "
               "being exact are dropped (the rounding direction under IEEE arithmetic is not determined by the model)",
               "unit-length decisions whose exact margin is below 1e-10 are dropped (never the case for a normalised normal "
               "checked at the decimals it was rounded to: the margin is at least 13% of the tolerance)",
               "plane normals are normalised in floating point; every generated normal is checked in exact rationals to satisfy "
               "|n.n - 1| <= 4*2^-52, the hypothesis of the *_double theorems (a normal outside the bound would be dropped; none occurs)"]
EXHAUSTIVE = {"quick": False, "thorough": False}

DEFAULT_DECIMALS = 6  # the documented class defaults (Polyline.DEFAULT_DECIMALS, Plane.DEFAULT_*_DECIMALS)
RTOL = 1e-13
UNIT_SLACK = Fraction(4, 2 ** 52)  # |n.n - 1| of a normal normalised in double precision (delta of the *_double theorems)
NOT_NORMALISED = []               # generated normals outside that bound (dropped; expected to stay empty)
TINY = 1e-300


# ---------------------------------------------------------------------------------------------------
# helpers

def validation_error():
    import jsonschema
    return jsonschema.ValidationError


def F(x):
    return Fraction(float(x))


def rint_half_even(p):
    f = math.floor(p)
    d = p - f
    if d < Fraction(1, 2):
        return f
    if d > Fraction(1, 2):
        return f + 1
    return f if f % 2 == 0 else f + 1


def round_determined(x, d):
    """is np.around(x, d) determined by exact rounding, given that NumPy forms x*10^d in floating point?"""
    p = F(x) * 10 ** d
    if abs(p) >= 2 ** 52:
        return True
    dist = abs((p - math.floor(p)) - Fraction(1, 2))
    if dist == 0:
        return F(float(x) * float(10 ** d)) == p
    return dist > Fraction(1, 2 ** 50) * max(abs(p), 1)


def unit_margin_ok(n, d):
    """is the decision |norm(n)-1| <= 10^-d robust under floating point?"""
    nn = sum(F(x) * F(x) for x in n)
    a = Fraction(1, 10 ** d)
    lo, hi = (1 - a) ** 2, (1 + a) ** 2
    m = Fraction(1, 10 ** 10)
    return abs(nn - lo) > m and abs(nn - hi) > m


def doc_tokens(doc):
    """python JSON value -> driver tokens (None if it cannot be encoded)"""
    if doc is None:
        return ["N"]
    if isinstance(doc, bool):
        return ["B", "1" if doc else "0"]
    if isinstance(doc, int):
        return ["I", str(doc)]
    if isinstance(doc, float):
        return ["D", fhex(doc)]
    if isinstance(doc, str):
        if not doc or any(c.isspace() for c in doc):
            return None
        return ["S", doc]
    if isinstance(doc, list):
        out = ["A", str(len(doc))]
        for x in doc:
            t = doc_tokens(x)
            if t is None:
                return None
            out.extend(t)
        return out
    if isinstance(doc, dict):
        out = ["O", str(len(doc))]
        for k, v in doc.items():
            t = doc_tokens(v)
            if t is None or not isinstance(k, str) or not k or any(c.isspace() for c in k):
                return None
            out.append(k)
            out.extend(t)
        return out
    return None


def dline(op, doc):
    t = doc_tokens(doc)
    if t is None:
        return None
    return op + " " + " ".join(t)


def parse_model_doc(toks, i=0):
    """model document tokens -> (python value with Fractions for floats, next index)"""
    from pwlib.proto import parse_num
    t = toks[i]
    if t == "N":
        return None, i + 1
    if t == "B":
        return toks[i + 1] == "T", i + 2
    if t == "I":
        return int(toks[i + 1]), i + 2
    if t == "D":
        return ("D", parse_num(toks[i + 1])), i + 2
    if t == "S":
        return toks[i + 1], i + 2
    if t == "A":
        n = int(toks[i + 1])
        i += 2
        out = []
        for _ in range(n):
            v, i = parse_model_doc(toks, i)
            out.append(v)
        return out, i
    if t == "O":
        n = int(toks[i + 1])
        i += 2
        out = {}
        for _ in range(n):
            k = toks[i]
            v, i = parse_model_doc(toks, i + 1)
            if k in out:
                raise ValueError("duplicate key in model document")
            out[k] = v
        return out, i
    raise ValueError("bad token " + t)


def same_doc(impl, model, path="$"):
    """abstract comparison of a serialized document: dict order is irrelevant, floats to RTOL, types exact"""
    if isinstance(model, tuple):
        if type(impl) is int and not isinstance(impl, bool):
            impl = float(impl)          # a JSON number all the same (a plane built from integer arrays serializes whole numbers)
        if type(impl) is not float:
            return "%s: impl %r is not a number" % (path, impl)
        b = model[1]
        if b is None or (isinstance(b, float) and not math.isfinite(b)) or not math.isfinite(impl):
            return None if (b is None and math.isnan(impl)) or b == impl else "%s: impl %r model %r" % (path, impl, b)
        mag = max(abs(impl), abs(float(b)))
        if abs(Fraction(impl) - Fraction(b)) > Fraction(RTOL) * Fraction(mag):
            return "%s: impl %r model %r" % (path, impl, float(b))
        return None
    if isinstance(model, bool) or model is None or isinstance(model, (int, str)):
        return None if type(impl) is type(model) and impl == model else "%s: impl %r model %r" % (path, impl, model)
    if isinstance(model, list):
        if type(impl) is not list or len(impl) != len(model):
            return "%s: impl %r is not a list of %d items" % (path, impl if not isinstance(impl, list) else len(impl), len(model))
        for j, (a, b) in enumerate(zip(impl, model)):
            m = same_doc(a, b, "%s[%d]" % (path, j))
            if m:
                return m
        return None
    if isinstance(model, dict):
        if type(impl) is not dict or set(impl) != set(model):
            return "%s: impl keys %r model keys %r" % (path, list(impl) if isinstance(impl, dict) else impl, list(model))
        for k in model:
            m = same_doc(impl[k], model[k], "%s.%s" % (path, k))
            if m:
                return m
        return None
    return "%s: unexpected model value" % path


def compare_serialized(impl_result, model_line, mode):
    """impl thunk returns ['doc', <python document>]; the model prints document tokens (or err <Class>)"""
    toks = model_line.split(" ")
    if toks[0] == "bad":
        return "model-protocol-error: " + model_line[:200]
    if impl_result[0] == "err":
        return None if toks[0] == "err" and toks[1] == impl_result[1] else "impl raised %s, model answered %s" % (
            impl_result[1], " ".join(toks[:6]))
    if toks[0] == "err":
        return "model raised %s, impl returned a value" % toks[1]
    try:
        md, end = parse_model_doc(toks, 1)
    except Exception as e:
        return "model document unreadable: %s" % (e,)
    if end != len(toks):
        return "trailing model tokens"
    return same_doc(impl_result[1][1], md)


def dec_tok(d):
    return -1 if d is None else d


def polyline_items(q):
    c = q.is_closed if isinstance(q.is_closed, bool) else "closed:" + type(q.is_closed).__name__
    v = np.asarray(q.v)
    return [c, int(v.shape[0])] + flat(v)


def plane_items(q):
    return flat(q.reference_point) + flat(q.normal)


def tagged(fn, render):
    """run fn; ValidationError -> ['refused']; a value -> ['accepted'] + render(value); anything else propagates"""
    VE = validation_error()
    try:
        r = fn()
    except VE:
        return ["refused"]
    return ["accepted"] + render(r)


# ---------------------------------------------------------------------------------------------------
# generators

def coord(rng):
    r = rng.random()
    if r < 0.04:
        return 0.0
    return rng.choice([-1.0, 1.0]) * rng.uniform(1.0, 10.0) * 10.0 ** rng.uniform(-9, 11)


def lattice_coord(rng, d):
    # dyadic m / 2^q: m*10^d/2^q is exact in a double and is a half-integer for many m
    q = rng.choice([1, 2, 3])
    m = rng.randint(-64, 64)
    return m / 2.0 ** q


OCTANTS = [(sx, sy, sz) for sx in (1, -1) for sy in (1, -1) for sz in (1, -1)]
SPECIAL_NORMALS = [[1, 0, 0], [0, 1, 0], [0, 0, 1], [-1, 0, 0], [0, -1, 0], [0, 0, -1],
                   [1, 1, 0], [1, 0, -1], [0, -1, 1], [3, 4, 0], [0, 3, -4], [1, 2, 3], [1, 1, 1], [-1, -1, -1],
                   [1, 1e-4, 0], [1e-7, 1, 1e-7], [2, -3, 6], [1, 4, 8]]


def gen(rng, tier):
    quick = tier == "quick"
    # (1) polylines
    n_pl = 260 if quick else 6000
    sizes = [0, 1, 1, 2, 2, 3, 4, 5, 8, 13]
    for i in range(n_pl):
        d = [None] + list(range(13))
        yield {"op": "polyline", "stream": "float", "n": sizes[i % len(sizes)] if rng.random() < 0.95 else rng.randint(20, 60),
               "closed": bool(i % 2), "decimals": d[i % 14], "seed": rng.randrange(1 << 30)}
    for i in range(120 if quick else 3000):
        yield {"op": "polyline", "stream": "lattice", "n": rng.choice([1, 2, 3, 6]), "closed": bool(i % 2),
               "decimals": rng.choice([0, 0, 1, 2, 3, None]), "seed": rng.randrange(1 << 30)}
    for i in range(40 if quick else 600):
        yield {"op": "polyline", "stream": "lattice" if i % 2 else "float", "n": rng.choice([2, 3, 4, 6]), "closed": i % 4 != 3,
               "decimals": rng.choice([0, 1, 2, 3, 6, None]), "seed": rng.randrange(1 << 30), "seam": True}
    # (2) planes
    n_plane = 260 if quick else 6000
    for i in range(n_plane):
        dd_all = list(range(13)) + [None]
        spec = {"op": "plane", "pd": dd_all[(i // 3) % 14], "dd": dd_all[i % 14], "seed": rng.randrange(1 << 30)}
        if i % 5 == 4:
            spec["normal"] = SPECIAL_NORMALS[(i // 5) % len(SPECIAL_NORMALS)]
        else:
            spec["octant"] = (i // 14) % 8  # every (direction decimals, octant) pair occurs
        yield spec
    # (3) corruptions
    n_base = 4 if quick else 40
    for i in range(n_base):
        sub = random.Random(rng.randrange(1 << 30))
        m = [1, 2, 3, 0][i % 4]
        doc = {"vertices": [[coord(sub) for _ in range(3)] for _ in range(m)], "isClosed": bool(i % 2)}
        for fault, cd in corruptions_polyline(doc):
            yield {"op": "corrupt", "kind": "polyline", "fault": fault, "doc": cd}
    for i in range(n_base):
        sub = random.Random(rng.randrange(1 << 30))
        n = unit_normal(sub, OCTANTS[i % 8])
        doc = {"referencePoint": [coord(sub) for _ in range(3)], "unitNormal": n}
        for fault, cd in corruptions_plane(doc):
            yield {"op": "corrupt", "kind": "plane", "fault": fault, "doc": cd}
    # (4) hand-written documents
    for kind, fault, doc in HAND_DOCS:
        yield {"op": "corrupt", "kind": kind, "fault": fault, "doc": doc}


def unit_normal(rng, signs):
    while True:
        v = np.array([abs(rng.gauss(0, 1)) * s for s in signs])
        m = float(np.linalg.norm(v))
        if m > 1e-2:
            return (v / m).tolist()


WRONG_NUMBER = [("True", True), ("False", False), ("str", "1"), ("None", None), ("list", [1.0]), ("dict", {})]
WRONG_BOOL = [("int1", 1), ("int0", 0), ("float", 1.0), ("str", "true"), ("None", None), ("list", [True]), ("dict", {})]
WRONG_LIST = [("None", None), ("str", "v"), ("int", 1), ("float", 1.5), ("True", True), ("dict", {})]
WRONG_DOC = [("None", None), ("str", "doc"), ("int", 3), ("float", 2.5), ("True", True), ("list", [])]


def clone(x):
    return json.loads(json.dumps(x))


def set_path(doc, path, value):
    d = clone(doc)
    cur = d
    for p in path[:-1]:
        cur = cur[p]
    cur[path[-1]] = value
    return d


def vector_faults(doc, path, name):
    """faults on the vector at doc[path] (a list of three floats); expected refusal unless the name starts with 'ok'"""
    cur = doc
    for p in path:
        cur = cur[p]
    vec = cur
    for j in range(3):
        for tag, bad in WRONG_NUMBER:
            yield "leaf-%s@%s[%d]" % (tag, name, j), set_path(doc, path + [j], bad)
        # control: an int is a number
        yield "ok:leaf-int@%s[%d]" % (name, j), set_path(doc, path + [j], int(round(vec[j])) if abs(vec[j]) < 1e15 else 0)
    yield "arity2@%s" % name, set_path(doc, path, vec[:2])
    yield "arity4@%s" % name, set_path(doc, path, vec + [0.5])
    yield "arity0@%s" % name, set_path(doc, path, [])
    yield "arity1@%s" % name, set_path(doc, path, vec[:1])
    yield "nested@%s" % name, set_path(doc, path, [vec])
    for tag, bad in WRONG_LIST:
        yield "nonlist-%s@%s" % (tag, name), set_path(doc, path, bad)


def key_faults(doc, keys):
    for k in keys:
        d = clone(doc)
        del d[k]
        yield "drop-key:%s" % k, d
        # renamed key = one dropped + one extra; case variant of the name
        d2 = {(kk.upper() if kk == k else kk): v for kk, v in clone(doc).items()}
        yield "rename-key:%s" % k, d2
    d = clone(doc)
    d["extra"] = 1.0
    yield "extra-key", d
    d = clone(doc)
    d["extra"] = None
    yield "extra-key-null", d
    d = {"extra": clone(doc[keys[0]])}
    d.update(clone(doc))
    yield "extra-key-first", d
    for tag, bad in WRONG_DOC:
        yield "nondict-%s" % tag, bad
    yield "nondict-wrapped", [clone(doc)]
    yield "empty-dict", {}


def corruptions_polyline(doc):
    yield "ok:unmodified", clone(doc)
    yield "ok:reordered-keys", {"isClosed": doc["isClosed"], "vertices": clone(doc["vertices"])}
    yield "ok:closed-flipped", set_path(doc, ["isClosed"], not doc["isClosed"])
    for f in key_faults(doc, ["vertices", "isClosed"]):
        yield f
    for tag, bad in WRONG_BOOL:
        yield "isClosed-%s" % tag, set_path(doc, ["isClosed"], bad)
    for tag, bad in WRONG_LIST:
        yield "vertices-nonlist-%s" % tag, set_path(doc, ["vertices"], bad)
    for i in range(len(doc["vertices"])):
        for f in vector_faults(doc, ["vertices", i], "vertices[%d]" % i):
            yield f
    # a flat list of numbers instead of a list of vectors
    yield "vertices-flat", set_path(doc, ["vertices"], [x for v in doc["vertices"] for x in v] or [1.0, 2.0, 3.0])
    yield "ok:vertices-empty", set_path(doc, ["vertices"], [])


def corruptions_plane(doc):
    yield "ok:unmodified", clone(doc)
    yield "ok:reordered-keys", {"unitNormal": clone(doc["unitNormal"]), "referencePoint": clone(doc["referencePoint"])}
    for f in key_faults(doc, ["referencePoint", "unitNormal"]):
        yield f
    for k in ("referencePoint", "unitNormal"):
        for f in vector_faults(doc, [k], k):
            yield f


HAND_DOCS = [
    ("polyline", "ok:hand-empty", {"vertices": [], "isClosed": False}),
    ("polyline", "ok:hand-ints", {"vertices": [[1, 2, 3], [4, 5, 6]], "isClosed": True}),
    ("polyline", "isClosed-int1", {"vertices": [[1.0, 2.0, 3.0]], "isClosed": 1}),
    ("polyline", "leaf-True@vertices[0][0]", {"vertices": [[True, 2.0, 3.0]], "isClosed": True}),
    ("polyline", "arity2@vertices[0]", {"vertices": [[1.0, 2.0]], "isClosed": False}),
    ("polyline", "arity4@vertices[1]", {"vertices": [[1.0, 2.0, 3.0], [1.0, 2.0, 3.0, 4.0]], "isClosed": False}),
    ("polyline", "plane-document", {"referencePoint": [0.0, 0.0, 0.0], "unitNormal": [0.0, 0.0, 1.0]}),
    ("plane", "ok:hand-axis", {"referencePoint": [0.0, 0.0, 0.0], "unitNormal": [0.0, 0.0, 1.0]}),
    ("plane", "ok:hand-ints", {"referencePoint": [1, 2, 3], "unitNormal": [0, 1, 0]}),
    ("plane", "ok:hand-nonunit", {"referencePoint": [1.0, 2.0, 3.0], "unitNormal": [0.0, 1.0, 1.0]}),
    ("plane", "ok:hand-zero-normal", {"referencePoint": [1.0, 2.0, 3.0], "unitNormal": [0.0, 0.0, 0.0]}),
    ("plane", "leaf-True@unitNormal[2]", {"referencePoint": [0.0, 0.0, 0.0], "unitNormal": [0.0, 0.0, True]}),
    ("plane", "polyline-document", {"vertices": [], "isClosed": False}),
    ("plane", "arity2@referencePoint", {"referencePoint": [0.0, 0.0], "unitNormal": [0.0, 0.0, 1.0]}),
]


# ---------------------------------------------------------------------------------------------------
# cases

def make(spec):
    op = spec["op"]
    if op == "polyline":
        return make_polyline(spec)
    if op == "plane":
        return make_plane(spec)
    if op == "corrupt":
        return make_corrupt(spec)
    raise ValueError(op)


def polyline_vertices(spec):
    rng = random.Random(spec["seed"])
    d = spec["decimals"]
    dd = DEFAULT_DECIMALS if d is None else d
    vs = []
    for _ in range(spec["n"]):
        v = [lattice_coord(rng, dd) if spec["stream"] == "lattice" else coord(rng) for _ in range(3)]
        if all(round_determined(x, dd) for x in v):
            vs.append(v)
    if spec.get("seam") and len(vs) >= 2:
        vs[-1] = list(vs[0])        # the last vertex repeats the first (a ring exported with its seam vertex): still n vertices
    return vs


def make_polyline(spec):
    from polliwog import Polyline
    d = spec["decimals"]
    vs = polyline_vertices(spec)
    V = np.array(np.reshape(vs, (-1, 3)), dtype=np.float64)
    closed = bool(spec["closed"])

    def obj():
        return Polyline(shcopy(V), is_closed=closed)

    trivial = len(vs) == 0
    kl = "%s/%s/d=%s" % (spec["stream"], "empty" if trivial else ("closed" if closed else "open"), "default" if d is None else "given")
    cases = []

    def add(name, line, impl, **kw):
        if line is None:
            return
        cases.append(Case(spec, line, impl, mode="rat", klass="pl." + name + "/" + kl, trivial=trivial, scale=TINY, rtol=RTOL, **kw))

    def pline(name):
        return Line(name).i(dec_tok(d)).b(closed).vecs(V)

    add("rounded", pline("ser.pl.rounded"), lambda: polyline_items(obj().rounded(d) if d is not None else obj().rounded()))
    add("serialize", pline("ser.pl.serialize"), lambda: ["doc", obj().serialize(d) if d is not None else obj().serialize()],
        compare=compare_serialized)
    add("roundtrip", pline("ser.pl.roundtrip"),
        lambda: tagged(lambda: Polyline.deserialize(json.loads(json.dumps(obj().serialize(decimals=d)))), polyline_items))
    # validate / deserialize on the document the implementation produced
    try:
        doc = obj().serialize(decimals=d)
        ok = doc_tokens(doc) is not None
    except Exception:
        ok = False
    if ok:
        add("validate", dline("ser.pl.validate", doc), lambda: tagged(lambda: Polyline.validate(doc), lambda _r: []))
        add("deserialize", dline("ser.pl.deserialize", doc), lambda: tagged(lambda: Polyline.deserialize(doc), polyline_items))
    cases[0].oracle = lambda _r: oracle_polyline(V, closed, d)
    return cases


def plane_inputs(spec):
    rng = random.Random(spec["seed"])
    if "normal" in spec:
        v = np.array(spec["normal"], dtype=np.float64)
        n = (v / np.linalg.norm(v)).tolist()
    else:
        n = unit_normal(rng, OCTANTS[spec["octant"]])
    ref = [coord(rng) for _ in range(3)]
    return ref, n


def make_plane(spec):
    from polliwog import Plane
    pd, dd = spec["pd"], spec["dd"]
    ref, n = plane_inputs(spec)
    pdv = DEFAULT_DECIMALS if pd is None else pd
    ddv = DEFAULT_DECIMALS if dd is None else dd
    if not (all(round_determined(x, pdv) for x in ref) and all(round_determined(x, ddv) for x in n)
            and all(round_determined(x, DEFAULT_DECIMALS) for x in n)):
        return None
    R = np.array(ref, dtype=np.float64)
    N = np.array(n, dtype=np.float64)
    # hypothesis of the Plane theorems (PW.C19.*_double): the normal is unit up to 4*2^-52 (exactly, in rationals)
    if abs(sum(F(x) * F(x) for x in N) - 1) > UNIT_SLACK:
        NOT_NORMALISED.append(spec)
        return None

    def obj():
        return Plane(shcopy(R), shcopy(N))

    kw = {}
    if pd is not None:
        kw["position_decimals"] = pd
    if dd is not None:
        kw["direction_decimals"] = dd
    kl = "%s/pd=%s/dd=%s" % ("special" if "normal" in spec else "octant", "default" if pd is None else "given",
                             "default" if dd is None else ("coarse" if dd < DEFAULT_DECIMALS else "fine"))
    cases = []

    def add(name, line, impl, **k2):
        if line is None:
            return
        cases.append(Case(spec, line, impl, mode="rat", klass="plane." + name + "/" + kl, scale=TINY, rtol=RTOL, **k2))

    def pline(name, a, b):
        return Line(name).i(dec_tok(a)).i(dec_tok(b)).vec(R).vec(N)

    add("rounded", pline("ser.plane.rounded", pd, dd), lambda: plane_items(obj().rounded(**kw)))
    add("serialize", pline("ser.plane.serialize", pd, dd), lambda: ["doc", obj().serialize(**kw)], compare=compare_serialized)
    # round trip (through JSON text) at the default direction decimals, and at the requested ones when that is decided
    kd = {k: v for k, v in kw.items() if k == "position_decimals"}
    add("roundtrip", pline("ser.plane.roundtrip", pd, None),
        lambda: tagged(lambda: Plane.deserialize(json.loads(json.dumps(obj().serialize(**kd)))), plane_items))
    try:
        doc = obj().serialize(**kw)
        ok = doc_tokens(doc) is not None and isinstance(doc, dict) and len(doc.get("unitNormal", [])) == 3
        ok = ok and unit_margin_ok(doc["unitNormal"], DEFAULT_DECIMALS)
    except Exception:
        ok = False
    if ok:
        add("validate", dline("ser.plane.validate", doc), lambda: tagged(lambda: Plane.validate(doc), lambda _r: []))
        add("deserialize", dline("ser.plane.deserialize", doc), lambda: tagged(lambda: Plane.deserialize(doc), plane_items))
        if dd is not None:
            add("roundtrip", pline("ser.plane.roundtrip", pd, dd),
                lambda: tagged(lambda: Plane.deserialize(json.loads(json.dumps(obj().serialize(**kw)))), plane_items))
    cases[0].oracle = lambda _r: oracle_plane(R, N, pd, dd)
    return cases


def make_corrupt(spec):
    from polliwog import Plane, Polyline
    doc = spec["doc"]
    kind = spec["kind"]
    fault = spec["fault"]
    expect_ok = fault.startswith("ok:")
    cls = Polyline if kind == "polyline" else Plane
    render = polyline_items if kind == "polyline" else plane_items
    pre = "ser.pl." if kind == "polyline" else "ser.plane."
    if kind == "plane" and expect_ok:
        # the constructor's unit-length decision must be robust
        try:
            n = [float(x) for x in doc["unitNormal"]]
            if not unit_margin_ok(n, DEFAULT_DECIMALS):
                return None
        except Exception:
            pass
    fk = fault.split("@")[0]
    cases = []
    lv = dline(pre + "validate", doc)
    if lv is None:
        return None
    cases.append(Case(spec, lv, lambda: tagged(lambda: cls.validate(clone(doc)), lambda _r: []), mode="both",
                      klass="corrupt.%s.validate/%s" % (kind, fk), scale=TINY, rtol=RTOL,
                      oracle=lambda _r: oracle_corrupt(cls, kind, doc, fault, expect_ok)))
    cases.append(Case(spec, dline(pre + "deserialize", doc), lambda: tagged(lambda: cls.deserialize(clone(doc)), render),
                      mode="both", klass="corrupt.%s.deserialize/%s" % (kind, fk), scale=TINY, rtol=RTOL))
    return cases


# ---------------------------------------------------------------------------------------------------
# property oracle (on the implementation's outputs; exact rational arithmetic)

def plain_json(x):
    """only the exact builtin types JSON knows"""
    if x is None or type(x) in (bool, int, float, str):
        return not (type(x) is float and not math.isfinite(x))
    if type(x) is list:
        return all(plain_json(y) for y in x)
    if type(x) is dict:
        return all(type(k) is str and plain_json(v) for k, v in x.items())
    return False


def rounding_violations(orig, got, d, what, out):
    """each coordinate within half a unit of the last kept decimal of the original, and a multiple of 10^-d"""
    unit = Fraction(1, 10 ** d)
    for x, r in zip(np.asarray(orig, dtype=np.float64).ravel(), np.asarray(got, dtype=np.float64).ravel()):
        fx, fr = F(x), F(r)
        slack = Fraction(1, 10 ** 15) * (abs(fx) + unit)
        if abs(fr - fx) > unit / 2 + slack:
            out.append(("%s/half-unit" % what, "%s: %r became %r at %d decimals (error %.3e > %.3e)" % (
                what, float(x), float(r), d, float(abs(fr - fx)), float(unit / 2))))
        k = fr * 10 ** d
        if abs(k - rint_half_even(k)) > Fraction(1, 10 ** 15) * (abs(k) + 1) * 4:
            out.append(("%s/decimals" % what, "%s: %r is not a multiple of 1e-%d" % (what, float(r), d)))
        # "rounded" is round-half-to-even (np.around, IEEE 754): on an exact tie whose product is exact in a double
        pe = fx * 10 ** d
        if abs(pe) < 2 ** 52 and pe - math.floor(pe) == Fraction(1, 2) and F(float(x) * float(10 ** d)) == pe:
            want = Fraction(rint_half_even(pe), 10 ** d)
            if abs(fr - want) > slack:
                out.append(("%s/tie-to-even" % what, "%s: the exact tie %r became %r at %d decimals, expected the even neighbour %r" % (
                    what, float(x), float(r), d, float(want))))


def same_array(a, b):
    a = np.asarray(a)
    b = np.asarray(b)
    return a.shape == b.shape and np.array_equal(a, b)


def oracle_polyline(V, closed, d):
    from polliwog import Polyline
    VE = validation_error()
    out = []
    dv = DEFAULT_DECIMALS if d is None else d
    kw = {} if d is None else {"decimals": d}
    p = Polyline(shcopy(V), is_closed=closed)
    # twice on the same object: the caller owns the document it was handed and edits it before asking again
    for attempt in (0, 1):
        got = _oracle_polyline_once(p, V, closed, d, dv, kw, VE)
        out += [(k, ("second serialize() after the caller edited the first document: " if attempt else "") + m) for k, m in got[0]]
        if got[1] is None or out:
            break
        edit_document(got[1])
    return dedupe(out)


def edit_document(doc):
    """in-place edits of a document the caller was handed (it is plain data and the caller's own)"""
    if isinstance(doc, dict):
        for k in list(doc):
            v = doc[k]
            if isinstance(v, bool):
                doc[k] = not v
            elif isinstance(v, list):
                edit_document(v)
                v.append([7.0, 7.0, 7.0])
        doc["edited"] = True
    elif isinstance(doc, list):
        for i, v in enumerate(doc):
            if isinstance(v, list):
                edit_document(v)
            elif isinstance(v, (int, float)) and not isinstance(v, bool):
                doc[i] = v + 1.0


def _oracle_polyline_once(p, V, closed, d, dv, kw, VE):
    from polliwog import Polyline
    out = []
    try:
        r = p.rounded(**kw)
        s = p.serialize(**kw)
    except Exception as e:
        return [("polyline.rounded/total", "rounded/serialize raised %s(%s) for %d vertices, decimals=%s" % (type(e).__name__, e, len(V), d))], None
    if r.is_closed is not closed or np.asarray(r.v).shape != V.shape:
        out.append(("polyline.rounded/shape-closedness", "rounded() changed closedness or shape: %s %s" % (r.is_closed, np.asarray(r.v).shape)))
    else:
        rounding_violations(V, r.v, dv, "polyline.rounded" if d is not None else "polyline.default-decimals", out)
    if not np.array_equal(p.v, V):
        out.append(("polyline.rounded/pure", "rounded()/serialize() modified the polyline"))
    # polylines *made from* the rounded one by the methods that create new vertices (midpoints, subdivision points,
    # crossings with a plane) are Polylines like any other: rounding them rounds their own vertices
    if len(V) >= 2 and np.all(np.isfinite(V)) and not out:
        from polliwog import Plane
        derived = []
        for make_one in (lambda: r.with_segments_bisected(list(range(r.num_e))),
                         lambda: r.subdivided_by_length(max(float(r.total_length) / (2 * len(V) + 1), 1e-9)),
                         lambda: r.sliced_by_plane(Plane.from_point_and_normal(np.mean(np.asarray(r.v), axis=0) + 0.123456789, np.array([0.36, 0.48, 0.8]))),
                         lambda: r.sliced_by_plane(Plane.from_point_and_normal(np.mean(np.asarray(r.v), axis=0) - 0.0123456789, np.array([-0.6, 0.8, 0.0])))):
            try:
                derived.append(make_one())
            except Exception:      # not every polyline can be cut / subdivided; those methods are C06's / C08's subject
                pass
        for q3 in derived:
            qv3 = np.array(q3.v, dtype=np.float64)
            if qv3.size == 0 or not np.all(np.isfinite(qv3)):
                continue
            for d3 in sorted({dv, dv + 1}):
                try:
                    r3 = q3.rounded(decimals=d3)
                except Exception as e:
                    out.append(("polyline.third-generation/total", "rounded(%d) of a polyline derived from a rounded one raised %s(%s)" % (d3, type(e).__name__, e)))
                    continue
                rounding_violations(qv3, r3.v, d3, "polyline.third-generation", out)
    if not plain_json(s):
        out.append(("polyline.serialize/plain-json", "serialize() returned non-JSON data: %r" % (s,)))
        return dedupe(out), None
    if not (isinstance(s, dict) and s.get("isClosed") is closed and same_array(np.array(np.reshape(s.get("vertices"), (-1, 3)), dtype=np.float64), r.v)):
        out.append(("polyline.serialize/content", "serialize() is not the rounded polyline under the schema's key names: %r" % (s,)))
    try:
        Polyline.validate(s)
    except VE as e:
        out.append(("polyline.serialize/validates", "serialize() output fails validate: %s; document %r" % (e.message, s)))
    for what, data in (("polyline.roundtrip/equal", s), ("polyline.roundtrip/json-text", json.loads(json.dumps(s)))):
        try:
            q = Polyline.deserialize(data)
        except Exception as e:
            out.append((what, "deserialize(serialize()) raised %s(%s) for %d vertices" % (type(e).__name__, str(e)[:200], len(V))))
            continue
        if not (q.is_closed is r.is_closed and same_array(q.v, r.v) and np.asarray(q.v).dtype == np.float64):
            out.append((what, "deserialize(serialize()) differs from rounded(): %r %s vs %r %s" % (
                np.asarray(q.v).tolist(), q.is_closed, np.asarray(r.v).tolist(), r.is_closed)))
            continue
        # the deserialized object is a Polyline like any other: rounding / serializing it again, at a coarser, the
        # same, a finer and the default precision, rounds *its* vertices
        qv = np.array(q.v, dtype=np.float64)
        for d2 in sorted({max(dv - 2, 0), dv, dv + 3, None}, key=lambda z: -1 if z is None else z):
            k2 = {} if d2 is None else {"decimals": d2}
            try:
                r2 = q.rounded(**k2)
                s2 = q.serialize(**k2)
            except Exception as e:
                out.append(("polyline.second-generation/total", "rounded/serialize(%s) of a deserialized polyline raised %s(%s)" % (k2, type(e).__name__, e)))
                continue
            n0 = len(out)
            rounding_violations(qv, r2.v, DEFAULT_DECIMALS if d2 is None else d2, "polyline.second-generation", out)
            if len(out) == n0 and not (isinstance(s2, dict) and same_array(np.array(np.reshape(s2.get("vertices"), (-1, 3)), dtype=np.float64), r2.v)):
                out.append(("polyline.second-generation/content", "serialize(%s) of a deserialized polyline is not its rounded(): %r" % (k2, s2)))
    return dedupe(out), s


def oracle_plane(R, N, pd, dd):
    from polliwog import Plane
    VE = validation_error()
    out = []
    pdv = DEFAULT_DECIMALS if pd is None else pd
    ddv = DEFAULT_DECIMALS if dd is None else dd
    kw = {}
    if pd is not None:
        kw["position_decimals"] = pd
    if dd is not None:
        kw["direction_decimals"] = dd
    p = Plane(shcopy(R), shcopy(N))
    for attempt in (0, 1):
        got = _oracle_plane_once(p, R, N, pd, dd, pdv, ddv, kw, VE)
        out += [(k, ("second serialize() after the caller edited the first document: " if attempt else "") + m) for k, m in got[0]]
        if not got[1] or out:
            break
        for doc in got[1]:
            edit_document(doc)
    return dedupe(out)


def _oracle_plane_once(p, R, N, pd, dd, pdv, ddv, kw, VE):
    from polliwog import Plane
    out = []
    try:
        r = p.rounded(**kw)
        s = p.serialize(**kw)
    except Exception as e:
        return [("plane.rounded/total", "rounded/serialize(position_decimals=%s, direction_decimals=%s) raised %s(%s) for the unit normal %r" % (
            pd, dd, type(e).__name__, e, N.tolist()))], None
    rounding_violations(R, r.reference_point, pdv, "plane.rounded.position" if pd is not None else "plane.default-position-decimals", out)
    rounding_violations(N, r.normal, ddv, "plane.rounded.direction" if dd is not None else "plane.default-direction-decimals", out)
    if not (np.array_equal(p.reference_point, R) and np.array_equal(p.normal, N)):
        out.append(("plane.rounded/pure", "rounded()/serialize() modified the plane"))
    if not plain_json(s):
        out.append(("plane.serialize/plain-json", "serialize() returned non-JSON data: %r" % (s,)))
        return dedupe(out), None
    if not (isinstance(s, dict) and same_array(s.get("referencePoint"), r.reference_point) and same_array(s.get("unitNormal"), r.normal)):
        out.append(("plane.serialize/content", "serialize() is not the rounded plane under the schema's key names: %r" % (s,)))
    try:
        Plane.validate(s)
    except VE as e:
        out.append(("plane.serialize/validates", "serialize() output fails validate: %s; document %r" % (e.message, s)))
    # the documented positional order (position_decimals, direction_decimals) means the same as the keywords
    if pd is not None and dd is not None:
        try:
            sp, rp = p.serialize(pd, dd), p.rounded(pd, dd)
            if sp != s or not (same_array(rp.reference_point, r.reference_point) and same_array(rp.normal, r.normal)):
                out.append(("plane.serialize/positional", "serialize(%d, %d) / rounded(%d, %d) differ from the keyword spelling: %r vs %r"
                            % (pd, dd, pd, dd, sp, s)))
        except Exception as e:
            out.append(("plane.serialize/positional", "serialize(%d, %d) raised %s" % (pd, dd, type(e).__name__)))
    # round trip at the default direction decimals (and the requested position decimals)
    kd = {k: v for k, v in kw.items() if k == "position_decimals"}
    try:
        r0 = p.rounded(**kd)
        s0 = p.serialize(**kd)
    except Exception as e:
        return dedupe(out + [("plane.rounded/total", "rounded/serialize(%s) raised %s(%s) for the unit normal %r" % (kd, type(e).__name__, e, N.tolist()))]), None
    for what, data in (("plane.roundtrip/equal", s0), ("plane.roundtrip/json-text", json.loads(json.dumps(s0)))):
        try:
            q = Plane.deserialize(data)
        except Exception as e:
            out.append((what, "deserialize(serialize()) raised %s(%s) for normal %r" % (type(e).__name__, str(e)[:200], N.tolist())))
            continue
        if not (same_array(q.reference_point, r0.reference_point) and same_array(q.normal, r0.normal)):
            out.append((what, "deserialize(serialize()) differs from rounded(): %r %r vs %r %r" % (
                np.asarray(q.reference_point).tolist(), np.asarray(q.normal).tolist(), r0.reference_point.tolist(), r0.normal.tolist())))
            continue
        # the deserialized object is a Plane like any other: rounding it again rounds *its* reference point
        qr = np.array(q.reference_point, dtype=np.float64)
        pdv0 = kd.get("position_decimals", DEFAULT_DECIMALS)
        for pd2 in sorted({max(pdv0 - 2, 0), pdv0, pdv0 + 3}):
            try:
                r2 = q.rounded(position_decimals=pd2)
                s2 = q.serialize(position_decimals=pd2)
            except Exception as e:
                out.append(("plane.second-generation/total", "rounded/serialize(position_decimals=%d) of a deserialized plane raised %s(%s)" % (pd2, type(e).__name__, e)))
                continue
            n0 = len(out)
            rounding_violations(qr, r2.reference_point, pd2, "plane.second-generation", out)
            if len(out) == n0 and not (isinstance(s2, dict) and same_array(np.array(s2.get("referencePoint"), dtype=np.float64), r2.reference_point)):
                out.append(("plane.second-generation/content", "serialize(position_decimals=%d) of a deserialized plane is not its rounded(): %r" % (pd2, s2)))
    return dedupe(out), [s, s0]


def oracle_corrupt(cls, kind, doc, fault, expect_ok):
    VE = validation_error()
    out = []
    fk = fault_class(fault.split("@")[0])
    try:
        cls.validate(clone(doc))
        accepted = True
    except VE:
        accepted = False
    built = None
    err = None
    try:
        built = cls.deserialize(clone(doc))
    except VE:
        pass
    except Exception as e:  # e.g. the constructor's unit-length check
        err = e
    if expect_ok:
        if not accepted:
            out.append(("%s.validate/accepts-valid" % kind, "validate refuses the valid document %r" % (doc,)))
        elif built is None and kind == "polyline":
            out.append(("%s.deserialize/accepts-valid" % kind, "deserialize raised %s on the valid document %r" % (
                type(err).__name__ if err else "ValidationError", doc)))
    else:
        if accepted:
            out.append(("%s.validate/refuses:%s" % (kind, fk), "validate accepts the corrupted document (%s) %r" % (fault, doc)))
        if built is not None:
            out.append(("%s.deserialize/guarded:%s" % (kind, fk), "deserialize built an object from the corrupted document (%s) %r" % (fault, doc)))
    if built is not None and not accepted:
        out.append(("%s.deserialize/guarded" % kind, "deserialize built an object from a document validate refuses: %r" % (doc,)))
    if not expect_ok and isinstance(doc, dict) and not out:
        # the same judgement when the corrupted document is a dict the class has seen valid before: a valid document is
        # validated and deserialized, then edited in place into the corrupted one (same object), then offered again
        good = {"vertices": [[0.0, 0.0, 0.0], [1.0, 0.0, 0.0]], "isClosed": False} if kind == "polyline" else \
            {"referencePoint": [0.0, 0.0, 0.0], "unitNormal": [0.0, 0.0, 1.0]}
        obj = clone(good)
        try:
            cls.validate(obj)
            cls.deserialize(obj)
        except Exception:
            obj = None
        if obj is not None:
            obj.clear()
            obj.update(clone(doc))
            try:
                cls.validate(obj)
                out.append(("%s.validate/refuses:%s" % (kind, fk), "validate accepts the corrupted document (%s) when the same "
                            "dict object was valid a moment ago: %r" % (fault, doc)))
            except VE:
                pass
            try:
                cls.deserialize(obj)
                out.append(("%s.deserialize/guarded:%s" % (kind, fk), "deserialize built an object from the corrupted document "
                            "(%s) when the same dict object was valid a moment ago: %r" % (fault, doc)))
            except Exception:
                pass
    return dedupe(out)


def fault_class(fk):
    """coarse, stable class of a single-fault corruption (the clause of the property it belongs to)"""
    if fk.startswith(("drop-key", "rename-key")) or fk in ("plane-document", "polyline-document"):
        return "missing-key"
    if fk.startswith("extra-key"):
        return "extra-key"
    if fk.startswith("isClosed-"):
        return "non-boolean-isClosed"
    if fk.startswith(("nondict-", "empty-dict")):
        return "non-document"
    return "not-three-numbers"


def dedupe(out):
    seen = {}
    for k, m in out:
        seen.setdefault(k, m)
    return list(seen.items())
