"""C16 — tessellated prisms are closed, outward-facing and of the right size.

Correspondence: rectangular_prism / cube / triangular_prism (both return forms, well-formed and malformed
arguments) against the Lean model PW.Model.Shapes, at exact rationals (inputs are the doubles the code sees) and
at Float.  Oracle: the clauses of C16 evaluated on the implementation's own output in exact rational arithmetic
(edge pairing, signed volume, area, extent, outwardness, flattened = vertices[faces]).
"""
import math
from fractions import Fraction

import numpy as np

from pwlib import gens
from pwlib.canon import flat
from pwlib.engine import Case
from pwlib.proto import Line

ID = "C16"
TARGETS = ["PW.Props.C16"]
RULE = ("three streams per function: lattice (integer / dyadic origins, sizes and base triangles incl. zero and negative "
        "sizes, collinear and coincident base points, zero and negative heights), float (origin, each size component, "
        "triangle size, position and height drawn independently from 1e-6..1e6; base triangles in random orientation, "
        "both windings, conditioned to sin(angle) >= 1e-3), malformed (origin / size / p_i that are lists, scalars, "
        "wrong-shaped or 2-d arrays; size / height given as int, bool, np.float32, np.int64, None, np.float64); every "
        "spec runs with ret_unique_vertices_and_faces on and off; a case is non-trivial when the call returns a mesh; "
        "distinct = distinct spec")
TRUSTED = ["vg.shape.check modelled as 'ndarray of shape (3,) else ValueError'; isinstance(x, float) as a type tag sent by the harness",
           "vg.normalize / np.cross / np.vstack / fancy indexing modelled as written out in PW.Model.Shapes",
           "Plane.__init__ unit-length validation with atol 0.1**6; a zero cross product (0/0 -> NaN normal) is an explicit branch",
           "IEEE rounding not modelled: coordinates compared with rtol 1e-9*scale, face tables and exception classes exactly"]
ASSUMPTIONS = ["float-stream base triangles have sin(angle between edges) >= 1e-3 and |position| <= 1e3 * triangle size; "
               "exactly collinear triangles occur only on the lattice (where the cross product is exactly zero)",
               "oracle tolerances: 1e-9 relative plus 64 ulp(scale) * (surface area | total edge length) for volume | area, "
               "because the vertices themselves are rounded sums"]
EXHAUSTIVE = {"quick": False, "thorough": False}

EPS = 2.0 ** -52
PLANE_TOL = 0.1 ** 6  # Plane.DEFAULT_DIRECTION_DECIMALS = 6


# ---------------------------------------------------------------------------------------------------
# arguments

def arr_of(a):
    """spec of an array-ish argument -> python object handed to polliwog"""
    k = a["kind"]
    if k == "arr":
        return np.array(np.reshape(a["data"], a["shape"]), dtype=np.float64)
    if k == "intarr":
        return np.array(np.reshape(a["data"], a["shape"]), dtype=np.int64)
    if k == "list":
        return list(a["data"])
    if k == "scalar":
        return float(a["data"][0])
    if k == "none":
        return None
    raise ValueError(k)


def arr_line(line, a):
    if a["kind"] in ("arr", "intarr"):
        line.i(len(a["shape"]), *a["shape"])
    else:
        line.i(-1)
    line.i(len(a["data"]))
    line.f(*[float(x) for x in a["data"]])
    return line


def num_of(n):
    k = n["kind"]
    v = n["value"]
    if k == "float":
        return float(v)
    if k == "np.float64":
        return np.float64(v)
    if k == "int":
        return int(v)
    if k == "bool":
        return bool(v)
    if k == "np.float32":
        return np.float32(v)
    if k == "np.int64":
        return np.int64(v)
    if k == "none":
        return None
    if k == "arr0":
        return np.array(float(v))
    raise ValueError(k)


def num_line(line, n):
    line.tok("f" if n["kind"] in ("float", "np.float64") else "o")
    line.f(float(n["value"]) if n["kind"] != "none" else 0.0)
    return line


def vec3(v):
    return {"kind": "arr", "shape": [3], "data": [float(x) for x in v]}


def canon_out(r, uniq):
    if uniq:
        v, f = r
        v = np.asarray(v)
        f = np.asarray(f)
        assert v.ndim == 2 and v.shape[1] == 3 and f.ndim == 2 and f.shape[1] == 3
        return ["indexed", int(v.shape[0])] + flat(v) + [int(f.shape[0])] + [int(x) for x in f.ravel()]
    t = np.asarray(r)
    assert t.ndim == 3 and t.shape[1:] == (3, 3)
    return ["flat", int(t.shape[0])] + flat(t)


# ---------------------------------------------------------------------------------------------------
# generators

KINDS_BAD = ["int", "bool", "np.float32", "np.int64", "none", "arr0"]


def dyadic(rng, r=4):
    return rng.randint(-r, r) / rng.choice([1, 1, 2, 4])


def mag(rng, lo=-6, hi=6):
    return 10.0 ** rng.uniform(lo, hi)


def bad_arr(rng):
    c = rng.random()
    if c < 0.2:
        return {"kind": "list", "data": [dyadic(rng) for _ in range(3)]}
    if c < 0.3:
        return {"kind": "scalar", "data": [dyadic(rng)]}
    if c < 0.35:
        return {"kind": "none", "data": []}
    shape = rng.choice([[2], [4], [1, 3], [3, 1], [0], [3, 3], [2, 3]])
    n = int(np.prod(shape))
    return {"kind": "arr", "shape": shape, "data": [dyadic(rng) for _ in range(n)]}


def gen_triangle(rng, stream):
    if stream == "lattice":
        c = rng.random()
        p1 = [dyadic(rng) for _ in range(3)]
        if c < 0.08:
            return p1, list(p1), [dyadic(rng) for _ in range(3)]        # coincident points
        if c < 0.2:
            d = [rng.randint(-2, 2) for _ in range(3)]
            return p1, [a + b for a, b in zip(p1, d)], [a + 2 * b for a, b in zip(p1, d)]  # collinear
        return p1, [dyadic(rng) for _ in range(3)], [dyadic(rng) for _ in range(3)]
    size = mag(rng)
    pos = size * 10.0 ** rng.uniform(-3, 3)
    while True:
        e1 = np.array(gens.unit(rng)) * size * 10.0 ** rng.uniform(-1, 0)
        e2 = np.array(gens.unit(rng)) * size * 10.0 ** rng.uniform(-1, 0)
        s = np.linalg.norm(np.cross(e1, e2)) / (np.linalg.norm(e1) * np.linalg.norm(e2))
        if s >= 1e-3:
            break
    p1 = np.array(gens.fvec(rng, pos))
    if rng.random() < 0.3:
        # needle: one edge 1..9 % of the longest, opposite any of the three corners (clearly not collinear: sine >= 1e-2)
        while True:
            d = np.array(gens.unit(rng))
            d = d - np.dot(d, e1) / np.dot(e1, e1) * e1
            if np.linalg.norm(d) > 0.3:
                break
        e2 = e1 * rng.uniform(0.9, 1.1) + d / np.linalg.norm(d) * np.linalg.norm(e1) * rng.uniform(0.01, 0.09)
        pts = [p1, p1 + e1, p1 + e2]
        k = rng.randrange(3)
        pts = pts[k:] + pts[:k]
        return [q.tolist() for q in pts]
    return p1.tolist(), (p1 + e1).tolist(), (p1 + e2).tolist()


def gen(rng, tier):
    n = 300 if tier == "quick" else 3000
    for i in range(n):
        stream = "lattice" if i % 2 == 0 else "float"
        if stream == "lattice":
            o = [dyadic(rng) for _ in range(3)]
            s = [rng.choice([0.25, 0.5, 1, 2, 3, 5]) for _ in range(3)]
            if rng.random() < 0.2:
                s[rng.randrange(3)] = rng.choice([0.0, -1.0, -0.5])
            okind = "intarr" if rng.random() < 0.1 and all(float(x).is_integer() for x in o) else "arr"
            skind = "intarr" if rng.random() < 0.1 and all(float(x).is_integer() for x in s) else "arr"
        else:
            o = gens.fvec(rng, mag(rng))
            s = [mag(rng) for _ in range(3)]
            okind = skind = "arr"
        yield {"op": "rect", "stream": stream, "origin": {"kind": okind, "shape": [3], "data": o},
               "size": {"kind": skind, "shape": [3], "data": s}}
    m = 120 if tier == "quick" else 1500
    for i in range(m):
        stream = "lattice" if i % 2 == 0 else "float"
        if stream == "lattice":
            o = [dyadic(rng) for _ in range(3)]
            sz = rng.choice([0.25, 0.5, 1.0, 2.0, 3.0, 0.0, -1.0])
        else:
            o = gens.fvec(rng, mag(rng))
            sz = mag(rng)
        kind = rng.choice(["float", "float", "float", "np.float64"])
        yield {"op": "cube", "stream": stream, "origin": vec3(o), "size": {"kind": kind, "value": sz}}
    m = 300 if tier == "quick" else 3000
    for i in range(m):
        stream = "lattice" if i % 2 == 0 else "float"
        p1, p2, p3 = gen_triangle(rng, stream)
        if stream == "float" and i % 10 == 1:
            # a base whose doubled area (the length of the raw cross product) is 1 to about six decimals but not exactly:
            # the second base is still `height` away along the *unit* normal
            a, b, c = (np.array(q) for q in (p1, p2, p3))
            cr = float(np.linalg.norm(np.cross(b - a, c - a)))
            if cr > 0:
                f = math.sqrt((1.0 + rng.choice([-1, 1]) * 10.0 ** rng.uniform(-8, -6.1)) / cr)
                p2, p3 = (a + (b - a) * f).tolist(), (a + (c - a) * f).tolist()
        if stream == "lattice":
            h = rng.choice([0.5, 1.0, 2.0, 3.0, 0.0, -1.0])
        else:
            size = float(np.linalg.norm(np.array(p2) - np.array(p1)))
            h = size * 10.0 ** rng.uniform(-2, 2)
        if rng.random() < 0.5:
            p2, p3 = p3, p2  # both windings
        kind = rng.choice(["float", "float", "float", "np.float64"])
        yield {"op": "triprism", "stream": stream, "p1": vec3(p1), "p2": vec3(p2), "p3": vec3(p3),
               "height": {"kind": kind, "value": h}}
    m = 150 if tier == "quick" else 600
    for i in range(m):
        fn = rng.choice(["rect", "cube", "triprism"])
        o = [dyadic(rng) for _ in range(3)]
        if fn == "rect":
            spec = {"op": "rect", "stream": "malformed", "origin": vec3(o), "size": vec3([1.0, 2.0, 0.5])}
            spec[rng.choice(["origin", "size"])] = bad_arr(rng)
        elif fn == "cube":
            spec = {"op": "cube", "stream": "malformed", "origin": vec3(o), "size": {"kind": "float", "value": 2.0}}
            c = rng.random()
            if c < 0.4:
                spec["origin"] = bad_arr(rng)
            if c > 0.3:
                spec["size"] = {"kind": rng.choice(KINDS_BAD), "value": float(rng.randint(1, 3))}
        else:
            spec = {"op": "triprism", "stream": "malformed", "p1": vec3(o), "p2": vec3([o[0] + 1, o[1], o[2]]),
                    "p3": vec3([o[0], o[1] + 1, o[2]]), "height": {"kind": "float", "value": 1.5}}
            c = rng.random()
            if c < 0.5:
                spec[rng.choice(["p1", "p2", "p3"])] = bad_arr(rng)
            if c > 0.4:
                spec["height"] = {"kind": rng.choice(KINDS_BAD), "value": float(rng.randint(1, 3))}
        yield spec


# ---------------------------------------------------------------------------------------------------
# cases

def call_fn(spec, uniq):
    from polliwog.shapes import cube, rectangular_prism, triangular_prism
    op = spec["op"]
    if op == "rect":
        return rectangular_prism(arr_of(spec["origin"]), arr_of(spec["size"]), ret_unique_vertices_and_faces=uniq)
    if op == "cube":
        return cube(arr_of(spec["origin"]), num_of(spec["size"]), ret_unique_vertices_and_faces=uniq)
    return triangular_prism(arr_of(spec["p1"]), arr_of(spec["p2"]), arr_of(spec["p3"]), num_of(spec["height"]),
                            ret_unique_vertices_and_faces=uniq)


def line_for(spec, uniq):
    op = spec["op"]
    if op == "rect":
        return arr_line(arr_line(Line("shape.rect"), spec["origin"]), spec["size"]).b(uniq)
    if op == "cube":
        return num_line(arr_line(Line("shape.cube"), spec["origin"]), spec["size"]).b(uniq)
    ln = Line("shape.triprism").f(PLANE_TOL)
    for k in ("p1", "p2", "p3"):
        arr_line(ln, spec[k])
    return num_line(ln, spec["height"]).b(uniq)


def scale_of(spec):
    vals = []
    for k in ("origin", "size", "p1", "p2", "p3"):
        if k in spec and isinstance(spec[k], dict) and "data" in spec[k]:
            vals.extend(abs(float(x)) for x in spec[k]["data"])
        elif k in spec and isinstance(spec[k], dict):
            vals.append(abs(float(spec[k]["value"])))
    if "height" in spec:
        vals.append(abs(float(spec["height"]["value"])))
    return max(vals + [1e-300])


def well_formed(spec):
    """all arguments are of the documented types (then the call returns a mesh unless the base is collinear)"""
    def arr_ok(a):
        return a["kind"] in ("arr", "intarr") and a.get("shape") == [3]
    op = spec["op"]
    if op == "rect":
        return arr_ok(spec["origin"]) and arr_ok(spec["size"])
    if op == "cube":
        return arr_ok(spec["origin"]) and spec["size"]["kind"] in ("float", "np.float64")
    return all(arr_ok(spec[k]) for k in ("p1", "p2", "p3")) and spec["height"]["kind"] in ("float", "np.float64")


def make(spec):
    scale = scale_of(spec)
    cases = []
    for uniq in (True, False):
        kl = "%s/%s/%s" % (spec["op"], spec["stream"], "indexed" if uniq else "flat")
        cases.append(Case(spec, line_for(spec, uniq), lambda uniq=uniq: canon_out(call_fn(spec, uniq), uniq),
                          mode="both", klass=kl, trivial=False, scale=scale))
    cases[0].oracle = lambda r: oracle(spec, r)
    for c in cases:
        c.trivial = not well_formed(spec)
    if well_formed(spec) and spec["op"] in ("rect", "triprism"):
        cases.append(measures_case(spec, scale))
    return cases


def measures_case(spec, scale):
    """the quantities the theorems speak about (closedness of the face table, 6 x signed volume, 2 x area), computed by
    the model on its own mesh, against the same quantities computed exactly from the implementation's mesh"""
    if spec["op"] == "rect":
        line = Line("shape.rect.measures").vec(spec["origin"]["data"]).vec(spec["size"]["data"])
    else:
        line = Line("shape.triprism.measures").f(PLANE_TOL)
        for k in ("p1", "p2", "p3"):
            line.vec(spec[k]["data"])
        line.f(spec["height"]["value"])

    def impl():
        Vn, Fn = call_fn(spec, True)
        V = [[F(x) for x in row] for row in np.asarray(Vn)]
        six, two_area, _ = mesh_measures(V, np.asarray(Fn))
        nv = len(V)
        used = set(int(x) for x in np.asarray(Fn).ravel())
        edges = 0.0
        for f in np.asarray(Fn):
            a, b, c = (V[int(i)] for i in f)
            edges += fnorm(fsub(b, a)) + fnorm(fsub(c, b)) + fnorm(fsub(a, c))
        return [edge_pairing(np.asarray(Fn)) is None, used == set(range(nv)), six, two_area, edges]

    def compare(r, model_line, mode):
        from pwlib.proto import parse_num
        toks = model_line.split(" ")
        if r[0] == "err":
            return None if toks[:2] == ["err", r[1]] else "impl raised %s, model answered %s" % (r[1], model_line[:80])
        if toks[0] != "ok":
            return "model answered %s, impl returned a mesh" % model_line[:80]
        closed, allused, six, two_area, edges = r[1]
        if toks[1] != ("T" if closed else "F") or toks[2] != ("T" if allused else "F"):
            return "closed/indexes-all: impl %s %s model %s %s" % (closed, allused, toks[1], toks[2])
        m_six, m_area = parse_num(toks[3]), parse_num(toks[4])
        ulp = 1e-9 * scale
        if m_six is None or abs(float(m_six) - float(six)) > 1e-9 * abs(float(six)) + ulp * two_area:
            return "six-volume: impl mesh %r model %r" % (float(six), None if m_six is None else float(m_six))
        if m_area is None or abs(float(m_area) - two_area) > 1e-9 * two_area + ulp * edges:
            return "two-area: impl mesh %r model %r" % (two_area, None if m_area is None else float(m_area))
        return None

    # exact run only: the determinant sum cancels catastrophically in Float when the origin is far from 0
    return Case(spec, line, impl, mode="rat", klass="%s/%s/measures" % (spec["op"], spec["stream"]), scale=scale,
                compare=compare)


# ---------------------------------------------------------------------------------------------------
# property oracle (exact rational arithmetic on the implementation's outputs)

def F(x):
    return Fraction(float(x))


def fsub(a, b):
    return [x - y for x, y in zip(a, b)]


def fcross(a, b):
    return [a[1] * b[2] - a[2] * b[1], a[2] * b[0] - a[0] * b[2], a[0] * b[1] - a[1] * b[0]]


def fdot(a, b):
    return sum(x * y for x, y in zip(a, b))


def fnorm(a):
    return math.sqrt(float(fdot(a, a)))


def edge_pairing(faces):
    """-> None or a message"""
    cnt = {}
    for f in faces:
        a, b, c = (int(x) for x in f)
        if len({a, b, c}) != 3:
            return "face %s repeats a vertex" % (list(f),)
        for e in ((a, b), (b, c), (c, a)):
            cnt[e] = cnt.get(e, 0) + 1
    for (a, b), k in cnt.items():
        if k != 1:
            return "directed edge (%d,%d) occurs %d times" % (a, b, k)
        if cnt.get((b, a), 0) != 1:
            return "directed edge (%d,%d) has %d reverse occurrences" % (a, b, cnt.get((b, a), 0))
    return None


def mesh_measures(V, faces):
    """six * signed volume (exact), twice the area (float), list of (normal, a)"""
    six = Fraction(0)
    two_area = 0.0
    normals = []
    for f in faces:
        a, b, c = (V[int(i)] for i in f)
        six += fdot(a, fcross(b, c))
        n = fcross(fsub(b, a), fsub(c, a))
        two_area += fnorm(n)
        normals.append((n, a, b, c))
    return six, two_area, normals


def oracle(spec, r):
    try:
        return oracle_inner(spec, r)
    except (AssertionError, KeyError, NameError):
        raise
    except Exception as e:  # noqa: BLE001 - the implementation raised on a call that succeeded in the other return form
        return [("raises", "%s raised while re-evaluating %s" % (type(e).__name__, spec["op"]))]


def oracle_inner(spec, r):
    out = []
    if r[0] != "ok":
        # errors: only the exception class is specified (non-float size / height -> ValueError)
        if spec["op"] in ("cube", "triprism"):
            key = "size" if spec["op"] == "cube" else "height"
            if spec[key]["kind"] not in ("float", "np.float64") and r[1] != "ValueError":
                out.append(("non-float/valueerror", "%s of type %s raised %s, ValueError required" % (key, spec[key]["kind"], r[1])))
        return out
    if spec["op"] in ("cube", "triprism"):
        key = "size" if spec["op"] == "cube" else "height"
        if spec[key]["kind"] not in ("float", "np.float64"):
            out.append(("non-float/valueerror", "%s of type %s was accepted" % (key, spec[key]["kind"])))
            return out
    if not well_formed(spec):
        return out
    # the implementation's mesh
    Vn, Fn = call_fn(spec, True)
    T = call_fn(spec, False)
    Vn = np.asarray(Vn)
    Fn = np.asarray(Fn)
    if not np.array_equal(np.asarray(T), Vn[Fn]):
        out.append(("flatten/vertices-of-faces", "the flattened return value differs from vertices[faces]"))
    V = [[F(x) for x in row] for row in Vn]
    scale = scale_of(spec)
    op = spec["op"]
    nv, nf = (8, 12) if op in ("rect", "cube") else (6, 8)
    if Vn.shape != (nv, 3) or Fn.shape != (nf, 3):
        out.append(("counts", "expected %d vertices and %d faces, got %s and %s" % (nv, nf, Vn.shape, Fn.shape)))
        return out
    if Fn.min() < 0 or Fn.max() >= nv or len(set(int(x) for x in Fn.ravel())) != nv:
        out.append(("faces/index-range", "faces do not index exactly the %d vertices" % nv))
        return out
    msg = edge_pairing(Fn)
    if msg:
        out.append(("closed/edge-pairing", msg))
    six, two_area, normals = mesh_measures(V, Fn)
    centroid = [sum(v[k] for v in V) / len(V) for k in range(3)]
    tolc = Fraction(1e-9) * F(scale)
    if op in ("rect", "cube"):
        o = [F(x) for x in spec["origin"]["data"]]
        s = [F(x) for x in spec["size"]["data"]] if op == "rect" else [F(spec["size"]["value"])] * 3
        if not all(x > 0 for x in s):
            return dedupe(out)  # the property speaks about positive sizes
        for k in range(3):
            lo = min(v[k] for v in V)
            hi = max(v[k] for v in V)
            if abs(lo - o[k]) > tolc or abs(hi - (o[k] + s[k])) > tolc:
                out.append(("rect/extent", "axis %d spans [%r, %r], expected [%r, %r]" % (k, float(lo), float(hi), float(o[k]), float(o[k] + s[k]))))
        corners = {tuple(v) for v in V}
        if len(corners) != 8 and all(float(o[k] + s[k]) != float(o[k]) for k in range(3)):
            out.append(("rect/corners", "the 8 vertices are not distinct"))
        vol = s[0] * s[1] * s[2]
        area = 2 * (s[0] * s[1] + s[1] * s[2] + s[0] * s[2])
        edges = 4 * (s[0] + s[1] + s[2])
        ulp = 64 * Fraction(EPS) * F(scale)
        if abs(six / 6 - vol) > Fraction(1e-9) * vol + ulp * area:
            out.append(("rect/volume", "enclosed signed volume %r, expected %r" % (float(six / 6), float(vol))))
        if abs(F(two_area / 2) - area) > Fraction(1e-9) * area + ulp * edges:
            out.append(("rect/area", "total area %r, expected %r" % (two_area / 2, float(area))))
    else:
        p = [[F(x) for x in spec[k]["data"]] for k in ("p1", "p2", "p3")]
        h = F(spec["height"]["value"])
        c = fcross(fsub(p[1], p[0]), fsub(p[2], p[0]))
        cn = fnorm(c)
        if cn == 0.0:
            out.append(("tri/collinear-accepted", "collinear base points were accepted"))
            return dedupe(out)
        for k in range(3):
            if V[k] != p[k]:
                out.append(("tri/first-base", "vertex %d is not the given point" % k))
        nhat = [float(x) / cn for x in c]
        for k in range(3):
            for j in range(3):
                want = p[k][j] - h * F(nhat[j])
                if abs(V[3 + k][j] - want) > Fraction(1e-9) * max(F(scale), abs(h)):
                    out.append(("tri/second-base", "vertex %d is %r, expected p%d - height*normal = %r" % (
                        3 + k, [float(x) for x in V[3 + k]], k + 1, [float(p[k][i] - h * F(nhat[i])) for i in range(3)])))
                    break
        if h > 0:
            e = [fnorm(fsub(p[1], p[0])), fnorm(fsub(p[2], p[1])), fnorm(fsub(p[0], p[2]))]
            vol = F(cn / 2) * h
            area = F(cn) + h * F(sum(e))
            ulp = 64 * Fraction(EPS) * F(scale)
            if abs(six / 6 - vol) > Fraction(1e-9) * vol + ulp * area:
                out.append(("tri/volume", "enclosed signed volume %r, expected base area * height = %r" % (float(six / 6), float(vol))))
            if abs(F(two_area / 2) - area) > Fraction(1e-9) * area + ulp * F(2 * sum(e) + 3 * float(h)):
                out.append(("tri/area", "total area %r, expected %r" % (two_area / 2, float(area))))
        else:
            return dedupe(out)  # the property speaks about positive heights
    # outward orientation (volume positive is implied; every face separately)
    for i, (n, a, b, cc) in enumerate(normals):
        fc = [(a[k] + b[k] + cc[k]) / 3 for k in range(3)]
        if fdot(n, fsub(fc, centroid)) <= 0:
            out.append(("outward", "face %d %s does not face away from the centroid" % (i, [int(x) for x in Fn[i]])))
            break
    return dedupe(out)


def dedupe(out):
    seen = {}
    for k, m in out:
        seen.setdefault(k, m)
    return list(seen.items())
