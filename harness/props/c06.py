"""C06 — slicing a polyline by a plane keeps exactly the run in front, or refuses.

Correspondence: `Polyline.sliced_by_plane`, `slice_open_polyline_by_plane` and `intersect_segment_with_plane` against the
Lean model PW.Model.SliceByPlane, executed in three shapes on every input:
    slice.poly      code-shaped   (transition indices, vsplit components, component signs, roll + append)   — what is proved
    slice.polyspan  proof-shaped  (takeWhile / dropWhile) behind the same roll                              — TEST of the twin
    slice.spec      the declarative specification `sliceSpec` the theorems are stated against                — TEST of the spec
Streams:
    signs    EXHAUSTIVE: every sequence over {front, on, behind} up to a length, open and closed, on an exact lattice
    lattice  random longer sign sequences with repeated vertices (pool of few points), exact
    float    random polylines and planes (oblique normals, magnitudes 1e-6..1e6), every vertex at least 1e-7*scale away
             from the plane (or exactly on an axis-aligned one)
    near     random polylines with vertices projected onto an oblique plane up to rounding and nudged by a few ulps to
             either side (as neighbours of the run, inside runs, everywhere); plus `explicit` corpus inputs.  The side of
             such a vertex is a matter of rounding, so every sign-dependent expectation is taken from the implementation's
             own `plane.sign()`, and the model runs the same code-shaped kernel on the observed signs and signed
             distances (`slice.given`): exact rationals with tolerance, Float with (near) bit equality.
    isect    single segments through `intersect_segment_with_plane` incl. parallel / out-of-range / end-point cases
Oracle: an independent computation of the (cyclic) run in front and of the expected result in exact Fractions.
"""
import itertools
import math
import random
from fractions import Fraction

import numpy as np

from pwlib.share import shcopy

from pwlib import gens
from pwlib.canon import flat
from pwlib.engine import Case
from pwlib.proto import Line

ID = "C06"
TARGETS = ["PW.Props.C06"]
RULE = ("stream 'signs' enumerates ALL sign sequences over {front,on,behind} of length 0..6 (quick) / 0..9 (thorough), each as "
        "an open and as a closed polyline, vertices on an integer lattice (distinct lateral coordinates, offsets from an "
        "axis-aligned plane in {-3,-1,0,1,3} so every crossing parameter is 1/4, 1/2 or 3/4 and all float arithmetic is exact); "
        "'lattice' = random sign sequences of length 2..14 over a pool of few points (repeated vertices); 'float' = random planes "
        "(oblique or axis-aligned) and polylines at magnitudes 1e-6..1e6 with single-run, multi-run and random sign patterns, "
        "vertices >= 1e-7*scale from the plane; 'near' = vertices within a few ulps of an oblique plane mixed with far ones, signs as "
        "observed from plane.sign(), kernel run on the observed signs/distances; 'isect' = single segments incl. parallel and out-of-range ones; every polyline "
        "case runs the code-shaped model, the span-shaped twin and the specification; non-trivial = at least one vertex; "
        "distinct = distinct spec")
TRUSTED = ["np.sign / np.vsplit / np.roll / np.vstack / nonzero modelled as sign, list sections, rotation, append, index filter",
           "IEEE rounding not modelled: coordinates of crossing points compared with rtol max(1e-9, 64*2^-53*|b-a|/|d_b-d_a|)*scale, "
           "kept vertices, row counts, is_closed and exception classes exactly"]
ASSUMPTIONS = ["for a vertex within rounding error of the plane the side it is counted on is the one plane.sign() reports (streams "
               "'near'/'explicit'); all other clauses (finite coordinates, added rows on their segment, nothing behind the plane "
               "beyond 1e-9*scale, kept vertices bit-identical, ValueError exactly in the stated situations) are checked there too",
               "the exact-arithmetic model computes its own signs only on inputs where they are determined: lattice / axis-aligned "
               "on-plane vertices, float-stream vertices at least 1e-7*scale from the plane",
               "inputs are finite (no NaN / inf coordinates)"]
EXHAUSTIVE = {"quick": True, "thorough": True}

QUICK_LEN = 6
THOROUGH_LEN = 9


# ---------------------------------------------------------------------------------------------------
# generators (specs are plain dicts; everything is derived from the spec alone)

def gen(rng, tier):
    top = QUICK_LEN if tier == "quick" else THOROUGH_LEN
    for n in range(top + 1):
        for signs in itertools.product((1, 0, -1), repeat=n):
            g = [rng.randrange(3), rng.randrange(2), rng.randint(-2, 2), rng.randrange(1 << 16) if rng.random() < 0.5 else 0]
            for closed in (False, True):
                yield {"op": "signs", "closed": closed, "signs": list(signs), "g": g}
    for _ in range(300 if tier == "quick" else 6000):
        yield {"op": "lattice", "closed": rng.random() < 0.5, "seed": rng.randrange(1 << 30)}
    for _ in range(500 if tier == "quick" else 20000):
        yield {"op": "float", "closed": rng.random() < 0.5, "seed": rng.randrange(1 << 30)}
    for _ in range(600 if tier == "quick" else 20000):
        yield {"op": "near", "closed": rng.random() < 0.5, "seed": rng.randrange(1 << 30)}
    for _ in range(200 if tier == "quick" else 4000):
        yield {"op": "isect", "seed": rng.randrange(1 << 30)}


def lattice_geometry(signs, g, pool=None, rng=None):
    """vertices and plane for a sign sequence on an exact lattice"""
    axis, flip, off, magseed = g
    mr = random.Random(magseed)
    lat = [a for a in range(3) if a != axis]
    nrm = [0.0, 0.0, 0.0]
    nrm[axis] = -1.0 if flip else 1.0
    ref = [0.0, 0.0, 0.0]
    ref[lat[0]] = 5.0
    ref[lat[1]] = -7.0
    ref[axis] = float(off)
    vs = []
    for i, s in enumerate(signs):
        m = 1 if magseed == 0 else mr.choice((1, 3))
        p = [0.0, 0.0, 0.0]
        if pool is None:
            p[lat[0]] = float(i)
            p[lat[1]] = float((i * i) % 5 - 2)
        else:
            q = pool[rng.randrange(len(pool))]
            p[lat[0]], p[lat[1]] = float(q[0]), float(q[1])
            m = 1 + 2 * ((q[0] + q[1]) % 2) if magseed else 1   # same point ⇒ same offset ⇒ genuinely repeated vertices
        p[axis] = float(off) + s * m * nrm[axis]
        vs.append(p)
    return vs, ref, nrm


def pattern(rng, n, closed, allow_on):
    """sign pattern: single run (possibly wrapping), two runs, everything / nothing in front, or iid"""
    non = (lambda: rng.choice((-1, -1, 0))) if allow_on else (lambda: -1)
    r = rng.random()
    if r < 0.55:
        k = rng.randint(1, max(1, n - 1))
        start = rng.randrange(n) if closed else rng.randint(0, n - k)
        s = [non() for _ in range(n)]
        for j in range(k):
            s[(start + j) % n] = 1
        return s
    if r < 0.70:
        s = [non() for _ in range(n)]
        for j in rng.sample(range(n), min(n, rng.randint(2, 4))):
            s[j] = 1
        return s
    if r < 0.76:
        return [1] * n
    if r < 0.82:
        return [non() for _ in range(n)]
    return [rng.choice((1, -1, 0) if allow_on else (1, -1)) for _ in range(n)]


def build(spec):
    """-> (vertices list, ref, normal, stream tag, allow-float-mode)"""
    op = spec["op"]
    if op == "signs":
        vs, ref, nrm = lattice_geometry(spec["signs"], spec["g"])
        return vs, ref, nrm
    rng = random.Random(spec["seed"])
    if op == "lattice":
        n = rng.randint(2, 14)
        signs = pattern(rng, n, spec["closed"], True)
        pool = [(rng.randint(-3, 3), rng.randint(-3, 3)) for _ in range(rng.randint(1, 4))]
        g = [rng.randrange(3), rng.randrange(2), rng.randint(-2, 2), rng.randrange(2)]
        # a repeated point must keep its sign: key the sign on the pool entry
        vs, ref, nrm = lattice_geometry(signs, g, pool=pool, rng=rng)
        if rng.random() < 0.5:
            # make repeats consistent: same lateral position ⇒ same vertex (take the first occurrence)
            seen = {}
            axis = g[0]
            lat = [a for a in range(3) if a != axis]
            for p in vs:
                key = (p[lat[0]], p[lat[1]])
                if key in seen:
                    p[axis] = seen[key]
                else:
                    seen[key] = p[axis]
        return vs, ref, nrm
    # float
    scale = gens.scale_of(rng)
    if rng.random() < 0.12:
        # very large / very small geometry: still far from overflow for sums and differences of coordinates and for ratios
        # of signed distances, but not for a product of two of them
        scale = 10.0 ** (rng.choice([-1, 1]) * rng.uniform(120, 250))
    axis_aligned = rng.random() < 0.3
    if axis_aligned:
        nrm = list(rng.choice(gens.AXES))
    else:
        nrm = gens.unit(rng)
    from polliwog import Plane
    ref = gens.fvec(rng, scale)
    plane = Plane.from_point_and_normal(np.array(ref), np.array(nrm))
    ref = [float(x) for x in plane.reference_point]
    nrm = [float(x) for x in plane.normal]
    n = rng.choice([1, 2, 2, 3, 3, 4, 5, 6, 8, 12, 20])
    signs = pattern(rng, n, spec["closed"], axis_aligned)
    nv = np.array(nrm)
    rv = np.array(ref)
    margin = Fraction(1e-7) * Fraction(scale)
    vs = []
    for s in signs:
        for _try in range(50):
            p0 = rv + np.array(gens.fvec(rng, scale))
            if s == 0:
                ax = int(np.flatnonzero(nv)[0])
                p = p0.copy()
                p[ax] = rv[ax]
                break
            dist = scale * 10.0 ** rng.uniform(-6.9, 0)
            p = p0 - np.dot(p0 - rv, nv) * nv + s * dist * nv
            e = gens.fdot(gens.fsub(p, ref), nrm)
            if (e > margin) if s > 0 else (e < -margin):
                break
        vs.append([float(x) for x in p])
    return vs, ref, nrm


# ---------------------------------------------------------------------------------------------------
# independent expectation (exact rationals)

def F(x):
    return Fraction(float(x))


def exact_d(p, ref, nrm):
    return sum((F(a) - F(r)) * F(c) for a, r, c in zip(p, ref, nrm))


def expect(vs, ref, nrm, closed, signs=None):
    """-> ("err", reason) | ("ok", rows) with rows = [("v", index) | ("x", exact point, a_index, b_index)]
    signs: None = exact signs of the exact signed distances; else the observed signs (near-plane inputs), in which case
    the "x" rows carry None instead of an exact point (only segment membership is checked)"""
    n = len(vs)
    if n == 0:
        return ("err", "empty")
    d = [exact_d(p, ref, nrm) for p in vs]
    if signs is not None:
        front = [x > 0 for x in signs]
    else:
        front = [x > 0 for x in d]
    if not any(front):
        return ("err", "nofront")
    if all(front):
        return ("err", "allfront")
    cyc = closed and n > 1
    # starts of maximal runs: front[i] and not front[i-1] (cyclically when closed; index 0 starts a run when open)
    starts = [i for i in range(n) if front[i] and (not front[i - 1] if (cyc or i > 0) else True)]
    if len(starts) != 1:
        return ("err", "multi")
    st = starts[0]
    k = 0
    while k < n and front[(st + k) % n] and (cyc or st + k < n):
        k += 1
    idx = [(st + j) % n for j in range(k)]

    def joint(a, b, nb):
        # nb: index of the neighbour; (a, b): direction of the segment as travelled
        if signs is not None:
            return ("v", nb) if signs[nb] == 0 else ("x", None, a, b)
        if d[nb] == 0:
            return ("v", nb)
        t = d[a] / (d[a] - d[b])
        return ("x", [F(vs[a][c]) + t * (F(vs[b][c]) - F(vs[a][c])) for c in range(3)], a, b)

    rows = []
    if cyc or st > 0:
        nb = (st - 1) % n
        rows.append(joint(nb, st, nb))
    rows.extend(("v", i) for i in idx)
    last = idx[-1]
    if cyc or last + 1 < n:
        nb = (last + 1) % n
        rows.append(joint(last, nb, nb))
    return ("ok", rows)


def category(vs, ref, nrm, closed, signs=None):
    e = expect(vs, ref, nrm, closed, signs)
    if e[0] == "err":
        return "err-" + e[1], e
    rows = e[1]
    # classify the two ends: crossing / on-plane neighbour / open end
    d = [exact_d(p, ref, nrm) for p in vs] if signs is None else list(signs)
    ends = []
    first, last = rows[0], rows[-1]
    ends.append("x" if first[0] == "x" else ("on" if d[first[1]] == 0 else "end"))
    ends.append("x" if last[0] == "x" else ("on" if d[last[1]] == 0 else "end"))
    run = [r[1] for r in rows if r[0] == "v" and d[r[1]] > 0]
    wrap = "wrap" if any(run[i + 1] < run[i] for i in range(len(run) - 1)) else "nowrap"
    return "ok-%s-%s-%s" % (ends[0], ends[1], wrap), e


def cond_rtol(vs, ref, nrm, e):
    r = 1e-9
    if e[0] == "ok":
        for row in e[1]:
            if row[0] == "x":
                a, b = row[2], row[3]
                seg = max(abs(vs[a][c] - vs[b][c]) for c in range(3))
                den = abs(exact_d(vs[a], ref, nrm) - exact_d(vs[b], ref, nrm))
                scale = max(gens.maxabs(vs, ref), 1e-300)
                # error of d_a, d_b ~ few ulp * scale; error of the point ~ seg * that / den
                r = max(r, 64 * 2.0 ** -53 * float(Fraction(seg) / den) * 1.0)
    return min(r, 1e-3)


def seg_distance(p, a, b):
    """max-norm distance (exact) from p to the closest point of segment a-b"""
    P, A, B = ([F(c) for c in x] for x in (p, a, b))
    ab = [y - x for x, y in zip(A, B)]
    den = sum(c * c for c in ab)
    t = Fraction(0) if den == 0 else sum((x - y) * c for x, y, c in zip(P, A, ab)) / den
    t = min(max(t, Fraction(0)), Fraction(1))
    return max(abs(x - (y + t * c)) for x, y, c in zip(P, A, ab))


def oracle_poly(res, vs, ref, nrm, closed, e, tol, signs=None):
    out = []
    what = "closed" if closed else "open"
    if e[0] == "err":
        if res[0] == "ok":
            out.append(("refuse/%s/returned-a-value" % e[1], "%s polyline, situation '%s': expected ValueError, got a polyline with %d rows; vertices=%s plane=(%s,%s)"
                        % (what, e[1], res[1][1], vs, ref, nrm)))
        elif res[1] != "ValueError":
            out.append(("refuse/%s/wrong-exception" % e[1], "%s polyline, situation '%s': expected ValueError, got %s; vertices=%s plane=(%s,%s)"
                        % (what, e[1], res[1], vs, ref, nrm)))
        return out
    rows = e[1]
    if res[0] == "err":
        out.append(("slice/raised", "%s polyline with exactly one run in front raised %s; vertices=%s plane=(%s,%s)" % (what, res[1], vs, ref, nrm)))
        return out
    items = res[1]
    if items[0] is not False:
        out.append(("result/is-open", "returned polyline is not open"))
    k = items[1]
    pts = [items[2 + 3 * i: 5 + 3 * i] for i in range(k)]
    if k != len(rows):
        out.append(("run/row-count", "%s polyline: returned %d rows, expected %d (run plus entry/exit points); vertices=%s plane=(%s,%s) got=%s"
                    % (what, k, len(rows), vs, ref, nrm, pts)))
    for p in pts:
        if any(c is None or math.isinf(c) for c in p):
            out.append(("result/finite", "returned coordinates are not finite: %s; vertices=%s plane=(%s,%s)" % (pts, vs, ref, nrm)))
            return out
    for p in pts:
        if exact_d(p, ref, nrm) < -tol:
            out.append(("result/not-behind", "returned point %s is behind the plane; vertices=%s plane=(%s,%s)" % (p, vs, ref, nrm)))
    if k == len(rows):
        for p, row in zip(pts, rows):
            if row[0] == "v":
                if [float(c) for c in p] != [float(c) for c in vs[row[1]]] or any(math.copysign(1, a) != math.copysign(1, b) for a, b in zip(p, vs[row[1]]) if a == 0):
                    infront = (signs[row[1]] > 0) if signs is not None else exact_d(vs[row[1]], ref, nrm) > 0
                    key = "run/vertices-identical" if infront else "end/on-plane-neighbour"
                    out.append((key, "returned row %s is not the original vertex %d %s; vertices=%s plane=(%s,%s)" % (p, row[1], vs[row[1]], vs, ref, nrm)))
            elif row[1] is None:
                if seg_distance(p, vs[row[2]], vs[row[3]]) > tol:
                    out.append(("end/on-segment", "returned row %s does not lie on the segment %d->%d it comes from; vertices=%s plane=(%s,%s)"
                                % (p, row[2], row[3], vs, ref, nrm)))
            else:
                if any(abs(F(a) - b) > tol for a, b in zip(p, row[1])):
                    out.append(("end/crossing", "returned row %s is not the crossing %s of segment %d->%d; vertices=%s plane=(%s,%s)"
                                % (p, [float(x) for x in row[1]], row[2], row[3], vs, ref, nrm)))
    seen = {}
    for k_, m in out:
        seen.setdefault(k_, m)
    return list(seen.items())


# ---------------------------------------------------------------------------------------------------

def build_near(spec):
    """vertices within a few ulps of an oblique plane, mixed with vertices far from it"""
    from polliwog import Plane
    rng = random.Random(spec["seed"])
    scale = gens.scale_of(rng, -4, 4)
    plane = Plane.from_point_and_normal(np.array(gens.fvec(rng, scale)), np.array(gens.unit(rng)))
    rv = np.array(plane.reference_point, dtype=np.float64)
    nv = np.array(plane.normal, dtype=np.float64)
    n = rng.choice([2, 2, 3, 3, 4, 5, 6, 8, 12])
    base = pattern(rng, n, spec["closed"], False)
    near_p = rng.choice([0.2, 0.4, 0.7])
    ax = int(np.argmax(np.abs(nv)))
    vs = []
    for s_ in base:
        p0 = rv + np.array(gens.fvec(rng, scale))
        if rng.random() < near_p:
            p = p0 - np.dot(p0 - rv, nv) * nv           # on the plane up to rounding
            if rng.random() < 0.3:
                p = p - np.dot(p - rv, nv) * nv          # once more: even closer
            k = rng.randint(-4, 4)
            for _ in range(abs(k)):
                p[ax] = np.nextafter(p[ax], np.inf if k > 0 else -np.inf)
        else:
            dist = scale * 10.0 ** rng.uniform(-3, 0)
            p = p0 - np.dot(p0 - rv, nv) * nv + s_ * dist * nv
        vs.append([float(x) for x in p])
    return vs, [float(x) for x in rv], [float(x) for x in nv]


# (vertices within a few ulps of the plane: their signs are what the implementation's own arithmetic says, and that depends
# on the order NumPy sums in, i.e. on the memory layout -- these arguments keep theirs in the layout runs)
def make_near(spec):
    """inputs whose signs are a matter of rounding: signs / signed distances as observed on the implementation"""
    from polliwog import Plane, Polyline
    if spec["op"] == "explicit":
        vs, ref, nrm = [list(map(float, p)) for p in spec["v"]], list(map(float, spec["ref"])), list(map(float, spec["n"]))
    else:
        vs, ref, nrm = build_near(spec)
    closed = bool(spec["closed"])
    V = np.array(np.reshape(vs, (-1, 3)), dtype=np.float64)
    plane = Plane(np.array(ref, dtype=np.float64), np.array(nrm, dtype=np.float64))
    scale = max(gens.maxabs(V, ref), 1e-300)
    signs = [int(x) for x in np.atleast_1d(plane.sign(shcopy(V, keep_layout=True)))] if len(V) else []
    dist = [float(x) for x in np.atleast_1d(plane.signed_distance(shcopy(V, keep_layout=True)))] if len(V) else []
    cat, e = category(vs, ref, nrm, closed, signs)
    tol = Fraction(1e-9) * Fraction(scale)
    nearcount = sum(1 for p in vs if abs(exact_d(p, ref, nrm)) <= Fraction(1e-12) * Fraction(scale))
    kl = "%s/%s/%s/%s" % (spec["op"], "closed" if closed else "open", cat, "near%d" % min(nearcount, 3))

    def impl_poly():
        r = Polyline(shcopy(V, keep_layout=True), is_closed=closed).sliced_by_plane(plane)
        return [bool(r.is_closed), int(len(r.v))] + flat(r.v)

    line = Line("slice.given").b(closed).i(len(vs))
    for s_, d_, p in zip(signs, dist, vs):
        line.i(s_).f(d_).f(*p)

    def cmp_given(r, a, mode):
        from pwlib import canon
        # Float run of the kernel on the observed distances repeats the implementation's arithmetic operation by
        # operation; the rational run is the exact value of the same formula
        return canon.compare(r, a, scale=scale, rtol=1e-13 if mode == "float" else 1e-9)

    return [Case(spec, line, impl_poly, mode="both", klass="slice.given/" + kl, trivial=len(vs) == 0, scale=scale,
                 compare=cmp_given, oracle=lambda r: oracle_poly(r, vs, ref, nrm, closed, e, tol, signs))]


def make(spec):
    if spec["op"] == "isect":
        return make_isect(spec)
    if spec["op"] in ("near", "explicit"):
        return make_near(spec)
    from polliwog import Plane, Polyline
    from polliwog.polyline._slice_by_plane import slice_open_polyline_by_plane
    vs, ref, nrm = build(spec)
    closed = bool(spec["closed"])
    V = np.array(np.reshape(vs, (-1, 3)), dtype=np.float64)
    plane = Plane(np.array(ref, dtype=np.float64), np.array(nrm, dtype=np.float64))
    scale = max(gens.maxabs(V, ref), 1e-300)
    cat, e = category(vs, ref, nrm, closed)
    rtol = cond_rtol(vs, ref, nrm, e) if spec["op"] == "float" else 1e-9
    tol = Fraction(rtol) * Fraction(scale)
    stream = spec["op"]
    kl = "%s/%s/%s" % (stream, "closed" if closed else "open", cat)
    trivial = len(vs) == 0

    def impl_poly():
        r = Polyline(shcopy(V), is_closed=closed).sliced_by_plane(plane)
        return [bool(r.is_closed), int(len(r.v))] + flat(r.v)

    def impl_open():
        r = slice_open_polyline_by_plane(shcopy(V), plane)
        return [int(len(r))] + flat(r)

    def args(op):
        return Line(op).b(closed).vec(ref).vec(nrm).vecs(V)

    fmode = "both" if stream in ("float", "signs") else "rat"
    cases = [Case(spec, args("slice.poly"), impl_poly, mode=fmode, klass="slice.poly/" + kl, trivial=trivial, scale=scale, rtol=rtol,
                  oracle=lambda r: oracle_poly(r, vs, ref, nrm, closed, e, tol)),
             Case(spec, args("slice.polyspan"), impl_poly, mode="rat", klass="slice.polyspan/" + kl, trivial=trivial, scale=scale, rtol=rtol),
             Case(spec, args("slice.spec"), impl_poly, mode="rat", klass="slice.spec/" + kl, trivial=trivial, scale=scale, rtol=rtol)]
    if not closed:
        cases.append(Case(spec, Line("slice.open").vec(ref).vec(nrm).vecs(V), impl_open, mode=fmode, klass="slice.open/" + kl,
                          trivial=trivial, scale=scale, rtol=rtol))
        cases.append(Case(spec, Line("slice.openspan").vec(ref).vec(nrm).vecs(V), impl_open, mode="rat", klass="slice.openspan/" + kl,
                          trivial=trivial, scale=scale, rtol=rtol))
    return cases


def make_isect(spec):
    from polliwog.plane import intersect_segment_with_plane
    rng = random.Random(spec["seed"])
    r = rng.random()
    if r < 0.6:
        stream = "lattice"
        n = rng.choice(gens.AXES + [[1.0, 1.0, 0.0], [1.0, -2.0, 2.0], [0.0, 3.0, -1.0]])
        ref = gens.lat(rng, 3)
        start = gens.lat(rng, 4)
        k = rng.random()
        if k < 0.25:
            # parallel to the plane (denominator exactly 0), start on or off the plane
            while True:
                seg = gens.lat(rng, 4)
                if gens.fdot(seg, n) == 0:
                    break
            if rng.random() < 0.5:
                # put the start on the plane: move it along lattice directions until (ref - start).n = 0, if possible
                start = list(ref)
        elif k < 0.5:
            # ends exactly on the plane (t = 0 or t = 1)
            seg = gens.lat_nonzero(rng, 4)
            if rng.random() < 0.5:
                start = list(ref)
            else:
                start = [float(a - b) for a, b in zip(ref, seg)]
        else:
            seg = gens.lat(rng, 4)
    else:
        stream = "float"
        s = gens.scale_of(rng, -4, 4)
        n = gens.unit(rng)
        ref = gens.fvec(rng, s)
        start = gens.fvec(rng, s)
        seg = gens.fvec(rng, s * 10.0 ** rng.uniform(-1, 1))
    S, D, R, N = (np.array(x, dtype=np.float64) for x in (start, seg, ref, n))
    num = gens.fdot(gens.fsub(R, S), N)
    den = gens.fdot(D, N)
    scale = max(gens.maxabs(S, D, R), 1e-300)
    if den == 0:
        br = "den0-num0" if num == 0 else "den0"
        t = None
    else:
        t = num / den
        br = "t<0" if t < 0 else ("t>1" if t > 1 else ("t=0" if t == 0 else ("t=1" if t == 1 else "in")))
        if stream == "float":
            # keep away from the thresholds and from ill-conditioned denominators
            nn = max(gens.maxabs(N), 1e-300)
            if abs(den) < Fraction(1e-6) * Fraction(gens.maxabs(D)) * Fraction(nn) or min(abs(t), abs(t - 1)) < Fraction(1e-6):
                return None
            if abs(t) > 1e6:
                return None

    def impl():
        return flat(intersect_segment_with_plane(start_points=shcopy(S), segment_vectors=shcopy(D), points_on_plane=shcopy(R), plane_normals=shcopy(N)))

    rtol = 1e-9
    if t is not None and stream == "float":
        rtol = min(1e-3, max(1e-9, 64 * 2.0 ** -53 * float(Fraction(gens.maxabs(D)) * Fraction(gens.maxabs(N)) / abs(den)) * max(1.0, float(abs(t)))))
    tol = Fraction(rtol) * Fraction(scale)

    def oracle(res):
        out = []
        if res[0] != "ok":
            return [("isect/raised", "intersect_segment_with_plane raised %s on start=%s seg=%s ref=%s n=%s" % (res[1], start, seg, ref, n))]
        p = res[1]
        inside = t is not None and 0 <= t <= 1
        if inside:
            if any(c is None for c in p):
                out.append(("isect/in-range-is-finite", "crossing parameter %s is within [0,1] but the result is NaN: start=%s seg=%s ref=%s n=%s" % (float(t), start, seg, ref, n)))
            else:
                want = [F(a) + t * F(b) for a, b in zip(S, D)]
                if any(abs(F(a) - b) > tol for a, b in zip(p, want)):
                    out.append(("isect/point", "result %s is not start + t*seg = %s: start=%s seg=%s ref=%s n=%s" % (p, [float(x) for x in want], start, seg, ref, n)))
        elif t is not None or num != 0:
            if not all(c is None for c in p):
                out.append(("isect/out-of-range-is-nan", "segment does not meet the plane but the result is %s: start=%s seg=%s ref=%s n=%s" % (p, start, seg, ref, n)))
        return out

    return Case(spec, Line("slice.isect").vec(S).vec(D).vec(R).vec(N), impl, mode="both", klass="slice.isect/%s/%s" % (stream, br),
                scale=scale, rtol=rtol, oracle=oracle)
