"""C03 — CompositeTransform applies its steps in order and reverse undoes them.

Correspondence: random histories of appending calls (every method) are replayed on the real CompositeTransform
and on the Lean state machine (PW.Model.Composite); compared are the value returned by every appending call
(index or exception class), transform_matrix_for and __call__ for many from_range pairs, both directions, all
four flag combinations, single points and stacks.  One driver line carries the whole history (stateless driver).
Oracle: the documented action of every step (translate = add, scale = multiply, flip = negate one coordinate,
rotate = multiply by R / Rᵀ, explicit matrix = homogeneous multiplication) folded over steps[start:stop] in exact
rationals, compared with what the real object returns; round trip; matrix inverse; vector mode; stack = map;
discard_z; returned indices.
"""
from fractions import Fraction

import numpy as np

from pwlib.share import shcopy

from pwlib.canon import err_name, flat
from pwlib.engine import Case
from pwlib.proto import Line
from props import ct_steps as S

ID = "C03"
TARGETS = ["PW.Props.C03", "PW.Props.C03Gen"]
INTERN_WITHIN_CASE = True   # see pwlib/engine.py: equal-valued step arguments are one object inside a program
RULE = ("histories of 0..30 appending calls drawn from four streams: lattice (integer/half-integer translations, "
        "power-of-two uniform and non-uniform scales incl. negative ones with allow_flipping, flips, the 24 cube rotations, "
        "integer shear matrices with given or numerically computed inverse: all arithmetic exact), float (translations "
        "1e-3..1e3, scales 0.1..10, unit conversions, random rotation matrices, rational rotations from integer quaternions, "
        "Rodrigues vectors incl. zero and angles > pi, reorient, explicit affine matrices with given / omitted inverse), "
        "malformed (refused parameters interleaved with valid steps: zero / negative factors, flip axis outside 0..2, "
        "degenerate up/look, singular matrix without inverse), nonaffine (lattice histories of 1..9 steps holding one or "
        "two exactly invertible small-integer unimodular explicit matrices whose last row is not 0 0 0 1). Per history: every from_range pair when len <= 5, else (0,len), 6 "
        "single-step ranges (i,i+1) and 10 sampled pairs, None, and out-of-domain Python slices (negative, stop>len, "
        "start>stop); each pair with reverse on/off, both values of discard_z and of treat_input_as_vector, single/stack (k in 0..4). "
        "Model instantiations: exact rationals and Float for everything, except float-stream histories with more than 10 "
        "accepted steps (Float only; exact rationals of 53-bit mantissas multiplied 30 times are slow). "
        "A case is non-trivial when at least one step was appended; distinct = distinct history")
TRUSTED = ["np.linalg.inv: the matrix it returns (or the LinAlgError it raises) is passed to the model as data; the oracle "
           "checks the stored pair against an exact rational inverse",
           "ounce.factor: the factor is passed to the model as data; the oracle compares with its own unit table",
           "rodrigues_vector_to_rotation_matrix / rotation_from_up_and_look (properties C10/C11): the 3x3 matrix they return "
           "(or the ValueError) is passed to the model as data; the oracle uses independent formulas",
           "np.dot / np.pad / np.delete modelled as matrix product, homogeneous padding, dropping w",
           "IEEE rounding not modelled: numeric outputs compared with 1e-9 * (entrywise bound of the absolute matrix products)"]
ASSUMPTIONS = ["KNOWN FINDING roundtrip/non-affine-explicit-matrix: append_transform accepts matrices whose last row is not "
               "0 0 0 1; apply_transform drops w without dividing, so for ranges holding such a step the call is not the 3-D "
               "step-by-step action and reverse does not undo it (Lean: C03_*_defect_witness); such ranges are generated in a "
               "dedicated stream, model and code agree on them, the matrix clauses (homogeneous form, inverse) still hold",
               "points have shape (3,) or (k,3) (shape refusal is C20)"]
EXHAUSTIVE = {"quick": False, "thorough": False}

FLAGS = [(False, False), (False, True), (True, False), (True, True)]  # (discard_z, as_vector)


def all_pairs(n):
    return [[i, j] for i in range(n + 1) for j in range(i, n + 1)]


def gen_ranges(rng, n):
    if n <= 5:
        rs = all_pairs(n)
    else:
        rs = [[0, n]] + [[i, i + 1] for i in rng.sample(range(n), 6)]
        for _ in range(10):
            i = rng.randint(0, n)
            rs.append([i, rng.randint(i, n)])
    rs.append(None)
    # python-slice semantics outside 0<=start<=stop<=len (model correspondence; the oracle slices the same way)
    for _ in range(2):
        rs.append([rng.randint(-n - 2, n + 2), rng.randint(-n - 2, n + 2)])
    return rs


def gen(rng, tier):
    quick = tier == "quick"
    plan = [("lattice", 80 if quick else 1400), ("float", 55 if quick else 900), ("malformed", 25 if quick else 350),
            ("nonaffine", 20 if quick else 300)]
    for stream, count in plan:
        for i in range(count):
            r = rng.random()
            n = rng.randint(0, 3) if r < 0.25 else rng.randint(3, 9) if r < 0.75 else rng.randint(9, 18) if r < 0.93 else rng.randint(18, 30)
            if i == 0:
                n = 0
            if i == 1:
                n = 30
            base = "float" if stream == "float" or (stream == "malformed" and rng.random() < 0.5) else "lattice"
            if stream == "nonaffine":
                # dedicated share: exactly invertible explicit matrices whose last row is not 0 0 0 1 (accepted by
                # append_transform; known finding roundtrip/non-affine-explicit-matrix)
                n = rng.randint(0, 7)
                steps = S.gen_history(rng, "lattice", n, nonaffine_steps=rng.choice([1, 1, 2]))
                n = len(steps)
            else:
                steps = S.gen_history(rng, base, n, bad_rate=0.35 if stream == "malformed" else 0.0)
            k = rng.choice([0, 1, 2, 3, 4])
            yield {"op": "ct-history", "stream": stream, "base": base, "steps": steps,
                   "ranges": gen_ranges(rng, n),
                   "pts": S.gen_points(rng, base, max(k, 1)), "k": k}


def build(spec, probe=False):
    """fresh object with the history applied -> (ct, outcomes).  With `probe` the object is *used* after every step
    (default-range matrices in both directions, a call on a point, the explicit full range): the property is about
    the steps appended so far at the time of each call, so what an earlier call computed must not leak into a later
    one.  The results of the probes are discarded; the calls that follow are compared as usual."""
    from polliwog import CompositeTransform
    ct = CompositeTransform()
    outs = []
    for st in spec["steps"]:
        outs.append(S.try_step(ct, st))
        if probe:
            try:
                ct.transform_matrix_for()
                ct.transform_matrix_for(reverse=True)
                ct(np.array([1.0, 2.0, 3.0]))
                ct(np.array([[1.0, 2.0, 3.0]]), reverse=True)
                ct.transform_matrix_for(from_range=(0, len(ct.transforms)))
            except Exception:      # a probe that raises says nothing by itself; the compared calls below will
                pass
    return ct, outs


def step_items(outs):
    return [(int(v) if isinstance(v, (int, np.integer)) and not isinstance(v, bool) else "N" if v is None else "?:" + type(v).__name__)
            if s == "ok" else "E:" + v for s, v in outs]


def rng_arg(r):
    return None if r is None else (r[0], r[1])


def query_plan(spec, dz, av):
    """(range, reverse, single) for the call cases: every range is called with both values of each flag
    (ranges at even positions with (dz, av) = (0,0), (1,1), at odd positions with (0,1), (1,0))"""
    out = []
    fi = 2 * int(dz) + int(av)
    for qi, r in enumerate(spec["ranges"]):
        if (qi + (fi >> 1)) % 2 != (fi & 1):
            continue
        for rev in (False, True):
            single = (qi + int(rev)) % 3 == 0
            out.append((r, rev, single))
    return out


def make(spec):
    steps = spec["steps"]
    pts = spec["pts"]
    k = spec["k"]
    P = np.array(np.reshape(pts, (-1, 3)), dtype=np.float64)
    stack = P[:k]
    ct0, outs0 = build(spec)
    n_ok = len(ct0.transforms)
    nb = "n0" if n_ok == 0 else "n1-3" if n_ok <= 3 else "n4-9" if n_ok <= 9 else "n10+"
    trivial = n_ok == 0
    # exact-rational execution of long float-stream histories is slow (53-bit mantissas multiply up); those are
    # compared with the Float instantiation only, everything else with both
    mode = "float" if spec["base"] == "float" and n_ok > 10 else "both"
    # comparison scale: entrywise bound over every partial product (any association order) times the points
    bf = S.abs_bound([f for f, _ in ct0.transforms])
    bi = S.abs_bound([i for _, i in reversed(ct0.transforms)])
    pmax = max(float(np.max(np.abs(P))) if P.size else 0.0, 1.0)
    # sub-range products are bounded by prefix-free products of the same absolute matrices; use the per-range bound
    def range_bound(r, rev):
        sel = ct0.transforms if r is None else ct0.transforms[r[0]:r[1]]
        mats = [i for _, i in reversed(sel)] if rev else [f for f, _ in sel]
        return float(np.max(S.abs_bound(mats)))
    mscale = max([range_bound(r, rev) for r in spec["ranges"] for rev in (False, True)] + [1.0])
    del bf, bi

    def header():
        ln = Line("ct.run").i(len(steps))
        for st in steps:
            S.step_tokens(ln, st)
        return ln

    cases = []
    # --- matrices -----------------------------------------------------------------------------------
    ln = header().i(2 * len(spec["ranges"]))
    for r in spec["ranges"]:
        for rev in (False, True):
            S.range_tokens(ln.tok("M"), r).b(rev)

    def impl_matrix():
        ct, outs = build(spec, probe=len(spec["steps"]) % 2 == 1)   # odd histories: the object was used after every step
        items = step_items(outs)
        for r in spec["ranges"]:
            for rev in (False, True):
                items += flat(ct.transform_matrix_for(from_range=rng_arg(r), reverse=rev))
        return items

    cases.append(Case(spec, ln, impl_matrix, mode=mode, klass="ct.matrix/%s/%s" % (spec["stream"], nb),
                      trivial=trivial, scale=mscale))
    # --- calls ----------------------------------------------------------------------------------------
    for dz, av in FLAGS:
        plan = query_plan(spec, dz, av)
        ln = header().i(len(plan))
        for r, rev, single in plan:
            S.range_tokens(ln.tok("P"), r).b(rev, dz, av)
            S.pts_tokens(ln, P[:1] if single else stack, single)

        def impl_call(dz=dz, av=av, plan=plan):
            ct, outs = build(spec, probe=(dz != av))
            items = step_items(outs)
            for r, rev, single in plan:
                arg = P[0].copy() if single else stack.copy()
                res = ct(arg, from_range=rng_arg(r), reverse=rev, discard_z_coord=dz, treat_input_as_vector=av)
                res = np.asarray(res)
                w = 2 if dz else 3
                if single:
                    if res.shape != (w,):
                        raise AssertionError("single point result has shape %s" % (res.shape,))
                    items += flat(res)
                else:
                    if res.shape != (len(stack), w):
                        raise AssertionError("stack result has shape %s" % (res.shape,))
                    items += [len(stack)] + flat(res)
            return items

        cases.append(Case(spec, ln, impl_call, mode=mode,
                          klass="ct.call/dz%d-av%d/%s/%s" % (dz, av, spec["stream"], nb),
                          trivial=trivial, scale=mscale * pmax * 4))
    cases[0].oracle = lambda _r: oracle(spec)
    return cases


# ---------------------------------------------------------------------------------------------------
# property oracle: documented step actions folded in exact rationals, on the implementation's outputs

def fpt(p, w):
    return [Fraction(float(x)) for x in p] + [Fraction(w)]


def oracle(spec):
    import random
    out = []

    def bad(key, msg):
        out.append((key, msg))

    ct, outs = build(spec, probe=len(spec["steps"]) % 2 == 1)   # odd histories: the object was used after every step
    steps = spec["steps"]
    docs = [S.documented(st) for st in steps]
    # --- returned indices; valid parameters are accepted -----------------------------------------------------
    kept = []  # documented actions of the steps that went in, in order
    kept_steps = []
    for st, d, (s, v) in zip(steps, docs, outs):
        if s == "ok":
            if v != len(kept) or isinstance(v, bool):
                bad("index/returned", "step %s returned %r, it is transform number %d" % (st[0], v, len(kept)))
            if d is None:
                # refused-by-documentation parameters were accepted: nothing documented to compare with (C11's subject)
                return dedupe(out)
            kept.append(d)
            kept_steps.append(st)
        elif d is not None:
            bad("append/refused-valid", "%s%r raised %s" % (st[0], tuple(st[1:]), v))
    if len(ct.transforms) != len(kept):
        bad("index/length", "%d transforms stored after %d successful calls" % (len(ct.transforms), len(kept)))
        return dedupe(out)
    rng = random.Random(len(steps) * 7919 + len(spec["ranges"]))
    P = np.array(np.reshape(spec["pts"], (-1, 3)), dtype=np.float64)
    stack = P[:spec["k"]]
    ranges = list(spec["ranges"])
    sample = ranges if len(ranges) <= 10 else [ranges[0]] + rng.sample(ranges[1:], 9)
    eye = [[Fraction(int(i == j)) for j in range(4)] for i in range(4)]
    for r in sample:
        sel = kept if r is None else kept[r[0]:r[1]]
        sel_steps = kept_steps if r is None else kept_steps[r[0]:r[1]]
        affine = all(a[2] for a in sel)

        def key(k_, affine=affine):
            # a range holding an explicit matrix whose last row is not 0 0 0 1: the 3-D clauses are known to fail
            return k_ if affine else "roundtrip/non-affine-explicit-matrix"
        stored = ct.transforms if r is None else ct.transforms[r[0]:r[1]]
        bnd_f = float(np.max(S.abs_bound([f for f, _ in stored])))
        bnd_i = float(np.max(S.abs_bound([i for _, i in reversed(stored)])))
        ra = rng_arg(r)
        in_domain = r is None or 0 <= r[0] <= r[1] <= len(kept)
        tag = "" if in_domain else "/pyslice"
        # --- matrices: columns are the images of the basis vectors; reverse is the inverse -------------------
        mf = ct.transform_matrix_for(from_range=ra)
        mr = ct.transform_matrix_for(from_range=ra, reverse=True)
        for rev, m, bnd in ((False, mf, bnd_f), (True, mr, bnd_i)):
            tol = Fraction(1e-9) * Fraction(max(bnd, 1.0))
            for j in range(4):
                e = [Fraction(int(i == j)) for i in range(4)]
                want = S.fold(sel, e, rev)
                got = [Fraction(float(m[i][j])) for i in range(4)]
                if any(abs(a - b) > tol for a, b in zip(got, want)):
                    bad("matrix/%s%s" % ("reverse" if rev else "forward", tag),
                        "transform_matrix_for(%s, reverse=%s) column %d is %s, the steps applied in order give %s"
                        % (r, rev, j, [float(x) for x in got], [float(x) for x in want]))
                    break
        tolp = Fraction(1e-9) * Fraction(max(bnd_f * bnd_i, 1.0))
        fm = [[Fraction(float(x)) for x in row] for row in mf]
        rm = [[Fraction(float(x)) for x in row] for row in mr]
        for name, a, b in (("reverse*forward", rm, fm), ("forward*reverse", fm, rm)):
            prod = [[sum(a[i][t] * b[t][j] for t in range(4)) for j in range(4)] for i in range(4)]
            if any(abs(prod[i][j] - eye[i][j]) > tolp for i in range(4) for j in range(4)):
                bad("matrix/inverse" + tag, "%s for range %s is not the identity: %s" % (name, r, [[float(x) for x in row] for row in prod]))
        # --- calls ----------------------------------------------------------------------------------------
        if not len(P):
            continue
        p = P[rng.randrange(len(P))]
        pm = max(float(np.max(np.abs(p))), 1.0)
        for av in (False, True):
            for rev in (False, True):
                bnd = bnd_i if rev else bnd_f
                tol = Fraction(1e-9) * Fraction(max(bnd, 1.0) * pm * 4)
                # the flags as a caller's computation would produce them half of the time: NumPy booleans (`mask[i]`,
                # `a > b`), which are the same truth values
                npb = (lambda x: np.bool_(x)) if (rng.random() < 0.5) else (lambda x: x)
                got = ct(shcopy(p), from_range=ra, reverse=npb(rev), treat_input_as_vector=npb(av))
                want = S.fold3(sel, fpt(p, 0)[:3], 0 if av else 1, rev)
                g = [Fraction(float(x)) for x in got]
                if np.shape(got) != (3,) or any(abs(a - b) > tol for a, b in zip(g, want)):
                    bad(key("call/%s%s%s" % ("reverse" if rev else "forward", "-vector" if av else "", tag)),
                        "ct(%s, from_range=%s, reverse=%s, treat_input_as_vector=%s) = %s, applying the steps one after another gives %s"
                        % (p.tolist(), r, rev, av, np.asarray(got).tolist(), [float(x) for x in want]))
                # round trip
                back = ct(shcopy(np.asarray(got, dtype=np.float64)), from_range=ra, reverse=not rev, treat_input_as_vector=av)
                tolb = Fraction(1e-9) * Fraction(max(bnd_f * bnd_i, 1.0) * pm * 8)
                if any(abs(Fraction(float(a)) - Fraction(float(b))) > tolb for a, b in zip(back, p)):
                    bad(key("roundtrip/%s%s%s" % ("reverse-first" if rev else "forward-first", "-vector" if av else "", tag)),
                        "range %s: %s went to %s and came back as %s" % (r, p.tolist(), np.asarray(got).tolist(), np.asarray(back).tolist()))
                # the matrix the caller is handed is the caller's: editing it must not change what the composite does
                try:
                    Mh = ct.transform_matrix_for(from_range=ra, reverse=rev)
                    if isinstance(Mh, np.ndarray) and Mh.flags.writeable:
                        Mh[...] = 77.0
                        again = ct(shcopy(p), from_range=ra, reverse=rev, treat_input_as_vector=av)
                        if np.shape(again) != np.shape(got) or not np.array_equal(np.asarray(again), np.asarray(got)):
                            bad(key("call/after-caller-edited-matrix" + tag),
                                "range %s reverse=%s: after the caller edited the array returned by transform_matrix_for, "
                                "ct(%s) changed from %s to %s" % (r, rev, p.tolist(), np.asarray(got).tolist(), np.asarray(again).tolist()))
                except Exception:
                    pass
            # vector mode ignores translations: same answer from the history without its translate steps
            if av:
                lin = [a for a, st in zip(sel, sel_steps) if not S.is_translation(st)]
                want = S.fold3(lin, fpt(p, 0)[:3], 0, False)
                got = ct(shcopy(p), from_range=ra, treat_input_as_vector=True)
                tol = Fraction(1e-9) * Fraction(max(bnd_f, 1.0) * pm * 4)
                if any(abs(Fraction(float(a)) - b) > tol for a, b in zip(got, want)):
                    bad(key("vector/ignores-translation" + tag), "range %s: vector %s gives %s, without the translations %s"
                        % (r, p.tolist(), np.asarray(got).tolist(), [float(x) for x in want]))
        # --- stack = map, discard_z only drops z -----------------------------------------------------------------
        rev = rng.random() < 0.5
        av = rng.random() < 0.5
        full = np.asarray(ct(shcopy(stack), from_range=ra, reverse=rev, treat_input_as_vector=av))
        if full.shape != (len(stack), 3):
            bad("stack/shape", "stack of %d points gives shape %s" % (len(stack), full.shape))
        else:
            for i, q in enumerate(stack):
                one = np.asarray(ct(shcopy(q), from_range=ra, reverse=rev, treat_input_as_vector=av))
                if one.shape != (3,) or not np.allclose(one, full[i], rtol=0, atol=1e-9 * max(bnd_f, bnd_i, 1.0) * pm * 4):
                    bad("stack/is-map", "row %d of the stacked result %s differs from the single-point call %s" % (i, full[i].tolist(), one.tolist()))
            dzs = np.asarray(ct(shcopy(stack), from_range=ra, reverse=rev, treat_input_as_vector=av, discard_z_coord=True))
            if dzs.shape != (len(stack), 2) or not np.array_equal(dzs, full[:, :2]):
                bad("discard_z/stack", "discard_z_coord result %s is not the first two columns of %s" % (dzs.tolist(), full.tolist()))
            if len(stack):
                one = np.asarray(ct(shcopy(stack[0]), from_range=ra, reverse=rev, treat_input_as_vector=av))
                dz1 = np.asarray(ct(shcopy(stack[0]), from_range=ra, reverse=rev, treat_input_as_vector=av, discard_z_coord=True))
                if dz1.shape != (2,) or not np.array_equal(dz1, one[:2]):
                    bad("discard_z/single", "discard_z_coord result %s is not the first two coordinates of %s" % (dz1.tolist(), one.tolist()))
    # --- index ranges built from returned values select exactly those steps --------------------------------------
    idx = [v for s, v in outs if s == "ok"]
    if len(idx) >= 1 and all(isinstance(v, (int, np.integer)) for v in idx):
        a = rng.randrange(len(idx))
        b = rng.randrange(a, len(idx))
        r = (idx[a], idx[b] + 1)
        sel = kept[a:b + 1]
        m = ct.transform_matrix_for(from_range=r)
        bnd = float(np.max(S.abs_bound([f for f, _ in ct.transforms[a:b + 1]])))
        tol = Fraction(1e-9) * Fraction(max(bnd, 1.0))
        for j in range(4):
            e = [Fraction(int(i == j)) for i in range(4)]
            want = S.fold(sel, e, False)
            if any(abs(Fraction(float(m[i][j])) - want[i]) > tol for i in range(4)):
                bad("index/range-selects", "from_range=(%d, %d+1) built from returned indices does not select steps %d..%d" % (idx[a], idx[b], a, b))
                break
    return dedupe(out)


def dedupe(out):
    seen = {}
    for k_, m in out:
        seen.setdefault(k_, m)
    return list(seen.items())
