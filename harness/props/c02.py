"""C02 — the sliced mesh is a well-formed indexed mesh with correct face provenance.

Same correspondence as C01 (assembly + kernel of PW.Model.Slicing vs slice_triangles_by_plane); the oracle evaluates the
bookkeeping clauses on the real function's arrays: dtypes, index validity, no orphan vertices, one source per face lying
in the source's plane, idempotence, complementarity with the flipped plane, independence of face order and vertex
numbering, empty results."""
import random
from fractions import Fraction

import numpy as np

from props import slicer_common as sc
from props.slicer_common import Fv, vcross, vdot, vsub

ID = "C02"
TARGETS = ["PW.Props.C02", "PW.Props.C02Area"]
RULE = sc.__doc__.split("\n")[0] + " Inputs as for C01 (pattern / lattice / float / empty streams); additionally every mesh is " \
    "re-sliced (idempotence), sliced with the flipped plane (complementarity, on meshes whose on-plane vertices are exactly " \
    "on the plane), and sliced after a seeded random face permutation and vertex relabeling; non-trivial = at least one face"
TRUSTED = ["np.bincount / np.cumsum / np.where / fancy indexing modelled as list functions",
           "dtype tags are observed on the real arrays (no theorem speaks about dtypes)"]
ASSUMPTIONS = ["vertices within 1e-3*tol of the +-1e-8 threshold are not generated"]
EXHAUSTIVE = {"quick": False, "thorough": False}
extra_coverage = sc.extra_coverage
gen = sc.gen_specs


def make(spec):
    spec = dict(spec)
    spec.setdefault("kernel_faces", 3)
    return sc.make_cases(spec, oracle)


def tris_of(v, f, m, q):
    return sorted(sc.tri_key(m[k] if m is not None else 0, [v[i] for i in f[k]], q) for k in range(len(f)))


def same_tris(a, b):
    return len(a) == len(b) and all(x[0] == y[0] and all(abs(p - r) <= 2 for p, r in zip(x[1:], y[1:])) for x, y in zip(a, b))


def area2(v, f):
    t = v[f]
    return float(np.sum(np.linalg.norm(np.cross(t[:, 1] - t[:, 0], t[:, 2] - t[:, 0]), axis=1))) if len(f) else 0.0


def oracle(spec, res):
    out = {}

    def bad(key, msg):
        out.setdefault(key, msg)

    V, F, o, n, mask = sc.arrays(spec)
    valid = len(F) == 0 or (len(V) and F.max() < len(V))
    if not valid:
        return []
    try:
        v2, f2, m2 = sc.slice_impl(V, F, o, n, mask)
    except Exception as e:  # noqa: BLE001
        return [("no-exception", "slice_triangles_by_plane raised %s on a valid mesh" % type(e).__name__)]
    scale = max(float(np.max(np.abs(V))) if len(V) else 0.0, float(np.max(np.abs(o))), 1e-300)
    rtol = spec.get("rtol", 1e-9)
    q = scale * rtol * 4
    # well-formed indexed mesh
    if v2.dtype != np.float64 or v2.ndim != 2 or v2.shape[1] != 3:
        bad("dtype/vertices", "vertices are %s %s" % (v2.dtype, v2.shape))
    if f2.dtype != np.int64 or f2.ndim != 2 or f2.shape[1] != 3:
        bad("dtype/faces", "faces are %s %s" % (f2.dtype, f2.shape))
    if np.asarray(m2).dtype != np.int64 or np.asarray(m2).shape != (len(f2),):
        bad("dtype/mapping", "face_mapping is %s %s for %d faces" % (np.asarray(m2).dtype, np.asarray(m2).shape, len(f2)))
        return list(out.items())
    if len(f2) and (f2.min() < 0 or f2.max() >= len(v2)):
        bad("indices/valid", "a face indexes vertex %d of %d" % (int(f2.max()), len(v2)))
        return list(out.items())
    if len(V) and len(set(f2.ravel().tolist())) != len(v2):
        bad("no-orphans", "%d returned vertices, %d used by faces" % (len(v2), len(set(f2.ravel().tolist()))))
    if len(m2) and (min(m2) < 0 or max(m2) >= len(F)):
        bad("mapping/range", "face_mapping entry out of range")
        return list(out.items())
    if not np.isfinite(v2).all():
        bad("finite", "non-finite output vertex")
    # provenance: each output face lies in the plane of its source face
    for k in range(len(f2)):
        P = [Fv(V[i]) for i in F[m2[k]]]
        N = vcross(vsub(P[1], P[0]), vsub(P[2], P[0]))
        NN = vdot(N, N)
        if NN == 0:
            continue
        for i in f2[k]:
            r = vsub(Fv(v2[i]), P[0])
            if vdot(r, N) ** 2 > NN * (Fraction(scale) * Fraction(rtol * 100)) ** 2:
                bad("mapping/in-plane", "output face %d is not in the plane of its source face %d" % (k, m2[k]))
    if len(F) == 0 or len(V) == 0:
        if len(F) == 0 and (v2.shape[1:] != (3,) or f2.shape != (0, 3)):
            bad("empty/shape", "empty input gives shapes %s %s" % (v2.shape, f2.shape))
        return list(out.items())
    if len(f2) == 0 and (v2.shape != (0, 3) or f2.shape != (0, 3)):
        bad("empty/shape", "nothing kept but shapes are %s %s" % (v2.shape, f2.shape))
    base = tris_of(v2, f2, m2, q)
    # idempotent: slicing the result again with the same plane returns the same set of triangles.
    # The new vertices lie on the plane only up to rounding: their recomputed offsets are of order
    # eps * |n| * (size of the coordinates).  When that is not clearly below the 1e-8 merge tolerance the
    # classification of those vertices in the second slice is not determined (the exclusion the property makes for
    # vertices within rounding error of the threshold), so idempotence is only judged below that scale.
    rho = 64 * 2.0 ** -52 * float(np.linalg.norm(n)) * max(float(np.max(np.abs(V))), float(np.max(np.abs(o))))
    if len(f2) and rho < sc.TOL / 4:
        # (faces descended from unselected faces stay unselected)
        mask2 = None if mask is None else np.array([bool(mask[s_]) for s_ in m2], dtype=bool)
        v3, f3, m3 = sc.slice_impl(v2, f2, o, n, mask2)
        a = tris_of(v2, f2, None, q)
        b = tris_of(v3, f3, None, q)
        if not same_tris(a, b):
            bad("idempotent", "re-slicing the result changes it: %d -> %d triangles" % (len(f2), len(f3)))
    # independent of face order and vertex numbering
    rng = random.Random(spec.get("permseed", 12345) + len(F) * 7 + len(V))
    fp = list(range(len(F)))
    rng.shuffle(fp)
    vp = list(range(len(V)))
    rng.shuffle(vp)                      # new index of old vertex i is vp[i]
    Vn = np.zeros_like(V)
    for i in range(len(V)):
        Vn[vp[i]] = V[i]
    Fn = np.array(np.reshape([[vp[i] for i in F[fp[k]]] for k in range(len(F))], (-1, 3)), dtype=np.int64)
    maskn = None if mask is None else np.array([mask[fp[k]] for k in range(len(F))], dtype=bool)
    try:
        v4, f4, m4 = sc.slice_impl(Vn, Fn, o, n, maskn)
        perm = tris_of(v4, f4, [fp[s] for s in m4], q)
        if not same_tris(base, perm):
            bad("permutation", "result depends on face order / vertex numbering (%d vs %d triangles)" % (len(base), len(perm)))
    except Exception as e:  # noqa: BLE001
        bad("permutation", "permuted mesh raised %s" % type(e).__name__)
    # complementary (full slice only, on-plane vertices exactly on the plane)
    if mask is None:
        d = [vdot(Fv(n), vsub(Fv(p), Fv(o))) for p in V]
        tol = Fraction(sc.TOL)
        if all(x == 0 or abs(x) > tol for x in d):
            vb, fb, mb = sc.slice_impl(V, F, o, -n, None)
            inplane = [k for k, f in enumerate(F) if all(d[i] == 0 for i in f)]
            tot = area2(V, F) + area2(V, F[inplane] if inplane else np.zeros((0, 3), dtype=np.int64))
            got = area2(v2, f2) + area2(vb, fb)
            # (areas are computed in floating point here: allow 1e-6 relative plus rounding noise of degenerate faces)
            if abs(tot - got) > 1e-6 * tot + 1e-9 * scale * scale:
                bad("complementary", "area in front %.9g + behind %.9g != input %.9g (+ in-plane faces)" % (area2(v2, f2), area2(vb, fb), tot))
    return list(out.items())
