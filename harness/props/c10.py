"""C10 — Rodrigues conversions produce the stated rotation and invert each other.

Correspondence (mode "float": Lean's Float sin/cos/acos/sqrt are the C library's, like NumPy's): the three public
functions against the Lean model PW.Model.Rodrigues.  The model's SVD projection is a parameter: the harness
computes u·v with NumPy exactly as the code does and passes it as data; the contract "identity on proper rotations"
is checked by the oracle (residual |u·v − R|).
Oracle: the clauses of C10 on the implementation's own outputs (orthogonality, det, axis fixed, right-handed angle,
round trips, length ≤ π, 3×1 shape, Jacobians vs central differences, J_fwd·J_inv = I₃ — in the snap zone too: the
half-turn snap branch returns a zero inverse Jacobian, key jacobian/composition/snap-branch, a listed known finding).
"""
import math
import random
from fractions import Fraction

import numpy as np

from pwlib.share import shcopy

from pwlib.canon import flat
from pwlib.engine import Case
from pwlib.proto import Line

ID = "C10"
TARGETS = ["PW.Props.C10", "PW.Props.C10Deriv", "PW.Props.C10Euler"]
RULE = ("rotation vectors: zero, tiny below/above eps=2^-52, integer lattice, random |r|<pi, pi-10^-k and pi+10^-k (k=1..12), "
        "beyond pi, many turns (|r| up to 1e4), each as (3,), (3,1) or (1,3) (and (1,1,3)), calculate_jacobian on/off, called "
        "directly or through cv2_rodrigues; matrices: exact rational rotations from integer quaternions, half-turns about all 26 "
        "lattice directions and random (also axis-plane) axes, rot(k, 10^-j) and rot(k, pi-10^-j) (j=1..12, away from the sin=1e-5 "
        "switch), rot(k, pi-d) with d in [1e-9, 9e-6] about axes with one or two small components (1e-9..1e-2, as matrices and as "
        "rotation vectors; corpus: the three axes (+-x,+-y,+-x), x=0.002, at pi-9e-6 that broke the snap bound before fix 9da4f71), "
        "random rotations, a few non-rotation matrices (model is total; no oracle); malformed shapes for the three functions. "
        "Non-trivial = everything except the malformed stream; distinct = distinct spec")
TRUSTED = ["np.linalg.svd projection u·v is a parameter of the model with contract 'identity on proper rotations'; the harness passes "
           "NumPy's actual u·v as data and the oracle checks the residual |u·v - R| <= 1e-14 on proper rotations",
           "np.linalg.norm modelled as sqrt(x*x+y*y+z*z); np.clip as min(max(.)); np.cos/np.sin/np.arccos as the C library's (Lean Float)",
           "IEEE rounding not modelled: numeric outputs compared with rtol 1e-9 (both sides see the same projected matrix bits)",
           "r.flatten()/vg.shape.check_value modelled as element-count / shape tests",
           "Euler's rotation theorem (every proper rotation is rot(k, theta), 0 <= theta <= pi) is not proved in Lean; the inverse "
           "theorems are stated on matrices given in axis-angle form"]
ASSUMPTIONS = ["inputs keep a relative margin >= 1e-3 from the branch thresholds theta = eps and sin(theta) = 1e-5 (the property "
               "excludes inputs within rounding error of a threshold)",
               "the snap bound 2.5e-5 is proved over the reals (snap_bound_holds; exact arithmetic, SVD projection = identity on "
               "rotations) and measured in floating point by the oracle (sweeps theta = 10^-k, pi - 10^-k, small-component axes); "
               "'Jacobian = derivative' is not proved (partial): central differences"]
EXHAUSTIVE = {"quick": False, "thorough": False}

EPS = float(np.finfo(np.double).eps)
PI = math.pi
LATTICE_DIRS = [[x, y, z] for x in (-1, 0, 1) for y in (-1, 0, 1) for z in (-1, 0, 1) if (x, y, z) != (0, 0, 0)]


# ---------------------------------------------------------------------------------------------------
# independent helpers (never polliwog's)

def own_rot(k, theta):
    """rotation about the unit axis k by theta, independent of the code under test"""
    k = np.asarray(k, dtype=np.float64)
    c, s = math.cos(theta), math.sin(theta)
    kx = np.array([[0.0, -k[2], k[1]], [k[2], 0.0, -k[0]], [-k[1], k[0], 0.0]])
    return c * np.eye(3) + (1.0 - c) * np.outer(k, k) + s * kx


def quat_matrix(q):
    """exact rational rotation of the integer quaternion (a,b,c,d), rounded entrywise to doubles"""
    a, b, c, d = [Fraction(int(x)) for x in q]
    n = a * a + b * b + c * c + d * d
    m = [[a * a + b * b - c * c - d * d, 2 * (b * c - a * d), 2 * (b * d + a * c)],
         [2 * (b * c + a * d), a * a - b * b + c * c - d * d, 2 * (c * d - a * b)],
         [2 * (b * d - a * c), 2 * (c * d + a * b), a * a - b * b - c * c + d * d]]
    return np.array([[float(x / n) for x in row] for row in m], dtype=np.float64)


def unit_of(v):
    v = np.asarray(v, dtype=np.float64)
    return v / math.sqrt(float(v[0]) ** 2 + float(v[1]) ** 2 + float(v[2]) ** 2)


def rand_unit(rng):
    while True:
        v = [rng.gauss(0, 1) for _ in range(3)]
        n = math.sqrt(sum(x * x for x in v))
        if n > 1e-3:
            return [x / n for x in v]


def small_axis(rng):
    """a unit axis with one or two small components (1e-9..1e-2, either sign): just short of a half-turn the entries
    r[i,j] = (1-c) k_i k_j -/+ s k_l then have the s-term outweigh the product of two small components"""
    k = [rng.choice([-1.0, 1.0]) * rng.uniform(0.2, 1.0) for _ in range(3)]
    idx = rng.sample(range(3), rng.choice([1, 2, 2]))
    m = 10.0 ** rng.uniform(-9, -2)
    for n, i in enumerate(idx):
        # two small components: of the same order (ratio 0.1..10) half of the time, independent otherwise
        mi = m * 10.0 ** rng.uniform(-1, 1) if (n == 1 and rng.random() < 0.5) else (m if n == 0 else 10.0 ** rng.uniform(-9, -2))
        k[i] = rng.choice([-1.0, 1.0]) * min(mi, 1e-2)
    return unit_of(k).tolist()


def near_pi_delta(rng):
    """pi - theta in [1e-9, 9e-6]: inside the snap zone, at least 1e-6 away from the sin = 1e-5 switch"""
    return min(10.0 ** rng.uniform(-9, -5), 9e-6)


def svd_proj(R):
    u, _, v = np.linalg.svd(R)
    return np.dot(u, v)


def branch_of_matrix(R):
    """(branch, margin_ok) of the inverse on R, computed like the code does (for class labels and margins only)"""
    P = svd_proj(R)
    rx, ry, rz = P[2, 1] - P[1, 2], P[0, 2] - P[2, 0], P[1, 0] - P[0, 1]
    s = math.sqrt(rx * rx + ry * ry + rz * rz) * 0.5
    c = min(max((P[0, 0] + P[1, 1] + P[2, 2] - 1) * 0.5, -1.0), 1.0)
    if not (math.isfinite(s) and math.isfinite(c)):
        return "nan", False
    if s < 1e-5:
        if abs(s - 1e-5) < 1e-8:
            return "snap", False
        if abs(c) < 0.1:
            return "snap", False
        return ("snap-zero" if c > 0 else "snap-half"), True
    return "main", abs(s - 1e-5) >= 1e-8


# ---------------------------------------------------------------------------------------------------
# generators

def gen_vec(rng, kind):
    if kind == "zero":
        return [0.0, 0.0, 0.0]
    if kind == "negzero":
        return [-0.0, 0.0, -0.0]
    k = rand_unit(rng)
    if kind == "tiny-below":
        m = rng.choice([1e-300, 1e-100, 1e-20, 1e-17, 5e-17, 1e-16, 1.5e-16])
    elif kind == "tiny-above":
        m = rng.choice([3.5e-16, 5e-16, 1e-15, 1e-12, 1e-9, 1e-8, 1e-7, 1e-6, 1e-5, 1e-4])
    elif kind == "random":
        m = rng.uniform(1e-3, PI - 1e-3)
    elif kind == "near-pi-below":
        m = PI - 10.0 ** (-rng.randint(1, 12))
    elif kind == "near-pi-above":
        m = PI + 10.0 ** (-rng.randint(1, 12))
    elif kind == "near-pi-small-axis":
        k = small_axis(rng)
        m = PI - near_pi_delta(rng)
    elif kind == "pi":
        m = PI
    elif kind == "beyond":
        m = rng.uniform(PI, 4 * PI)
    elif kind == "turns":
        m = 10.0 ** rng.uniform(1.2, 4)
    elif kind == "axis":
        k = rng.choice([[1.0, 0, 0], [0, 1.0, 0], [0, 0, 1.0], [-1.0, 0, 0], [0, -1.0, 0], [0, 0, -1.0], [0.6, 0.8, 0.0], [0.0, -0.6, 0.8]])
        m = rng.choice([0.5, 1.0, PI / 2, 2.0, 3.0])
    elif kind == "lattice":
        while True:
            v = [float(rng.randint(-3, 3)) for _ in range(3)]
            if any(v):
                return v
    else:
        raise ValueError(kind)
    return [float(x * m) for x in k]


VEC_KINDS = ["zero", "negzero", "tiny-below", "tiny-above", "random", "random", "random", "near-pi-below", "near-pi-above",
             "pi", "beyond", "turns", "axis", "lattice", "near-pi-small-axis"]
SHAPES = [[3], [3, 1], [1, 3]]


def gen_matrix_spec(rng, kind):
    if kind == "quat":
        while True:
            q = [rng.randint(-4, 4) for _ in range(4)]
            if any(q):
                break
        return {"m": "quat", "q": q}
    if kind == "quat-big":
        while True:
            q = [rng.randint(-40, 40) for _ in range(4)]
            if any(q):
                break
        return {"m": "quat", "q": q}
    if kind == "half-lattice":
        return {"m": "quat", "q": [0] + rng.choice(LATTICE_DIRS)}
    if kind == "half-int":
        while True:
            q = [0] + [rng.randint(-30, 30) for _ in range(3)]
            if rng.random() < 0.4:
                q[1 + rng.randrange(3)] = 0
            if any(q):
                break
        return {"m": "quat", "q": q}
    if kind == "half-float":
        k = rand_unit(rng)
        if rng.random() < 0.5:
            k[rng.randrange(3)] = 0.0
            k = unit_of(k).tolist()
        return {"m": "axis-angle", "k": k, "theta": PI}
    if kind == "identity":
        return {"m": "quat", "q": [rng.choice([1, -1, 2, 7]), 0, 0, 0]}
    if kind == "near-identity":
        j = rng.randint(1, 12)
        th = 10.0 ** (-j)
        if j == 5:
            th = rng.choice([2e-5, 0.5e-5])
        return {"m": "axis-angle", "k": rand_unit(rng), "theta": th}
    if kind == "near-pi":
        j = rng.randint(1, 12)
        d = 10.0 ** (-j)
        if j == 5:
            d = rng.choice([2e-5, 0.5e-5])
        k = rand_unit(rng)
        if rng.random() < 0.3:
            k[rng.randrange(3)] = 0.0
            k = unit_of(k).tolist()
        return {"m": "axis-angle", "k": k, "theta": PI - d}
    if kind == "near-pi-small-axis":
        return {"m": "axis-angle", "k": small_axis(rng), "theta": PI - near_pi_delta(rng)}
    if kind == "random":
        return {"m": "axis-angle", "k": rand_unit(rng), "theta": rng.uniform(1e-3, PI - 1e-3)}
    if kind == "nonrot":
        r = rng.random()
        if r < 0.5:
            M = [[rng.uniform(-2, 2) for _ in range(3)] for _ in range(3)]
        elif r < 0.8:  # scaled / sheared rotation
            R = own_rot(rand_unit(rng), rng.uniform(0.1, 3.0))
            M = (rng.uniform(0.2, 5.0) * R + 0.05 * np.array([[rng.uniform(-1, 1) for _ in range(3)] for _ in range(3)])).tolist()
        else:  # improper / degenerate, decided branches only
            M = rng.choice([[[-1.0, 0, 0], [0, -1.0, 0], [0, 0, -1.0]],
                            [[2.0, 0, 0], [0, 3.0, 0], [0, 0, 0.5]],
                            [[0.0, 1, 0], [1, 0, 0], [0, 0, -1.0]],
                            [[1.0, 0, 0], [0, -1.0, 0], [0, 0, -1.0]]])
        return {"m": "raw", "M": M}
    raise ValueError(kind)


MAT_KINDS = ["quat", "quat", "quat-big", "half-int", "half-float", "half-float", "identity", "near-identity", "near-identity",
             "near-pi", "near-pi", "random", "random", "random", "nonrot", "near-pi-small-axis", "near-pi-small-axis",
             "near-pi-small-axis"]


def matrix_of(ms):
    if ms["m"] == "quat":
        return quat_matrix(ms["q"])
    if ms["m"] == "axis-angle":
        return own_rot(ms["k"], ms["theta"])
    if ms["m"] == "fwd-of":   # the library's own forward conversion of a rotation vector (round-trip corpus cases)
        from polliwog.transform import rodrigues_vector_to_rotation_matrix
        return np.array(rodrigues_vector_to_rotation_matrix(np.array(ms["r"], dtype=np.float64)), dtype=np.float64)
    return np.array(ms["M"], dtype=np.float64)


BAD_SHAPES = [[4], [2], [0], [], [1], [2, 3], [3, 2], [4, 4], [3, 3, 1], [1, 3, 3], [9], [3, 4], [1, 1, 3], [3, 1, 1], [1, 3, 1], [2, 2]]


def gen(rng, tier):
    nv = 7000 if tier == "quick" else 120000
    nm = 3500 if tier == "quick" else 60000
    # every lattice half-turn, every zero/shape/jac combination: always
    for d in LATTICE_DIRS:
        for jac in (False, True):
            yield {"op": "inv", "stream": "half-lattice", "mat": {"m": "quat", "q": [0] + d}, "jac": jac,
                   "via": "direct" if jac else "cv2"}
    for sh in SHAPES:
        for jac in (False, True):
            for via in ("direct", "cv2"):
                yield {"op": "fwd", "stream": "zero", "r": [0.0, 0.0, 0.0], "shape": sh, "jac": jac, "via": via}
    # near-0 / near-pi sweeps (both directions), fixed axes and a random one
    for j in range(1, 13):
        for k in ([0.0, 0.6, 0.8], [1.0, 0.0, 0.0], rand_unit(rng)):
            for base, sgn in ((0.0, 1), (PI, -1), (PI, 1)):
                th = base + sgn * 10.0 ** (-j)
                yield {"op": "fwd", "stream": "sweep", "r": [x * th for x in k], "shape": [3], "jac": True, "via": "direct"}
            for th in (10.0 ** (-j), PI - 10.0 ** (-j)):
                if j == 5:
                    continue
                yield {"op": "inv", "stream": "sweep", "mat": {"m": "axis-angle", "k": k, "theta": th}, "jac": True, "via": "direct"}
    for i in range(nv):
        kind = VEC_KINDS[i % len(VEC_KINDS)]
        sh = rng.choice(SHAPES) if rng.random() < 0.97 else [1, 1, 3]
        yield {"op": "fwd", "stream": kind, "r": gen_vec(rng, kind), "shape": sh, "jac": rng.random() < 0.5,
               "via": rng.choice(["direct", "cv2"])}
    n_done = 0
    i = 0
    while n_done < nm:
        kind = MAT_KINDS[i % len(MAT_KINDS)]
        i += 1
        ms = gen_matrix_spec(rng, kind)
        R = matrix_of(ms)
        br, ok = branch_of_matrix(R)
        if not ok:
            continue  # within rounding error of a branch threshold (or not finite): outside the property's domain
        n_done += 1
        yield {"op": "inv", "stream": kind, "mat": ms, "jac": rng.random() < 0.5, "via": rng.choice(["direct", "cv2"])}
    for sh in BAD_SHAPES:
        for fn in ("fwd", "inv", "cv2"):
            yield {"op": "bad", "stream": "malformed", "shape": sh, "fn": fn, "jac": rng.random() < 0.5,
                   "fill": rng.uniform(-1, 1)}


# ---------------------------------------------------------------------------------------------------
# adapters

def arr_line(op, jac, arr):
    return Line(op).b(jac).ints(arr.shape).i(arr.size).vec(arr)


def canon_fwd(res, jac):
    if jac:
        R, J = res
        return [int(x) for x in R.shape] + flat(R) + [int(x) for x in J.shape] + flat(J)
    return [int(x) for x in res.shape] + flat(res)


def canon_cv2(res, jac):
    first = res[0] if jac else res
    tag = "mat" if first.shape == (3, 3) else ("vec" if first.shape == (3, 1) else "shape%s" % (first.shape,))
    return [tag] + canon_fwd(res, jac)


def make(spec):
    from polliwog.transform import (cv2_rodrigues, rodrigues_vector_to_rotation_matrix,
                                    rotation_matrix_to_rodrigues_vector)
    jac = bool(spec["jac"])
    # both spellings of the documented signature `f(r, calculate_jacobian=False)`: by keyword, and (for every other spec, by a
    # hash of the spec so that it replays) by position
    import zlib
    if zlib.crc32(repr(sorted(spec.items(), key=lambda kv: kv[0])).encode()) % 2:
        cv2_rodrigues, rodrigues_vector_to_rotation_matrix, rotation_matrix_to_rodrigues_vector = [
            (lambda f: (lambda a, calculate_jacobian=False: f(a, calculate_jacobian)))(f)
            for f in (cv2_rodrigues, rodrigues_vector_to_rotation_matrix, rotation_matrix_to_rodrigues_vector)]
    # and, for every fourth spec, the argument as a float32 array when every entry is exactly representable in single
    # precision (half-integers, 0 / +-1 matrices): the same numbers; the documented result is a float64 computation
    h32 = zlib.crc32(repr(sorted(spec.items(), key=lambda kv: kv[0])).encode() + b"32") % 4 == 0

    def arg(a):
        b = shcopy(a)
        if h32 and isinstance(b, np.ndarray) and b.dtype == np.float64 and b.size and \
                np.array_equal(b.astype(np.float32).astype(np.float64), b):
            return b.astype(np.float32)
        return b
    if spec["op"] == "fwd":
        arr = np.array(np.reshape(spec["r"], spec["shape"]), dtype=np.float64)
        th = math.sqrt(sum(Fraction(float(x)) ** 2 for x in spec["r"]))
        if th != 0 and abs(th - EPS) < 1e-3 * EPS:
            return None
        if spec["via"] == "cv2":
            line = arr_line("rod.cv2", jac, arr).vec(np.eye(3))
            impl = lambda: canon_cv2(cv2_rodrigues(arg(arr), calculate_jacobian=jac), jac)
        else:
            line = arr_line("rod.fwd", jac, arr)
            impl = lambda: canon_fwd(rodrigues_vector_to_rotation_matrix(arg(arr), calculate_jacobian=jac), jac)
        klass = "fwd/%s/%s/%s/%s" % (spec["stream"], "x".join(map(str, spec["shape"])), "jac" if jac else "nojac", spec["via"])
        c = Case(spec, line, impl, mode="float", klass=klass, scale=1.0)
        c.oracle = lambda _r: oracle_fwd(np.array(spec["r"], dtype=np.float64), spec["shape"])
        return c
    if spec["op"] == "inv":
        R = matrix_of(spec["mat"])
        P = svd_proj(R)
        br, _ok = branch_of_matrix(R)
        if spec["via"] == "cv2":
            line = arr_line("rod.cv2", jac, R).vec(P)
            impl = lambda: canon_cv2(cv2_rodrigues(arg(R), calculate_jacobian=jac), jac)
        else:
            line = arr_line("rod.inv", jac, R).vec(P)
            impl = lambda: canon_fwd(rotation_matrix_to_rodrigues_vector(arg(R), calculate_jacobian=jac), jac)
        klass = "inv/%s/%s/%s/%s" % (spec["stream"], br, "jac" if jac else "nojac", spec["via"])
        c = Case(spec, line, impl, mode="float", klass=klass, scale=1.0)
        if spec["mat"]["m"] != "raw" or spec["mat"].get("rotation"):
            c.oracle = lambda _r: oracle_inv(R, spec["mat"])
        return c
    if spec["op"] == "bad":
        arr = np.full(spec["shape"], spec["fill"], dtype=np.float64)
        fn = {"fwd": rodrigues_vector_to_rotation_matrix, "inv": rotation_matrix_to_rodrigues_vector, "cv2": cv2_rodrigues}[spec["fn"]]
        op = {"fwd": "rod.fwd", "inv": "rod.inv", "cv2": "rod.cv2"}[spec["fn"]]
        line = arr_line(op, jac, arr)
        if spec["fn"] != "fwd":
            line = line.vec(np.eye(3))
        if spec["fn"] == "cv2":
            impl = lambda: canon_cv2(fn(arg(arr), calculate_jacobian=jac), jac)
        else:
            impl = lambda: canon_fwd(fn(arg(arr), calculate_jacobian=jac), jac)
        c = Case(spec, line, impl, mode="float", klass="bad/%s/%s" % (spec["fn"], "x".join(map(str, spec["shape"])) or "scalar"),
                 trivial=True, scale=1.0)
        c.oracle = lambda r: oracle_bad(spec, r)
        return c
    raise ValueError(spec["op"])


# ---------------------------------------------------------------------------------------------------
# property oracle

def dedupe(out):
    seen = {}
    for k, m in out:
        seen.setdefault(k, m)
    return list(seen.items())


def perp_unit(k):
    a = np.array([1.0, 0, 0]) if abs(k[0]) < 0.6 else np.array([0, 1.0, 0])
    v = np.cross(k, a)
    return v / np.linalg.norm(v)


def oracle_fwd(r, shape):
    try:
        return _oracle_fwd(r, shape)
    except Exception as e:  # the implementation raised on a valid rotation vector: a violation, not a harness crash
        return [("fwd/raises", "r=%r shape=%s: %s: %s" % (r.tolist(), tuple(shape), type(e).__name__, e))]


def _oracle_fwd(r, shape):
    from polliwog.transform import (cv2_rodrigues, rodrigues_vector_to_rotation_matrix,
                                    rotation_matrix_to_rodrigues_vector)
    out = []
    arr = r.reshape(shape)
    R, J = rodrigues_vector_to_rotation_matrix(shcopy(arr), calculate_jacobian=True)
    R0 = rodrigues_vector_to_rotation_matrix(shcopy(arr))
    Rc = cv2_rodrigues(shcopy(arr))
    desc = "r=%r shape=%s" % (r.tolist(), tuple(shape))
    if R.shape != (3, 3) or J.shape != (3, 9):
        return [("fwd/shape", "%s: result shapes %s %s" % (desc, R.shape, J.shape))]
    if not (np.array_equal(R, R0) and np.array_equal(R, Rc)):
        out.append(("fwd/flag-independent", "%s: matrix differs between calculate_jacobian on/off or via cv2_rodrigues" % desc))
    theta = math.sqrt(float(sum(Fraction(float(x)) ** 2 for x in r)))
    tol = 1e-13 * max(1.0, theta)
    e = float(np.abs(R.T @ R - np.eye(3)).max())
    if not e <= 1e-14:
        out.append(("fwd/orthogonal", "%s: |R^T R - I| = %g" % (desc, e)))
    d = float(np.linalg.det(R))
    if not abs(d - 1.0) <= 1e-14:
        out.append(("fwd/det", "%s: det = %r" % (desc, d)))
    if theta == 0.0:
        if not np.array_equal(R, np.eye(3)):
            out.append(("fwd/zero-identity", "%s: r = 0 does not give the identity" % desc))
    else:
        k = r / theta
        if theta > 1e-300:
            e = float(np.abs(R @ k - k).max())
            if not e <= 1e-15 + tol:
                out.append(("fwd/axis-fixed", "%s: |R k - k| = %g" % (desc, e)))
            v = perp_unit(k)
            want = math.cos(theta) * v + math.sin(theta) * np.cross(k, v)
            e = float(np.abs(R @ v - want).max())
            if not e <= 1e-15 + tol:
                out.append(("fwd/angle-right-handed", "%s: R v differs from cos|r| v + sin|r| k x v by %g" % (desc, e)))
        # round trip vec -> mat -> vec for |r| < pi
        if theta < PI:
            w = rotation_matrix_to_rodrigues_vector(R)
            if w.shape != (3, 1):
                out.append(("inv/shape", "%s: round-trip vector has shape %s" % (desc, w.shape)))
            else:
                s = abs(math.sin(theta))
                e = float(np.abs(w.ravel() - r).max())
                if s >= 1.001e-5:
                    if not e <= 1e-14 / s + 1e-15:
                        out.append(("roundtrip/vec-mat-vec", "%s: vec->mat->vec differs by %g (sin = %g)" % (desc, e, s)))
                else:
                    # snap zone: the matrix must be reproduced to 2.5e-5 (near pi the vector may come back as -r)
                    e2 = float(np.abs(rodrigues_vector_to_rotation_matrix(w) - R).max())
                    if not e2 <= 2.5e-5:
                        out.append(("roundtrip/snap-bound", "%s: snapped vector maps back with error %g > 2.5e-5" % (desc, e2)))
                    if theta < 1.0 and not e <= 2.5e-5:
                        out.append(("roundtrip/snap-bound-vec", "%s: vec->mat->vec differs by %g > 2.5e-5" % (desc, e)))
    # Jacobian = derivative (central differences)
    h = 1e-6 * max(1.0, theta)
    fd = np.zeros((3, 9))
    for i in range(3):
        dp = r.copy(); dp[i] += h
        dm = r.copy(); dm[i] -= h
        fd[i] = (rodrigues_vector_to_rotation_matrix(dp) - rodrigues_vector_to_rotation_matrix(dm)).ravel() / (dp[i] - dm[i])
    e = float(np.abs(J - fd).max())
    if not e <= 2e-8 * max(1.0, theta):
        out.append(("fwd/jacobian-derivative", "%s: |J - central difference| = %g" % (desc, e)))
    return dedupe(out)


def oracle_inv(R, ms):
    try:
        return _oracle_inv(R, ms)
    except Exception as e:  # the implementation raised on a proper rotation matrix
        return [("inv/raises", "R=%r: %s: %s" % (R.tolist(), type(e).__name__, e))]


def _oracle_inv(R, ms):
    from polliwog.transform import (cv2_rodrigues, rodrigues_vector_to_rotation_matrix,
                                    rotation_matrix_to_rodrigues_vector)
    out = []
    desc = "R=%r (%s)" % (R.tolist(), {k: v for k, v in ms.items() if k != "M"})
    P = svd_proj(R)
    # the input is a proper rotation up to rounding; contract of the SVD projection
    ortho = float(np.abs(R.T @ R - np.eye(3)).max())
    if ortho > 1e-13:
        return []
    e = float(np.abs(P - R).max())
    if not e <= 1e-13:
        out.append(("svd/contract", "%s: |u.v - R| = %g on a proper rotation" % (desc, e)))
    w, J = rotation_matrix_to_rodrigues_vector(shcopy(R), calculate_jacobian=True)
    w0 = rotation_matrix_to_rodrigues_vector(shcopy(R))
    wc = cv2_rodrigues(shcopy(R))
    if w.shape != (3, 1) or J.shape != (9, 3):
        return [("inv/shape", "%s: result shapes %s %s" % (desc, w.shape, J.shape))]
    if not (np.array_equal(w, w0, equal_nan=True) and np.array_equal(w, wc, equal_nan=True)):
        out.append(("inv/flag-independent", "%s: vector differs between calculate_jacobian on/off or via cv2_rodrigues" % desc))
    if not np.isfinite(w).all():
        return out + [("inv/finite", "%s: result %s" % (desc, w.ravel().tolist()))]
    n = float(np.linalg.norm(w))
    if not n <= PI * (1 + 4e-16):
        out.append(("inv/length-le-pi", "%s: |w| = %r > pi" % (desc, n)))
    # true angle from the (exact) generator
    rx, ry, rz = R[2, 1] - R[1, 2], R[0, 2] - R[2, 0], R[1, 0] - R[0, 1]
    s = math.sqrt(rx * rx + ry * ry + rz * rz) * 0.5
    back = rodrigues_vector_to_rotation_matrix(w)
    e = float(np.abs(back - R).max())
    snap = s < 1.001e-5
    if snap:
        if not e <= 2.5e-5:
            out.append(("roundtrip/snap-bound", "%s: mat->vec->mat error %g > 2.5e-5 in the snap zone" % (desc, e)))
        exact = ms["m"] == "quat" and (ms["q"][0] == 0 or not any(ms["q"][1:]))
        if exact and not e <= 1e-7:
            out.append(("roundtrip/half-turn", "%s: exact half-turn / identity maps back with error %g" % (desc, e)))
    else:
        if not e <= 1e-14 / s + 1e-14:
            out.append(("roundtrip/mat-vec-mat", "%s: mat->vec->mat error %g (sin = %g)" % (desc, e, s)))
    if ms["m"] == "quat" and ms["q"][0] == 0:
        # half-turn about k: w w^T = pi^2 k k^T
        k = unit_of(ms["q"][1:])
        e = float(np.abs(np.outer(w.ravel(), w.ravel()) - PI * PI * np.outer(k, k)).max())
        if not e <= 1e-6:
            out.append(("inv/half-turn-axis", "%s: w w^T differs from pi^2 k k^T by %g" % (desc, e)))
    if ms["m"] == "axis-angle" and not snap:
        want = np.array(ms["k"]) * ms["theta"]
        e = float(np.abs(w.ravel() - want).max())
        if not e <= 1e-13 / s + 1e-14:
            out.append(("inv/axis-angle", "%s: result differs from theta*k by %g" % (desc, e)))
    if snap:
        # J_fwd . J_inv = I3 inside the snap zone as well (the clause is not restricted to the main range); the branch the
        # code took is recomputed from the projected matrix exactly as the code does.  In the c > 0 branch the two constant
        # Jacobians are exact inverses; in the c <= 0 (half-turn) branch the code returns an all-zero inverse Jacobian
        Pc = svd_proj(R)
        ax, ay, az = Pc[2, 1] - Pc[1, 2], Pc[0, 2] - Pc[2, 0], Pc[1, 0] - Pc[0, 1]
        s_code = float(np.linalg.norm(np.array([ax, ay, az])) * np.sqrt(0.25))
        c_code = float(np.clip((np.sum(np.diag(Pc)) - 1) * 0.5, -1, 1))
        if s_code < 1e-5:
            _, Jf = rodrigues_vector_to_rotation_matrix(w, calculate_jacobian=True)
            e = float(np.abs(Jf @ J - np.eye(3)).max())
            if not e <= 1e-12:
                key = "jacobian/composition/snap-branch" if c_code <= 0 else "jacobian/composition"
                out.append((key, "%s: |J_fwd J_inv - I3| = %g in the snap branch (c = %r, s = %r)" % (desc, e, c_code, s_code)))
    if not snap:
        # J_fwd . J_inv = I3, and the inverse Jacobian along the three tangent directions of SO(3)
        _, Jf = rodrigues_vector_to_rotation_matrix(w, calculate_jacobian=True)
        e = float(np.abs(Jf @ J - np.eye(3)).max())
        if not e <= 1e-14 / (s * s * s) + 1e-12:   # J_inv has entries ~1/s^2 and w carries rounding ~1e-16/s
            out.append(("jacobian/composition", "%s: |J_fwd J_inv - I3| = %g" % (desc, e)))
        if s >= 1e-3:
            h = 1e-2 * min(1e-3, s)
            for i in range(3):
                ei = np.zeros(3); ei[i] = 1.0
                Rp = own_rot(ei, h) @ R
                Rm = own_rot(ei, -h) @ R
                fd = (rotation_matrix_to_rodrigues_vector(Rp) - rotation_matrix_to_rodrigues_vector(Rm)).ravel() / (2 * h)
                ex = np.array([[0.0, -ei[2], ei[1]], [ei[2], 0.0, -ei[0]], [-ei[1], ei[0], 0.0]])
                an = J.T @ (ex @ R).ravel()      # exact tangent direction d/dh exp(h [e_i]x) R
                e = float(np.abs(an - fd).max())
                if not e <= 1e-14 / (s * h) + 1e-14 / (s * s) + 1e-7:
                    out.append(("inv/jacobian-derivative", "%s: J^T dR differs from the central difference along tangent %d by %g" % (desc, i, e)))
    return dedupe(out)


def oracle_bad(spec, r):
    shape = list(spec["shape"])
    size = int(np.prod(shape)) if shape else 1
    fn = spec["fn"]
    if fn == "cv2":
        accept = size == 3 or shape == [3, 3]
    elif fn == "fwd":
        accept = size == 3
    else:
        accept = shape == [3, 3]
    if accept:
        if r[0] != "ok":
            return [("dispatch/accepts", "%s%s raised %s" % (fn, tuple(shape), r[1]))]
    else:
        if r[0] != "err" or r[1] != "ValueError":
            return [("dispatch/value-error", "%s on shape %s: expected ValueError, got %s" % (fn, tuple(shape), r[:2] if r[0] == "err" else "a value"))]
    return []
