"""C15 — triangle normals, areas, barycentric weights, containment and sampling agree; quads_to_tris and
edges_of_faces keep winding and list every edge once.

Correspondence: polliwog.tri.{surface_normals, surface_area, barycentric_coordinates_of_points,
tri_contains_coplanar_point, sample, edges_of_faces, quads_to_tris} and
polliwog.line.coplanar_points_are_on_same_side_of_line against the Lean model PW.Model.Tri, at exact rationals
(inputs are the doubles the code sees, decoded exactly) and at Float.  For `sample` the harness builds the very
same numpy Generator twice from the spec, reads from the twin the draws the function is going to consume
(`rng.random(n)` then `rng.random((n, 2, 1))`, default generator = `default_rng(1337)`) and hands them to the
model as data.
Oracle: the clauses of C15 evaluated on the implementation's own outputs in exact rational arithmetic.
"""
import math
import random
from fractions import Fraction

import zlib

import numpy as np

from pwlib.share import shcopy

from pwlib import gens
from pwlib.canon import counted, counted_ints, dtype_tag, flat, ints
from pwlib.engine import Case
from pwlib.proto import Line

ID = "C15"
TARGETS = ["PW.Props.C15"]
RULE = ("tri-group specs (k triangles + one query point per triangle, single 3x3 or stacked kx3x3) from two streams: "
        "lattice (integer/dyadic vertices; query points exactly on vertices, edges, inside, outside, off-plane; exactly "
        "degenerate triangles for area / raw normals / the barycentric zero-area guard) and float (size 1e-6..1e6, "
        "centre up to 1e6, thin and well-shaped triangles; unit normals and barycentrics only on well-conditioned ones, "
        "containment only where every weight is farther than 1e-7 from 0); each group runs normals on/off, area, "
        "barycentric, containment and the same-side test. sample specs: lattice or float triangles incl. degenerate ones, "
        "weights None or explicit with zeros, num_samples 0..12, generators: default (None), seeded PCG64/MT19937/Philox/"
        "SFC64/PCG64DXSM with a random number of prior draws, a PCG64 whose state is set so that the first draw is exactly "
        "0.0, and scripted dyadic draws (exact ties r*W = cum_i, u+v = 1, r = 0); malformed arguments. edges/quads specs: "
        "random index arrays, both flags, int64 and other dtypes. A case is non-trivial when it has at least one "
        "triangle / face / sample; distinct = distinct spec")
TRUSTED = ["np.cross / vg.cross / vg.dot / vg.normalize / np.cumsum modelled as cross product, dot product, v/|v|, running sum",
           "np.searchsorted(side='right') on a non-decreasing array = number of leading entries <= x (binary search contract)",
           "np.random.Generator.random: values in [0,1), handed to the model as data (read from a twin generator in the same state); "
           "rng.random((n,2,1)) is filled in C order (u0,v0,u1,v1,...)",
           "IEEE rounding not modelled: numeric outputs compared with rtol 1e-9*scale, discrete outputs exactly"]
ASSUMPTIONS = ["float stream: containment / same-side results are compared only when every discriminant is farther than 1e-7 (relative) from 0; "
               "exact zeros are compared on the lattice stream where the arithmetic is exact",
               "sample, exact model: a case is compared only if no r*W is within 1e-12*W of a cumulative weight and no u+v is within 1e-12 of 1 "
               "unless the arithmetic is exact (integer weights, dyadic scripted draws); the Float model run has no such exclusion",
               "weights are non-negative (cumulative weights non-decreasing) — negative weights are outside the property and not generated",
               "all-zero weights with num_samples>0 raise IndexError in code and model (outside the property's quantifier); generated rarely, compared, not judged by the oracle"]
EXHAUSTIVE = {"quick": False, "thorough": False}

RANDOM_SEED_EXPECTED = 1337   # the property text says "default generator"; the constant is pinned by gen_sample_consts as well

F = Fraction


def fr(x):
    return Fraction(float(x))


def fvec(v):
    return [fr(x) for x in v]


def vsub(a, b):
    return [x - y for x, y in zip(a, b)]


def vadd(a, b):
    return [x + y for x, y in zip(a, b)]


def vscale(c, a):
    return [c * x for x in a]


def vdot(a, b):
    return sum(x * y for x, y in zip(a, b))


def vcross(a, b):
    return [a[1] * b[2] - a[2] * b[1], a[2] * b[0] - a[0] * b[2], a[0] * b[1] - a[1] * b[0]]


def exact_normal(t):
    a, b, c = (fvec(t[0]), fvec(t[1]), fvec(t[2]))
    return vcross(vsub(b, a), vsub(c, a))


def exact_bary(t, p):
    """independent formula: ratios of signed areas w.r.t. the normal (None for a degenerate triangle)"""
    a, b, c = (fvec(t[0]), fvec(t[1]), fvec(t[2]))
    p = fvec(p)
    n = vcross(vsub(b, a), vsub(c, a))
    s = vdot(n, n)
    if s == 0:
        return None
    b0 = vdot(vcross(vsub(b, p), vsub(c, p)), n) / s
    b1 = vdot(vcross(vsub(c, p), vsub(a, p)), n) / s
    b2 = vdot(vcross(vsub(a, p), vsub(b, p)), n) / s
    return [b0, b1, b2]


def seg_dist2(p, a, b):
    ab = vsub(b, a)
    d = vdot(ab, ab)
    if d == 0:
        q = a
    else:
        t = vdot(vsub(p, a), ab) / d
        t = max(F(0), min(F(1), t))
        q = vadd(a, vscale(t, ab))
    w = vsub(p, q)
    return vdot(w, w)


def tri_dist2(t, p):
    """exact squared distance from p to the (possibly degenerate) closed triangle t"""
    a, b, c = (fvec(t[0]), fvec(t[1]), fvec(t[2]))
    p = fvec(p)
    best = min(seg_dist2(p, a, b), seg_dist2(p, b, c), seg_dist2(p, c, a))
    n = vcross(vsub(b, a), vsub(c, a))
    s = vdot(n, n)
    if s != 0:
        h = vdot(vsub(p, a), n)
        q = vsub(p, vscale(h / s, n))
        b0 = vdot(vcross(vsub(b, q), vsub(c, q)), n)
        b1 = vdot(vcross(vsub(c, q), vsub(a, q)), n)
        b2 = vdot(vcross(vsub(a, q), vsub(b, q)), n)
        if b0 >= 0 and b1 >= 0 and b2 >= 0:
            best = min(best, h * h / s)
    return best


def dedupe(out):
    seen = {}
    for k_, m in out:
        seen.setdefault(k_, m)
    return list(seen.items())


# ---------------------------------------------------------------------------------------------------
# generators

def lat_tri(rng, degenerate=False):
    d = rng.choice([1, 1, 2, 4])
    while True:
        r = rng.choice([2, 3, 5])
        t = [gens.lat(rng, r, d) for _ in range(3)]
        if degenerate:
            kind = rng.random()
            if kind < 0.4:
                t[2] = list(t[rng.choice([0, 1])])
            elif kind < 0.5:
                t[1] = list(t[0]); t[2] = list(t[0])
            else:  # collinear, distinct
                m = rng.choice([2, 3, -1])
                t[2] = [t[0][i] + m * (t[1][i] - t[0][i]) for i in range(3)]
        n = exact_normal(t)
        if (vdot(n, n) == 0) == degenerate:
            return t


def float_tri(rng, shape="any"):
    size = gens.scale_of(rng, -6, 6)
    centre = [rng.uniform(-1, 1) * size * 10.0 ** rng.uniform(-2, 4) for _ in range(3)] if rng.random() < 0.7 else [0.0, 0.0, 0.0]
    while True:
        if shape == "thin":
            a = gens.fvec(rng, size)
            d = gens.fvec(rng, size)
            b = [a[i] + d[i] for i in range(3)]
            c = [a[i] + rng.uniform(0.2, 0.8) * d[i] + rng.uniform(-1, 1) * size * 10.0 ** rng.uniform(-7, -3) for i in range(3)]
            t = [a, b, c]
        else:
            t = [gens.fvec(rng, size) for _ in range(3)]
        t = [[float(np.float64(t[j][i]) + np.float64(centre[i])) for i in range(3)] for j in range(3)]
        e1 = np.subtract(t[1], t[0]); e2 = np.subtract(t[2], t[0])
        n = np.cross(e1, e2)
        l = np.linalg.norm(e1) * np.linalg.norm(e2)
        if l == 0:
            continue
        sin = np.linalg.norm(n) / l
        if shape == "good" and sin < 0.1:
            continue
        return t, float(max(np.linalg.norm(e1), np.linalg.norm(e2), np.linalg.norm(np.subtract(t[2], t[1])))), float(sin)


def gen_tri_group(rng, stream):
    k = rng.choice([0, 1, 1, 1, 2, 3, 5, 8])
    single = k == 1 and rng.random() < 0.6
    tris, kinds, pts = [], [], []
    for _ in range(k):
        if stream == "lattice":
            deg = rng.random() < 0.15
            t = lat_tri(rng, deg)
            kinds.append("deg" if deg else "good")
            a, b, c = t
            r = rng.random()
            d = rng.choice([1, 2, 4])
            i, j = rng.randint(-2, 6), rng.randint(-2, 6)
            if r < 0.15:
                p = list(rng.choice(t))                      # a vertex
            elif r < 0.35:
                i = rng.randint(0, d); e = rng.choice([0, 1, 2])   # on an edge (or its extension ends)
                u, v = [(i, 0), (0, i), (i, d - i)][e]
                p = [a[x] + (u * (b[x] - a[x]) + v * (c[x] - a[x])) / d for x in range(3)]
            elif r < 0.85:
                p = [a[x] + (i * (b[x] - a[x]) + j * (c[x] - a[x])) / 4 for x in range(3)]   # coplanar lattice point
            else:
                p = gens.lat(rng, 4, 2)                      # anywhere (off the plane)
            pts.append(p)
        else:
            shape = rng.choice(["good", "good", "any", "thin"])
            if rng.random() < 0.06:
                t, size, sin = float_tri(rng, "good")
                t[2] = list(t[rng.choice([0, 1])])           # exactly degenerate (repeated vertex)
                kinds.append("deg")
            else:
                t, size, sin = float_tri(rng, shape)
                kinds.append("good" if sin >= 0.1 else "thin")
            a, b, c = t
            r = rng.random()
            if r < 0.75:
                al, be = rng.uniform(-0.6, 1.6), rng.uniform(-0.6, 1.6)
                if rng.random() < 0.3:  # close to an edge
                    al = rng.choice([1.0, 0.0, al]) if rng.random() < 0.5 else al
                    be = 10.0 ** rng.uniform(-6, -1) * rng.choice([-1, 1])
                p = [a[x] + al * (b[x] - a[x]) + be * (c[x] - a[x]) for x in range(3)]
            else:
                p = [a[x] + rng.uniform(-3, 3) * size for x in range(3)]
            pts.append(p)
        tris.append(t)
    return {"op": "tri-group", "stream": stream, "k": k, "single": single, "tris": tris, "kinds": kinds, "pts": pts,
            "tvec": gens.lat(rng, 5) if stream == "lattice" else gens.fvec(rng, 1.0)}


BITGENS = ["PCG64", "MT19937", "Philox", "SFC64", "PCG64DXSM"]
# a PCG64 state whose next output has its top 53 bits clear: Generator.random() returns exactly 0.0
PCG_ZERO = {"kind": "pcg-state", "seed": 5, "state": 96613236869953281336066562907301417647}


def dyadic(rng, bits=6):
    return rng.randint(0, (1 << bits) - 1) / float(1 << bits)


def gen_sample(rng, tier):
    stream = rng.choice(["lattice", "lattice", "float"])
    k = rng.choice([0, 1, 2, 3, 4, 6]) if rng.random() < 0.9 else rng.randint(7, 20)
    tris = []
    for _ in range(k):
        if stream == "lattice":
            tris.append(lat_tri(rng, rng.random() < 0.2))
        else:
            t, _, _ = float_tri(rng, rng.choice(["good", "any"]))
            if rng.random() < 0.1:
                t[2] = list(t[0])
            tris.append(t)
    r = rng.random()
    if r < 0.35:
        weights = None
    elif r < 0.75:  # integer weights with zeros, total a power of two quite often (exact ties with dyadic draws)
        weights = [float(rng.choice([0, 0, 1, 1, 2, 3, 5])) for _ in range(k)]
    else:
        weights = [0.0 if rng.random() < 0.3 else rng.uniform(0, 1) * 10.0 ** rng.uniform(-3, 3) for _ in range(k)]
    if weights is not None and k > 0 and not any(weights) and rng.random() < 0.9:
        weights[rng.randrange(k)] = 1.0
    n = rng.choice([0, 1, 2, 3, 5, 8, 12])
    q = rng.random()
    if q < 0.2:
        rs = {"kind": "default"}
    elif q < 0.6:
        rs = {"kind": "seed", "bitgen": rng.choice(BITGENS), "seed": rng.randrange(1 << 30), "skip": rng.choice([0, 0, 1, 3, 17])}
    elif q < 0.65:
        rs = dict(PCG_ZERO)
    else:
        W = sum(weights) if weights else 0.0
        draws = []
        for _ in range(n):
            c = rng.random()
            if c < 0.25:
                draws.append(0.0)
            elif c < 0.6 and weights and W > 0 and math.log2(W).is_integer():
                j = rng.randrange(k)          # exact tie r*W = cum_j (kept < 1)
                cj = sum(weights[:j + 1])
                draws.append(cj / W if cj < W else dyadic(rng))
            else:
                draws.append(dyadic(rng))
        for _ in range(n):
            c = rng.random()
            u = dyadic(rng)
            if c < 0.3:
                v = 1.0 - u if u > 0 else dyadic(rng)   # u + v = 1 exactly
            else:
                v = dyadic(rng)
            draws += [u, v]
        rs = {"kind": "script", "draws": draws}
    return {"op": "sample", "stream": stream, "tris": tris, "weights": weights, "n": n, "rng": rs}


def gen_malformed(rng):
    k = rng.choice([1, 2, 3])
    tris = [lat_tri(rng) for _ in range(k)]
    what = rng.choice(["n-float", "n-neg", "rng-int", "rng-randomstate", "weights-len", "weights-2d", "bary-count", "n-neg-k0",
                       "edges-int32", "edges-float", "n-npint"])
    return {"op": "malformed", "what": what, "tris": tris, "n": rng.choice([1, 3]), "extra": rng.randrange(1, 3)}


def gen_faces(rng):
    k = rng.choice([0, 1, 2, 3, 6, 11])
    hi = rng.choice([3, 5, 40, 10 ** 6])
    if rng.random() < 0.7:
        faces = [rng.sample(range(max(hi, 3) + 1), 3) for _ in range(k)]
    else:
        faces = [[rng.randint(0, hi) for _ in range(3)] for _ in range(k)]
    return {"op": "edges", "faces": faces, "normalize": rng.random() < 0.5}


def gen_quads(rng):
    k = rng.choice([0, 1, 2, 3, 6, 11])
    hi = rng.choice([4, 6, 40, 10 ** 6])
    if rng.random() < 0.7:
        quads = [rng.sample(range(max(hi, 4) + 1), 4) for _ in range(k)]
    else:
        quads = [[rng.randint(0, hi) for _ in range(4)] for _ in range(k)]
    return {"op": "quads", "quads": quads, "ret_mapping": rng.random() < 0.5, "dtype": rng.choice(["int64", "int64", "int32", "uint32"])}


FIXED = [
    # the r = 0 corner on a real PCG64: zero-weight first face must not be chosen (fixed by fbff5e6)
    {"op": "sample", "stream": "lattice", "tris": [[[0, 0, 0], [1, 0, 0], [0, 1, 0]], [[0, 0, 1], [1, 0, 1], [0, 1, 1]]],
     "weights": [0.0, 1.0], "n": 1, "rng": dict(PCG_ZERO)},
    {"op": "sample", "stream": "lattice", "tris": [[[0, 0, 0], [1, 0, 0], [0, 1, 0]], [[0, 0, 1], [1, 0, 1], [0, 1, 1]], [[0, 0, 2], [2, 0, 2], [0, 2, 2]]],
     "weights": [0.0, 0.0, 4.0], "n": 3, "rng": {"kind": "script", "draws": [0.0, 0.5, 0.0, 0.25, 0.25, 0.75, 0.75, 0.5, 0.5]}},
    # first triangle degenerate, area weights, r = 0
    {"op": "sample", "stream": "lattice", "tris": [[[0, 0, 0], [1, 0, 0], [2, 0, 0]], [[0, 0, 1], [1, 0, 1], [0, 1, 1]]],
     "weights": None, "n": 2, "rng": {"kind": "script", "draws": [0.0, 0.5, 0.25, 0.5, 0.75, 0.5]}},
    # exact ties r*W = cum_i
    {"op": "sample", "stream": "lattice", "tris": [[[0, 0, 0], [4, 0, 0], [0, 4, 0]], [[0, 0, 1], [4, 0, 1], [0, 4, 1]],
                                                    [[0, 0, 2], [4, 0, 2], [0, 4, 2]], [[0, 0, 3], [4, 0, 3], [0, 4, 3]]],
     "weights": [1.0, 0.0, 1.0, 2.0], "n": 4, "rng": {"kind": "script", "draws": [0.25, 0.5, 0.0, 0.75, 0.5, 0.5, 0.25, 0.75, 1.0, 0.0, 0.0, 0.0]}},
]


def gen(rng, tier):
    for s in FIXED:
        yield s
    n1 = 560 if tier == "quick" else 6000
    for i in range(n1):
        yield gen_tri_group(rng, "lattice" if i % 2 == 0 else "float")
    n2 = 900 if tier == "quick" else 9000
    for i in range(n2):
        yield gen_sample(rng, tier)
    n3 = 60 if tier == "quick" else 600
    for i in range(n3):
        yield gen_faces(rng)
        yield gen_quads(rng)
    n4 = 40 if tier == "quick" else 300
    for i in range(n4):
        yield gen_malformed(rng)


# ---------------------------------------------------------------------------------------------------
# cases

def bools(r):
    a = np.atleast_1d(np.asarray(r))
    return [int(a.shape[0])] + [bool(x) for x in a]


def make(spec):
    op = spec["op"]
    if op == "tri-group":
        return make_tri_group(spec)
    if op == "sample":
        return make_sample(spec)
    if op == "edges":
        return make_edges(spec)
    if op == "quads":
        return make_quads(spec)
    if op == "malformed":
        return make_malformed(spec)
    raise ValueError(op)


def make_tri_group(spec):
    from polliwog.line import coplanar_points_are_on_same_side_of_line
    from polliwog.tri import (barycentric_coordinates_of_points, surface_area, surface_normals,
                              tri_contains_coplanar_point)
    stream = spec["stream"]
    T = np.array(np.reshape(spec["tris"], (-1, 3, 3)), dtype=np.float64)
    P = np.array(np.reshape(spec["pts"], (-1, 3)), dtype=np.float64)
    kinds = spec["kinds"]
    k = len(T)
    single = spec["single"] and k == 1
    trivial = k == 0
    sizes = [max(gens.maxabs(t[1] - t[0]), gens.maxabs(t[2] - t[0]), gens.maxabs(t[2] - t[1]), 1e-300) for t in T]
    size2 = max([s * s for s in sizes] + [1e-300])
    cases = []
    kl = "%s/%s" % (stream, "single" if single else ("k0" if trivial else "stack"))

    def add(name, line, impl, mode, scale, sub=None, triv=None, **kw):
        cases.append(Case(spec, line, impl, mode=mode, klass=name + "/" + kl + ("/" + sub if sub else ""),
                          trivial=trivial if triv is None else triv, scale=scale, **kw))

    targ = (lambda A: shcopy(A[0])) if single else (lambda A: shcopy(A))
    # raw normals and area: every triangle (degenerate ones included)
    add("normals-raw", Line("tri.normals").b(False).vecs(T),
        lambda: counted(np.asarray(surface_normals(targ(T), normalize=False)).reshape(-1, 3)), "both", size2,
        sub="with-deg" if "deg" in kinds else None)
    add("area", Line("tri.area").vecs(T), lambda: counted(np.atleast_1d(surface_area(targ(T)))), "both", size2,
        sub="with-deg" if "deg" in kinds else None)
    # unit normals: non-degenerate, not thin
    gi = [i for i in range(k) if kinds[i] == "good"]
    TG = T[gi].reshape(-1, 3, 3)
    PG = P[gi].reshape(-1, 3)
    gsingle = single and len(gi) == 1
    garg = (lambda A: shcopy(A[0])) if gsingle else (lambda A: shcopy(A))
    add("normals-unit", Line("tri.normals").b(True).vecs(TG),
        lambda: counted(np.asarray(surface_normals(garg(TG), normalize=True)).reshape(-1, 3)), "both", 1.0, triv=len(gi) == 0)
    # barycentric coordinates: well-shaped triangles, and exactly degenerate ones (the guard branch)
    bi = [i for i in range(k) if kinds[i] in ("good", "deg")]
    TB = T[bi].reshape(-1, 3, 3)
    PB = P[bi].reshape(-1, 3)
    bscale = 1.0
    has_deg = any(kinds[i] == "deg" for i in bi)
    for t, p, s in zip(TB, PB, [sizes[i] for i in bi]):
        bscale = max(bscale, (gens.maxabs(p - t[0]) / s) if s > 0 else 1.0)
    add("bary", Line("tri.bary").vecs(TB).vecs(PB),
        # (the zero-area guard writes `np.spacing(1)` into the squared areas, which only a float array can hold: integer
        # degenerate triangles give NaN where float ones give (1, 0, 0) -- outside the property, which excludes degenerate
        # triangles here, so those stay float in the integer-dtype runs)
        lambda: counted(barycentric_coordinates_of_points(shcopy(TB, keep_dtype=has_deg), shcopy(PB, keep_dtype=has_deg))),
        "both", bscale * 10, sub="guard" if has_deg else None, triv=len(bi) == 0)
    # containment and same-side: exact on the lattice; float stream only where every weight is away from 0
    if stream == "lattice":
        ci = list(range(k))
    else:
        ci = []
        for i in gi:
            b = exact_bary(T[i], P[i])
            if b is not None and min(abs(x) for x in b) > F(1, 10 ** 7):
                ci.append(i)
    TC = T[ci].reshape(-1, 3, 3)
    PC = P[ci].reshape(-1, 3)
    csingle = single and len(ci) == 1
    carg = (lambda A: shcopy(A[0])) if csingle else (lambda A: shcopy(A))
    A_, B_, C_ = TC[:, 0], TC[:, 1], TC[:, 2]
    if not (single and not csingle):
        add("contains", Line("tri.contains").vecs(A_).vecs(B_).vecs(C_).vecs(PC),
            lambda: bools(tri_contains_coplanar_point(carg(A_), carg(B_), carg(C_), carg(PC))), "both", 1.0, triv=len(ci) == 0)
        # the three edge tests as the function calls them, plus one with the roles permuted
        for nm, (a, b, p1, p2) in (("bc", (B_, C_, PC, A_)), ("ac", (A_, C_, PC, B_)), ("ab", (A_, B_, PC, C_)), ("pa", (PC, A_, B_, C_))):
            if nm == "pa" and stream != "lattice":
                continue
            add("sameside", Line("line.sameside").vecs(a).vecs(b).vecs(p1).vecs(p2),
                lambda a=a, b=b, p1=p1, p2=p2: bools(coplanar_points_are_on_same_side_of_line(carg(a), carg(b), carg(p1), carg(p2))),
                "both", 1.0, sub=nm, triv=len(ci) == 0)
    cases[0].oracle = lambda _r: oracle_tri_group(spec, T, P, kinds, single, gi, bi, ci, sizes)
    return cases


def build_rng(rs):
    """-> (rng argument for sample, twin generator in the same state or list of scripted draws)"""
    kind = rs["kind"]
    if kind == "default":
        return None, np.random.default_rng(RANDOM_SEED_EXPECTED)
    if kind == "seed":
        def mk():
            g = np.random.Generator(getattr(np.random, rs["bitgen"])(rs["seed"]))
            if rs.get("skip"):
                g.random(rs["skip"])
            return g
        return mk(), mk()
    if kind == "pcg-state":
        def mk():
            g = np.random.Generator(np.random.PCG64(rs["seed"]))
            st = g.bit_generator.state
            st["state"]["state"] = int(rs["state"])
            g.bit_generator.state = st
            return g
        return mk(), mk()
    if kind == "script":
        class Scripted(np.random.Generator):
            def __init__(self, seq):
                super().__init__(np.random.PCG64(0))
                self.seq = list(seq)

            def random(self, size=None):
                n = int(np.prod(size)) if size is not None else 1
                out = np.copy(np.array(self.seq[:n], dtype=np.float64))   # handed to the library, which owns it: private and writable
                if len(out) < n:
                    raise RuntimeError("scripted generator exhausted")
                self.seq = self.seq[n:]
                return out.reshape(size) if size is not None else float(out[0])
        return Scripted(rs["draws"]), Scripted(rs["draws"])
    raise ValueError(kind)


def read_draws(twin, n):
    if n <= 0:
        return []
    r = twin.random(n)
    c = twin.random((n, 2, 1))
    return [float(x) for x in r] + [float(x) for x in c.ravel()]


def canon_sample(res):
    pts, idx = res
    return [dtype_tag(pts), dtype_tag(idx)] + counted(np.asarray(pts).reshape(-1, 3)) + counted_ints(idx)


def sample_determined(weights, draws, n, exact_arith):
    """exact model comparable: no draw within rounding distance of a decision threshold"""
    if n <= 0 or not weights:
        return True
    cum = []
    acc = F(0)
    for w in weights:
        acc += fr(w)
        cum.append(acc)
    W = cum[-1]
    if W <= 0:
        return True
    m = F(1, 10 ** 12) * W
    for r in draws[:n]:
        x = fr(r) * W
        for c in cum:
            d = abs(c - x)
            if d <= m and not (d == 0 and (exact_arith or x == 0)):
                return False
    uv = draws[n:]
    for i in range(n):
        d = abs(fr(uv[2 * i]) + fr(uv[2 * i + 1]) - 1)
        if d <= F(1, 10 ** 12) and not (d == 0):
            return False
    return True


def make_sample(spec):
    from polliwog.tri import sample, surface_area
    T = np.array(np.reshape(spec["tris"], (-1, 3, 3)), dtype=np.float64)
    k = len(T)
    n = spec["n"]
    weights = spec["weights"]
    W = None if weights is None else np.array(weights, dtype=np.float64)
    _, twin = build_rng(spec["rng"])
    draws = read_draws(twin, n) if k > 0 else []
    scale = max(gens.maxabs(T), 1e-300)
    trivial = k == 0 or n == 0
    kl = "%s/%s/%s/%s" % (spec["stream"], spec["rng"]["kind"], "area" if weights is None else "weights",
                          "k0" if k == 0 else ("n0" if n == 0 else "n"))

    def impl():
        rng, _ = build_rng(spec["rng"])
        if k > 0 and spec.get("reused_buffer", zlib.crc32(repr(spec["tris"]).encode()) % 3 == 0):
            # a caller that keeps its triangles in one buffer and hands out a write-protected view of it: the buffer first
            # held other triangles, whose areas were looked at; then it was refilled in place with these and sampled
            buf = np.array(T[::-1] * 3.0 + 1.0)
            view = buf.view()
            view.flags.writeable = False
            surface_area(view)
            buf[...] = T
            return canon_sample(sample(view, n, rng=rng, weights=None if W is None else shcopy(W), ret_face_indices=True))
        return canon_sample(sample(shcopy(T), n, rng=rng, weights=None if W is None else shcopy(W), ret_face_indices=True))

    def line(hasw, w):
        return Line("tri.sample").b(True).i(n).b(True).b(hasw).vecs(np.asarray(w, dtype=np.float64)).vecs(T).vecs(np.asarray(draws, dtype=np.float64))

    cases = []
    if W is None:
        # model computes the areas itself (sqrt): Float run only; exact run gets the areas the code computes
        cases.append(Case(spec, line(False, []), impl, mode="float", klass="sample/" + kl, trivial=trivial, scale=scale))
        areas = np.atleast_1d(surface_area(shcopy(T))) if k > 0 else np.zeros(0)
        if sample_determined(list(areas), draws, n, False):
            cases.append(Case(spec, line(True, areas), impl, mode="rat", klass="sample-exact/" + kl, trivial=trivial, scale=scale))
    else:
        exact_arith = all(float(w).is_integer() and abs(w) < 2 ** 20 for w in weights) and spec["rng"]["kind"] in ("script", "pcg-state")
        det = sample_determined(weights, draws, n, exact_arith)
        cases.append(Case(spec, line(True, W), impl, mode="both" if det else "float", klass="sample/" + kl + ("" if det else "/undetermined"),
                          trivial=trivial, scale=scale))
    cases[0].oracle = lambda _r: oracle_sample(spec, T, W, n, draws)
    return cases


def make_edges(spec):
    from polliwog.tri import edges_of_faces
    faces = np.array(np.reshape(spec["faces"], (-1, 3)), dtype=np.int64)
    nz = spec["normalize"]

    def impl():
        e = edges_of_faces(shcopy(faces), normalize=nz)
        return [dtype_tag(e)] + [int(e.shape[0])] + ints(e)
    c = Case(spec, Line("tri.edges").b(True).b(nz).i(len(faces)).i(*faces.ravel()), impl, mode="rat",
             klass="edges/%s/%s" % ("sorted" if nz else "raw", "k0" if len(faces) == 0 else "k"), trivial=len(faces) == 0)
    c.oracle = lambda _r: oracle_edges(faces, nz)
    return c


def make_quads(spec):
    from polliwog.tri import quads_to_tris
    quads = np.array(spec["quads"], dtype=spec["dtype"]).reshape(-1, 4)
    rm = spec["ret_mapping"]

    def impl():
        r = quads_to_tris(shcopy(quads), ret_mapping=rm)
        if rm:
            t, m = r
            return [dtype_tag(t)] + [int(t.shape[0])] + ints(t) + [dtype_tag(m)] + [int(m.shape[0])] + ints(m)
        return [dtype_tag(r)] + [int(r.shape[0])] + ints(r)
    c = Case(spec, Line("tri.quads").b(rm).i(len(quads)).i(*quads.ravel()), impl, mode="rat",
             klass="quads/%s/%s/%s" % ("map" if rm else "nomap", spec["dtype"], "k0" if len(quads) == 0 else "k"), trivial=len(quads) == 0)
    c.oracle = lambda _r: oracle_quads(quads)
    return c


def make_malformed(spec):
    from polliwog.tri import barycentric_coordinates_of_points, edges_of_faces, sample
    T = np.array(np.reshape(spec["tris"], (-1, 3, 3)), dtype=np.float64)
    k = len(T)
    n = spec["n"]
    what = spec["what"]
    draws = read_draws(np.random.default_rng(RANDOM_SEED_EXPECTED), n)

    def sline(isint, nn, rngok, hasw, w, tris=T, dr=draws):
        return Line("tri.sample").b(isint).i(nn).b(rngok).b(hasw).vecs(np.asarray(w, dtype=np.float64)).vecs(tris).vecs(np.asarray(dr, dtype=np.float64))

    if what == "n-float":
        line, impl = sline(False, n, True, False, []), lambda: canon_sample(sample(shcopy(T), float(n), ret_face_indices=True))
    elif what == "n-npint":   # np.int64 is not an `int`
        line, impl = sline(False, n, True, False, []), lambda: canon_sample(sample(shcopy(T), np.int64(n), ret_face_indices=True))
    elif what == "n-neg":
        line, impl = sline(True, -n, True, False, [], dr=[]), lambda: canon_sample(sample(shcopy(T), -n, ret_face_indices=True))
    elif what == "n-neg-k0":  # no triangles: the empty result is returned before the generator is asked for -n values
        E = np.zeros((0, 3, 3))
        line, impl = sline(True, -n, True, False, [], tris=E, dr=[]), lambda: canon_sample(sample(shcopy(E), -n, ret_face_indices=True))
    elif what == "rng-int":
        line, impl = sline(True, n, False, False, []), lambda: canon_sample(sample(shcopy(T), n, rng=1337, ret_face_indices=True))
    elif what == "rng-randomstate":
        line, impl = sline(True, n, False, False, []), lambda: canon_sample(sample(shcopy(T), n, rng=np.random.RandomState(3), ret_face_indices=True))
    elif what == "weights-len":
        w = np.ones(k + spec["extra"])
        line, impl = sline(True, n, True, True, w), lambda: canon_sample(sample(shcopy(T), n, weights=shcopy(w), ret_face_indices=True))
    elif what == "weights-2d":   # (k,1) is not (k,): modelled as a wrong count (k+1 entries on the model side)
        w = np.ones((k, 1))
        line, impl = sline(True, n, True, True, np.ones(k + 1)), lambda: canon_sample(sample(shcopy(T), n, weights=shcopy(w), ret_face_indices=True))
    elif what == "bary-count":
        P = np.zeros((k + spec["extra"], 3))
        line, impl = Line("tri.bary").vecs(T).vecs(P), lambda: counted(barycentric_coordinates_of_points(shcopy(T), shcopy(P)))
    elif what in ("edges-int32", "edges-float"):
        faces = np.arange(3 * k, dtype=np.int32 if what == "edges-int32" else np.float64).reshape(-1, 3)
        line = Line("tri.edges").b(False).b(True).i(k).i(*range(3 * k))
        impl = lambda: [dtype_tag(edges_of_faces(faces))]
    else:
        raise ValueError(what)
    return Case(spec, line, impl, mode="rat", klass="malformed/" + what)


# ---------------------------------------------------------------------------------------------------
# property oracle

def close(a, b, tol):
    return abs(fr(a) - (b if isinstance(b, Fraction) else fr(b))) <= tol


def oracle_tri_group(spec, T, P, kinds, single, gi, bi, ci, sizes):
    from polliwog.line import coplanar_points_are_on_same_side_of_line
    from polliwog.tri import (barycentric_coordinates_of_points, surface_area, surface_normals,
                              tri_contains_coplanar_point)
    out = []
    k = len(T)
    if k == 0:
        if np.asarray(surface_normals(shcopy(T))).shape != (0, 3) or np.asarray(surface_area(shcopy(T))).shape != (0,):
            out.append(("stack/empty", "empty stack does not give an empty result"))
        return out
    lattice = spec["stream"] == "lattice"
    raw = np.asarray(surface_normals(shcopy(T), normalize=False)).reshape(-1, 3)
    area = np.atleast_1d(surface_area(shcopy(T)))
    tv = np.array(spec["tvec"], dtype=np.float64)
    for i in range(k):
        t = T[i]
        s2 = F(sizes[i]) ** 2
        tol = F(1, 10 ** 9) * s2
        n = exact_normal(t)
        nn = vdot(n, n)
        r1 = np.asarray(surface_normals(shcopy(t), normalize=False))
        a1 = float(surface_area(shcopy(t)))
        if any(not close(raw[i][j], n[j], tol) for j in range(3)):
            out.append(("normals/cross", "surface_normals(%s, normalize=False) = %s, cross product of the edges = %s" % (t.tolist(), raw[i].tolist(), [float(x) for x in n])))
        if r1.shape != (3,) or any(not close(r1[j], raw[i][j], tol) for j in range(3)) or not close(a1, area[i], tol):
            out.append(("stack-is-map", "row %d of the stacked normals/areas differs from the single 3x3 call" % i))
        # area = half the length:  (2A)^2 = n.n   (relative 1e-9, absolute tol^2 for degenerate ones)
        a2 = (2 * fr(area[i])) ** 2
        if area[i] < 0 or abs(a2 - nn) > F(1, 10 ** 9) * max(nn, a2) + (F(1, 10 ** 12) * s2) ** 2:
            out.append(("area/half-norm", "surface_area(%s) = %r but |cross|/2 = %r" % (t.tolist(), float(area[i]), math.sqrt(float(nn)) / 2)))
        # relabelling, translation, swap (on the code's outputs)
        cyc = t[[1, 2, 0]]
        sw = t[[1, 0, 2]]
        tr = t + tv * (1.0 if lattice else sizes[i])
        ttol = tol if lattice else F(1, 10 ** 9) * s2 + F(8 * 2.3e-16) * F(sizes[i]) * F(max(gens.maxabs(t), gens.maxabs(tr)))
        nc = np.asarray(surface_normals(shcopy(cyc), normalize=False))
        ns = np.asarray(surface_normals(shcopy(sw), normalize=False))
        nt = np.asarray(surface_normals(shcopy(tr), normalize=False))
        if any(not close(nc[j], raw[i][j], 2 * tol) for j in range(3)):
            out.append(("normals/cyclic", "normal changes under cyclic relabelling of %s" % (t.tolist(),)))
        if any(not close(ns[j], -fr(raw[i][j]), 2 * tol) for j in range(3)):
            out.append(("normals/swap", "normal is not negated when two vertices of %s are swapped: %s vs %s" % (t.tolist(), ns.tolist(), raw[i].tolist())))
        if any(not close(nt[j], raw[i][j], 2 * ttol) for j in range(3)):
            out.append(("normals/translate", "normal changes under translation of %s by %s" % (t.tolist(), tv.tolist())))
        atol = F(1, 10 ** 9) * s2 + F(1, 10 ** 7) * F(sizes[i]) ** 2 * (0 if kinds[i] != "thin" else 1)
        for nm, tt, tl in (("cyclic", cyc, atol), ("swap", sw, atol), ("translate", tr, atol + (ttol - tol) * 4)):
            if kinds[i] == "thin" and nm == "translate":
                continue
            if not close(float(surface_area(shcopy(tt))), area[i], tl):
                out.append(("area/" + nm, "area changes under %s of %s" % (nm, t.tolist())))
    # unit normals
    if gi:
        TG = T[gi]
        un = np.asarray(surface_normals(shcopy(TG), normalize=True)).reshape(-1, 3)
        for i, t in zip(range(len(gi)), TG):
            n = exact_normal(t)
            nn = vdot(n, n)
            u = fvec(un[i])
            if abs(vdot(u, u) - 1) > F(1, 10 ** 9):
                out.append(("normals/unit", "normalized normal of %s has squared length %r" % (t.tolist(), float(vdot(u, u)))))
            c = vcross(u, n)
            if vdot(c, c) > (F(1, 10 ** 8)) ** 2 * nn or vdot(u, n) <= 0:
                out.append(("normals/direction", "normalized normal of %s is not a positive multiple of the cross product" % (t.tolist(),)))
            u1 = np.asarray(surface_normals(shcopy(t)))
            if u1.shape != (3,) or any(not close(u1[j], un[i][j], F(1, 10 ** 9)) for j in range(3)):
                out.append(("stack-is-map", "row %d of the stacked unit normals differs from the single call" % i))
            us = np.asarray(surface_normals(shcopy(t[[0, 2, 1]])))
            if any(not close(us[j], -fr(un[i][j]), F(1, 10 ** 8)) for j in range(3)):
                out.append(("normals/swap", "unit normal is not negated by a swap of %s" % (t.tolist(),)))
    # barycentric weights
    if bi:
        TB, PB = T[bi], P[bi]
        bb = barycentric_coordinates_of_points(shcopy(TB), shcopy(PB))
        if bb.shape != (len(bi), 3):
            out.append(("bary/shape", "barycentric result has shape %s" % (bb.shape,)))
        else:
            for i, (t, p) in enumerate(zip(TB, PB)):
                b = fvec(bb[i])
                sz = F(sizes[bi[i]])
                mag = max(F(1), max(abs(x) for x in b))
                if abs(sum(b) - 1) > F(1, 10 ** 9) * mag:
                    out.append(("bary/sum-one", "weights %s of %s w.r.t. %s sum to %r" % (bb[i].tolist(), p.tolist(), t.tolist(), float(sum(b)))))
                n = exact_normal(t)
                nn = vdot(n, n)
                if nn == 0:
                    continue  # zero-area guard branch: correspondence only (the property excludes degenerate triangles here)
                a = fvec(t[0])
                proj = vsub(fvec(p), vscale(vdot(vsub(fvec(p), a), n) / nn, n))
                rec = vadd(vadd(vscale(b[0], fvec(t[0])), vscale(b[1], fvec(t[1]))), vscale(b[2], fvec(t[2])))
                if any(abs(rec[j] - proj[j]) > F(1, 10 ** 8) * mag * sz for j in range(3)):
                    out.append(("bary/reconstruct", "weights %s do not reconstruct the projection of %s onto the plane of %s: %s vs %s" % (
                        bb[i].tolist(), p.tolist(), t.tolist(), [float(x) for x in rec], [float(x) for x in proj])))
    # containment <-> weights, edge tests
    if ci:
        TC, PC = T[ci], P[ci]
        A_, B_, C_ = TC[:, 0].copy(), TC[:, 1].copy(), TC[:, 2].copy()
        cont = np.atleast_1d(tri_contains_coplanar_point(A_, B_, C_, shcopy(PC)))
        e1 = np.atleast_1d(coplanar_points_are_on_same_side_of_line(B_, C_, shcopy(PC), A_))
        e2 = np.atleast_1d(coplanar_points_are_on_same_side_of_line(A_, C_, shcopy(PC), B_))
        e3 = np.atleast_1d(coplanar_points_are_on_same_side_of_line(A_, B_, shcopy(PC), C_))
        for i, (t, p) in enumerate(zip(TC, PC)):
            if bool(cont[i]) != (bool(e1[i]) and bool(e2[i]) and bool(e3[i])):
                out.append(("contains/edge-tests", "tri_contains_coplanar_point differs from the conjunction of the three same-side tests at %s / %s" % (t.tolist(), p.tolist())))
            c1 = bool(tri_contains_coplanar_point(shcopy(t[0]), shcopy(t[1]), shcopy(t[2]), shcopy(p)))
            if c1 != bool(cont[i]):
                out.append(("stack-is-map", "stacked containment row %d differs from the single call" % i))
            b = exact_bary(t, p)
            if b is None:
                continue
            n = exact_normal(t)
            coplanar = vdot(vsub(fvec(p), fvec(t[0])), n) == 0
            if lattice and not coplanar:
                continue  # the property speaks about coplanar points (the theorem covers the projection as well)
            want = all(x >= 0 for x in b)
            if bool(cont[i]) != want:
                out.append(("contains/iff-weights", "tri_contains_coplanar_point(%s, %s) = %s but the barycentric weights are %s" % (
                    t.tolist(), p.tolist(), bool(cont[i]), [float(x) for x in b])))
            # each edge test = "same side or on the line": signs of the signed areas w.r.t. the normal
            for nm, got, (la, lb, q1, q2) in (("bc", e1[i], (t[1], t[2], p, t[0])), ("ac", e2[i], (t[0], t[2], p, t[1])), ("ab", e3[i], (t[0], t[1], p, t[2]))):
                d = vsub(fvec(lb), fvec(la))
                s1 = vdot(vcross(d, vsub(fvec(q1), fvec(la))), n)
                s2 = vdot(vcross(d, vsub(fvec(q2), fvec(la))), n)
                if coplanar and bool(got) != (s1 * s2 >= 0):
                    out.append(("sameside/def", "coplanar_points_are_on_same_side_of_line(line %s-%s, points %s, %s) = %s but the signed areas are %r, %r" % (
                        np.asarray(la).tolist(), np.asarray(lb).tolist(), np.asarray(q1).tolist(), np.asarray(q2).tolist(), bool(got), float(s1), float(s2))))
    return dedupe(out)


def oracle_sample(spec, T, W, n, draws):
    from polliwog.tri import sample
    out = []
    k = len(T)

    def call(rfi=True):
        rng, _ = build_rng(spec["rng"])
        return sample(shcopy(T), n, rng=rng, weights=None if W is None else shcopy(W), ret_face_indices=rfi)

    nn = [vdot(x, x) for x in (exact_normal(t) for t in T)]
    if W is None:
        wpos = [x > 0 for x in nn]
        wex = [F(math.sqrt(float(x))) / 2 if x > 0 else F(0) for x in nn]    # areas, good to ~1e-16 relative
    else:
        wpos = [float(w) > 0 for w in W]
        wex = [fr(w) for w in W]
    valid = k > 0 and any(wpos) and all(float(w) >= 0 for w in (W if W is not None else []))
    try:
        pts, idx = call()
    except Exception as e:  # noqa: BLE001
        if valid:
            out.append(("sample/raised", "sample raised %s: %s on valid arguments (k=%d, n=%d, weights=%s)" % (type(e).__name__, e, k, n, spec["weights"])))
        return out
    if k == 0:
        if np.asarray(pts).shape != (0, 3) or len(idx) != 0:
            out.append(("sample/count", "no triangles: expected an empty result"))
        return out
    if np.asarray(pts).shape != (n, 3) or np.asarray(idx).shape != (n,):
        out.append(("sample/count", "asked for %d samples, got points %s and face indices %s" % (n, np.asarray(pts).shape, np.asarray(idx).shape)))
        return out
    if not valid:
        return out
    if n and np.asarray(idx).dtype.kind not in "iu":
        out.append(("sample/index-dtype", "face indices have dtype %s" % np.asarray(idx).dtype))
        return out
    scale = F(max(gens.maxabs(T), 1e-300))
    tol = F(1, 10 ** 9) * scale
    Wt = sum(wex)
    cum = []
    acc = F(0)
    for w in wex:
        acc += w
        cum.append(acc)
    for j in range(n):
        i = int(idx[j])
        if not (0 <= i < k):
            out.append(("sample/index-range", "face index %d out of range" % i))
            continue
        if not wpos[i]:
            out.append(("sample/zero-weight-face", "sample %d (draw r=%r) was taken from face %d whose weight is zero (weights %s)" % (
                j, draws[j] if j < len(draws) else None, i, "area" if W is None else W.tolist())))
        d2 = tri_dist2(T[i], pts[j])
        if d2 > tol * tol:
            out.append(("sample/inside", "sample %d = %s is not inside triangle %d = %s (distance %.3g)" % (
                j, np.asarray(pts[j]).tolist(), i, T[i].tolist(), math.sqrt(float(d2)))))
        # frequency proportional to weight: face i exactly when cum[i-1] <= r*W <= cum[i] (ties may go either way)
        if len(draws) >= n:
            x = fr(draws[j]) * Wt
            slack = F(1, 10 ** 9) * Wt
            lo = cum[i - 1] if i > 0 else F(0)
            if not (lo - slack <= x <= cum[i] + slack):
                out.append(("sample/choice-interval", "draw r=%r selects face %d but r*W=%r is outside [%r, %r]" % (
                    draws[j], i, float(x), float(lo), float(cum[i]))))
    # identical generator state -> identical output
    p2, i2 = call()
    if not (np.array_equal(pts, p2) and np.array_equal(idx, i2)):
        out.append(("sample/deterministic", "two calls with identical generator state differ"))
    p3 = call(False)
    if isinstance(p3, tuple) or not np.array_equal(np.asarray(p3), pts):
        out.append(("sample/ret-flags", "ret_face_indices=False does not return the same points alone"))
    return dedupe(out)


def oracle_edges(faces, nz):
    from polliwog.tri import edges_of_faces
    out = []
    e = edges_of_faces(shcopy(faces), normalize=nz)
    if e.shape != (3 * len(faces), 2):
        return [("edges/count", "%d faces give an edge array of shape %s" % (len(faces), e.shape))]
    for i, f in enumerate(faces):
        a, b, c = (int(x) for x in f)
        rows = [tuple(int(x) for x in r) for r in e[3 * i:3 * i + 3]]
        und = sorted(tuple(sorted(r)) for r in rows)
        if und != sorted(tuple(sorted(p)) for p in ((a, b), (b, c), (c, a))):
            out.append(("edges/once", "face %s: rows %s are not its three edges once each" % ([a, b, c], rows)))
        if nz and any(r[0] > r[1] for r in rows):
            out.append(("edges/normalized", "normalize=True but an edge is not sorted: %s" % (rows,)))
        if not nz and len({a, b, c}) == 3 and sorted(rows) != sorted([(a, b), (b, c), (c, a)]):
            out.append(("edges/winding", "face %s: directed edges %s do not follow the winding" % ([a, b, c], rows)))
    return dedupe(out)


def oracle_quads(quads):
    from polliwog.tri import quads_to_tris
    out = []
    t, m = quads_to_tris(shcopy(quads), ret_mapping=True)
    t2 = quads_to_tris(shcopy(quads))
    k = len(quads)
    if t.shape != (2 * k, 3) or m.shape != (k, 2) or not np.array_equal(t, t2):
        return [("quads/count", "%d quads give triangles %s, mapping %s" % (k, t.shape, m.shape))]
    if t.dtype != np.int64:
        out.append(("quads/dtype", "triangles have dtype %s" % t.dtype))
    sq = {0: (0, 0), 1: (1, 0), 2: (1, 1), 3: (0, 1)}   # a convex quad, counter-clockwise
    for i, q in enumerate(quads):
        q = [int(x) for x in q]
        rows = [int(x) for x in m[i]]
        if rows != [2 * i, 2 * i + 1]:
            out.append(("quads/mapping", "mapping row %d is %s" % (i, rows)))
            continue
        if len(set(q)) != 4:
            continue
        col = {v: j for j, v in enumerate(q)}
        total = 0
        for r in rows:
            tri = [int(x) for x in t[r]]
            if any(v not in col for v in tri):
                out.append(("quads/vertices", "triangle %s uses a vertex that is not in quad %s" % (tri, q)))
                break
            (x0, y0), (x1, y1), (x2, y2) = (sq[col[v]] for v in tri)
            ar = (x1 - x0) * (y2 - y0) - (x2 - x0) * (y1 - y0)
            if ar <= 0:
                out.append(("quads/winding", "quad %s: triangle %s has the opposite winding" % (q, tri)))
            total += ar
        else:
            if total != 2:
                out.append(("quads/cover", "quad %s: triangles %s do not tile it" % (q, t[rows].tolist())))
    return dedupe(out)
