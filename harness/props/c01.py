"""C01 — mesh slicing returns exactly the part of the surface in front of the plane.

Correspondence: the assembly (`slice`) and the per-face kernel (`slice.face`) of PW.Model.Slicing against
slice_triangles_by_plane, at exact rationals and IEEE doubles.  Oracle: the clauses of C01 evaluated in exact
rational arithmetic on the arrays the real function returns (containment in the source face, not behind the plane,
orientation, area of the clipped face, kept / dropped faces)."""
from fractions import Fraction

import numpy as np

from props import slicer_common as sc
from props.slicer_common import Fv, vcross, vdot, vsub

ID = "C01"
TARGETS = ["PW.Props.C01"]
RULE = ("(a) exhaustive one-triangle patterns: corner offsets from {-s,-1.5tol,-tol/2,0,+tol/2,+1.5tol,+s} (343 patterns = all 27 sign patterns "
        "in every rotation with both signs of 'on'), selected and unselected, unit and non-unit normal; (b) lattice meshes "
        "(dyadic vertices, coincident vertices, degenerate faces repeating an index, unreferenced vertices, random masks, "
        "integer non-unit normals, planes through lattice points); (c) float meshes (scales 1e-6..1e6, |normal| 1e-3..1e3, "
        "40% with vertices inside the merge tolerance at offsets in {0,+-0.3,+-0.6} tol), vertices within 1e-3 tol of a "
        "threshold excluded; each mesh also runs every face alone through the kernel; non-trivial = at least one face")
TRUSTED = ["np.einsum / fancy indexing / np.append / np.roll modelled as list functions",
           "IEEE rounding not modelled (rtol 1e-9 lattice, 1e-7 float, 1e-5 for meshes with near-plane vertices)"]
ASSUMPTIONS = ["vertices whose offset is within 1e-3*tol (+1e-12*|n|*scale) of the +-1e-8 threshold are not generated"]
EXHAUSTIVE = {"quick": False, "thorough": False}
extra_coverage = sc.extra_coverage
gen = sc.gen_specs


def make(spec):
    return sc.make_cases(spec, oracle)


def oracle(spec, res):
    """res: canonical result of slice_triangles_by_plane(ret_face_mapping=True)"""
    out = {}

    def bad(key, msg):
        out.setdefault(key, msg)

    V, F, o, n, mask = sc.arrays(spec)
    if res[0] != "ok":
        if len(V) and (len(F) == 0 or F.max() < len(V)):
            bad("no-exception", "slice_triangles_by_plane raised %s on a valid mesh" % res[1])
        return list(out.items())
    if len(V) == 0 or len(F) == 0:
        return []
    it = res[1]
    nv = it[0]
    v2 = np.array(np.reshape(it[1:1 + 3 * nv], (-1, 3)), dtype=np.float64)
    j = 1 + 3 * nv
    nf = it[j]
    f2 = np.array(np.reshape(it[j + 1:j + 1 + 3 * nf], (-1, 3)), dtype=int)
    j += 1 + 3 * nf
    m2 = it[j + 1:j + 1 + it[j]]
    if len(m2) != len(f2):
        bad("mapping/length", "face mapping has %d entries for %d faces" % (len(m2), len(f2)))
        return list(out.items())
    if len(f2) and (f2.min() < 0 or f2.max() >= len(v2)):
        return [("indices/valid", "output face indexes a vertex that was not returned")]
    scale = max(float(np.max(np.abs(V))), float(np.max(np.abs(o))), 1e-300)
    nF = Fv(n)
    oF = Fv(o)
    nn = vdot(nF, nF)
    tol = Fraction(sc.TOL)
    eps_len = Fraction(spec.get("rtol", 1e-9) * 10) * Fraction(scale)        # positional slack
    eps_d = eps_len * Fraction(float(np.sqrt(float(nn))))                     # offset slack

    def off(p):
        return vdot(nF, vsub(p, oF))

    n1 = sum(abs(x) for x in nF)

    def repr_slack(q):
        return 4 * Fraction(2) ** -52 * max(abs(c) for c in q) * n1

    by_src = {}
    for k, src in enumerate(m2):
        by_src.setdefault(src, []).append(k)
    for src in by_src:
        if not (0 <= src < len(F)):
            bad("mapping/range", "face mapping names input face %s" % src)
            return list(out.items())
    for fi, f in enumerate(F):
        P = [Fv(V[i]) for i in f]
        d = [off(p) for p in P]
        sel = True if mask is None else bool(mask[fi])
        outs = by_src.get(fi, [])
        front = [x > tol for x in d]
        behind = [x < -tol for x in d]
        tag = "face %d %s offsets %s" % (fi, f.tolist(), [float(x) for x in d])
        if (not sel) or not any(behind):
            # wholly on or in front, or excluded: returned with its original three corners
            if len(outs) != 1:
                bad("kept/once", "%s should be kept as is but yields %d output faces" % (tag, len(outs)))
            else:
                got = v2[f2[outs[0]]]
                if not np.array_equal(got, V[f]):
                    bad("kept/corners", "%s kept but its corners changed: %s" % (tag, got.tolist()))
            continue
        if not any(front):
            if outs:
                bad("dropped", "%s has no corner in front and is selected but yields %d faces" % (tag, len(outs)))
            continue
        # cut face
        N = vcross(vsub(P[1], P[0]), vsub(P[2], P[0]))
        NN = vdot(N, N)
        phi = Fraction(0)
        for k in outs:
            Q = [Fv(v2[i]) for i in f2[k]]
            for q in Q:
                dq = off(q)
                if any(q == c for c in P) and dq < -tol - repr_slack(q):
                    # an input corner in the output: its offset is exact, so the only slack is what one rounding of the
                    # coordinates is worth (a computed crossing point may round onto the corner next to it)
                    bad("not-behind", "%s: the corner %s, behind the plane by %.3e, is part of the output" % (tag, [float(c) for c in q], float(-dq)))
                if dq < -tol - eps_d:
                    bad("not-behind", "%s: output vertex %s lies behind the plane (offset %.3e)" % (tag, [float(c) for c in q], float(dq)))
                if NN > 0:
                    r = vsub(q, P[0])
                    beta = vdot(vcross(r, vsub(P[2], P[0])), N) / NN
                    gamma = vdot(vcross(vsub(P[1], P[0]), r), N) / NN
                    alpha = 1 - beta - gamma
                    h2 = vdot(r, N) ** 2 / NN
                    e1 = vsub(P[1], P[0]); e2 = vsub(P[2], P[0])
                    elen = Fraction(float(np.sqrt(float(max(vdot(e1, e1), vdot(e2, e2))))))
                    slack = eps_len / max(elen, Fraction(1, 10 ** 300)) + Fraction(1, 10 ** 9)
                    if min(alpha, beta, gamma) < -slack or h2 > (eps_len * 10) ** 2:
                        bad("in-face", "%s: output vertex %s lies outside the face (barycentric %.6g %.6g %.6g)" % (
                            tag, [float(c) for c in q], float(alpha), float(beta), float(gamma)))
            if NN > 0:
                M = vcross(vsub(Q[1], Q[0]), vsub(Q[2], Q[0]))
                lam = vdot(M, N) / NN
                if lam < -Fraction(1, 10 ** 7):
                    bad("orientation", "%s: an output triangle has the opposite orientation (ratio %.3e)" % (tag, float(lam)))
                phi += lam
        if NN > 0:
            # tiling: {d > tol} subset of union subset of {d >= -tol}; equality with {d >= 0} when on-corners are exactly on
            lo = sc.clip_fraction(d, tol, True)
            hi = sc.clip_fraction(d, -tol, False)
            slack = Fraction(1, 10 ** 5) if "near" in spec["stream"] or spec["stream"] == "pattern" else Fraction(1, 10 ** 6)
            if phi < lo - slack or phi > hi + slack:
                bad("tiling/area", "%s: output covers area fraction %.9f, clipped face is between %.9f and %.9f" % (tag, float(phi), float(lo), float(hi)))
            if all((abs(x) > tol) or x == 0 for x in d):
                ex = sc.clip_fraction(d, Fraction(0), False)
                if abs(phi - ex) > slack:
                    bad("tiling/area-exact", "%s: output covers area fraction %.9f, the part in front is %.9f" % (tag, float(phi), float(ex)))
    return list(out.items())
