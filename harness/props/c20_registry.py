"""C20 registry: every public callable of polliwog with, per array argument, a value builder, the DOCUMENTED
shape forms (written by hand from the docstrings; the same forms are the right-hand sides of the theorems in
lean/PW/Props/C20.lean), a call adapter and - for single-or-stacked operations - how a stack splits into rows.

A *form* is a dict  argument-name -> pattern.  A pattern is a tuple whose entries are ints or variable
specs: "k" (any k >= 0, shared between the arguments of the form), "k>=2" (k below 2 must be rejected with
ValueError), "k~2" (k below 2 is a degenerate stack: the operation may or may not admit it, any outcome but
a silent wrong-shape result is tolerated).  `None` = the optional argument is omitted, "num" = a Python
scalar.  Arguments are listed in `args` as (name, kind); kind selects the value builder (see `build`).

Entry flags: `impl_raises` = the source has no (complete) explicit check and NumPy/vg reject the wrong shapes;
the generated signature is then compared one-sidedly (where it rejects the code must reject) and only the
oracle judges the rest.  `model=False` = no array argument at all (purity/determinism monitor only).
polliwog is imported lazily, inside the call adapters.
"""
import numpy as np

# ---------------------------------------------------------------------------------------------------
# value builders


def _rot(g):
    a = g.normal(size=(3, 3))
    q, r = np.linalg.qr(a)
    q = q * np.sign(np.diag(r))
    if np.linalg.det(q) < 0:
        q[:, 0] = -q[:, 0]
    return q


def build(kind, shape, g, ctx):
    a = _build(kind, shape, g, ctx)
    if a is None:
        return None
    a = np.array(a)                    # NumPy hands back scalars for shape (); the callables get 0-d arrays
    return a.reshape(tuple(shape))


def _build(kind, shape, g, ctx):
    """array of the given shape whose values are valid for `kind` whenever the shape is the documented one.
    g: np.random.Generator; ctx: dict with the other arguments' shapes (for index ranges).  None = cannot build."""
    shape = tuple(shape)
    if kind == "f":        # dyadic lattice: exact arithmetic downstream
        return g.integers(-8, 9, size=shape).astype(np.float64) / 2.0
    if kind == "tris":     # dyadic triangles of positive area wherever the shape is a stack of 3x3 blocks (a zero-area stack
        a = g.integers(-8, 9, size=shape).astype(np.float64) / 2.0      # has no positive weight to sample by)
        if len(shape) == 3 and shape[1:] == (3, 3):
            for t in a:
                while not np.any(np.cross(t[1] - t[0], t[2] - t[0])):
                    t[...] = g.integers(-8, 9, size=(3, 3)).astype(np.float64) / 2.0
        return a
    if kind == "ff":       # generic floats
        return g.normal(size=shape) * 3.0
    if kind == "unit":
        if shape == (3,):
            v = g.normal(size=3)
            return v / np.linalg.norm(v)
        return g.normal(size=shape)
    if kind == "nz":       # non-zero, non-degenerate vectors
        a = g.integers(1, 6, size=shape).astype(np.float64)
        return a * g.choice([-1.0, 1.0], size=shape)
    if kind == "nzb":      # never collinear with an "nz" vector (component ratios differ)
        a = np.empty(shape, dtype=np.float64)
        flat = a.reshape(-1)
        for i in range(flat.size):
            flat[i] = (7.0, 0.5, 0.25)[i % 3] * (1.0 if g.integers(0, 2) else -1.0)
        return a
    if kind in ("vtx", "vtx1", "vtx3"):   # a vertex of the polyline `self` when the shape is the documented one
        S = ctx.get("S")
        if shape == (3,) and S is not None and len(S.v) > 3:
            return np.array(S.v[3 if kind == "vtx3" else 1])
        return g.integers(-8, 9, size=shape).astype(np.float64) / 2.0
    if kind == "pos":
        return g.integers(1, 6, size=shape).astype(np.float64) / 2.0
    if kind == "frac":
        return g.integers(0, 9, size=shape).astype(np.float64) / 8.0
    if kind == "bool":
        return g.integers(0, 2, size=shape).astype(bool)
    if kind == "rot":
        if shape == (3, 3):
            return _rot(g)
        return g.normal(size=shape)
    if kind == "m44":
        if shape == (4, 4):
            m = np.eye(4)
            m[:3, :3] = _rot(g) * float(g.integers(1, 4))
            m[:3, 3] = g.integers(-4, 5, size=3)
            return m
        return g.normal(size=shape)
    if kind.startswith("idx:"):   # int64 indices below ctx[<name>]
        n = int(ctx.get(kind[4:], 0))
        if n <= 0:
            if int(np.prod(shape)) == 0:
                return np.zeros(shape, dtype=np.int64)
            return None
        return g.integers(0, n, size=shape).astype(np.int64)
    if kind.startswith("nidx:"):  # int64 indices in either spelling: -(n-1) .. n-1 (with_insertions accepts -num_v .. num_v)
        n = int(ctx.get(kind[5:], 0))
        if n <= 0:
            if int(np.prod(shape)) == 0:
                return np.zeros(shape, dtype=np.int64)
            return None
        return g.integers(-(n - 1), n, size=shape).astype(np.int64)
    if kind.startswith("sidx:"):  # strictly increasing interior indices (sectioned breakpoints)
        n = int(ctx.get(kind[5:], 0))
        size = int(np.prod(shape))
        if len(shape) == 1:
            if size > max(n - 2, 0):
                return None
            return np.sort(g.choice(np.arange(1, n - 1), size=size, replace=False)).astype(np.int64) if size else np.zeros(0, dtype=np.int64)
        if n <= 2:
            return None
        return g.integers(1, n - 1, size=shape).astype(np.int64)
    raise ValueError(kind)


# ---------------------------------------------------------------------------------------------------
# registry

REG = {}
ORDER = []


class Entry:
    def __init__(self, name, args, forms, call, selfs=None, stack=None, model=True, impl_raises=False,
                 note="", float_ok=True, ctx=None, no_purity=False, anchors=False, flags=None):
        self.name = name
        self.args = args                  # [(argname, kind)]
        self.forms = forms                # [ {argname: pattern|None|"num"} ]
        self.call = call                  # call(A, S) -> result ; A: {argname: array}, S: the self object or None
        self.selfs = selfs or [None]      # names of self factories (see SELF)
        self.stack = stack                # dict(stacked=[…], mode="index"|"slice", single=fn|None) or None
        self.model = model                # False: no generated signature to compare with (no array checks at all)
        self.impl_raises = impl_raises    # True: NumPy/vg raise for some wrong shapes; model comparison is one-sided
        self.note = note
        self.ctx = ctx or (lambda shapes, S: {})
        self.no_purity = no_purity
        self.flags = flags or {}          # truth values of the non-shape conditions named in the generated signature


def reg(name, args, forms, call, **kw):
    e = Entry(name, args, forms, call, **kw)
    REG[name] = e
    ORDER.append(name)
    return e


P3 = (3,)
K3 = ("k", 3)


def _plane():
    import polliwog.plane as m
    return m


def _line():
    import polliwog.line as m
    return m


def _seg():
    import polliwog.segment as m
    return m


def _tri():
    import polliwog.tri as m
    return m


def _tf():
    import polliwog.transform as m
    return m


def _shp():
    import polliwog.shapes as m
    return m


def _pc():
    import polliwog.pointcloud as m
    return m


def _pl():
    import polliwog.polyline as m
    return m


def fn(mod, name, *argnames, **fixed):
    """call adapter: module-level function with the array arguments by keyword (omitted when absent)"""
    def call(A, S):
        f = getattr(mod(), name)
        kw = {a: A[a] for a in argnames if a in A}
        kw.update(fixed)
        return f(**kw)
    return call


def meth(name, *argnames, **fixed):
    def call(A, S):
        kw = {a: A[a] for a in argnames if a in A}
        kw.update(fixed)
        return getattr(S, name)(**kw)
    return call


def cmeth(cls, name, *argnames, **fixed):
    def call(A, S):
        import polliwog
        kw = {a: A[a] for a in argnames if a in A}
        kw.update(fixed)
        return getattr(getattr(polliwog, cls), name)(**kw)
    return call


def ctor(cls, *argnames, **fixed):
    def call(A, S):
        import polliwog
        kw = {a: A[a] for a in argnames if a in A}
        kw.update(fixed)
        return getattr(polliwog, cls)(**kw)
    return call


# the four documented combinations of "points against planes / lines"
def pt_vs(other, tail):
    return [{"points": P3, other: (tail,)}, {"points": K3, other: (tail,)},
            {"points": K3, other: ("k", tail)}, {"points": P3, other: ("k", tail)}]


def same(names, single=P3, stacked=K3):
    out = []
    if single is not None:
        out.append({n: single for n in names})
    if stacked is not None:
        out.append({n: stacked for n in names})
    return out


# ---- polliwog.plane -------------------------------------------------------------------------------
reg("plane.plane_normal_from_points", [("points", "f")], [{"points": (3, 3)}, {"points": ("k", 3, 3)}],
    fn(_plane, "plane_normal_from_points", "points"), stack=dict(stacked=["points"]))
reg("plane.plane_equation_from_points", [("points", "f")], [{"points": (3, 3)}, {"points": ("k", 3, 3)}],
    fn(_plane, "plane_equation_from_points", "points"), stack=dict(stacked=["points"]))
reg("plane.normal_and_offset_from_plane_equations", [("plane_equations", "f")],
    [{"plane_equations": (4,)}, {"plane_equations": ("k", 4)}],
    fn(_plane, "normal_and_offset_from_plane_equations", "plane_equations"), stack=dict(stacked=["plane_equations"]))
for _n in ("signed_distance_to_plane", "project_point_to_plane", "mirror_point_across_plane"):
    reg("plane." + _n, [("points", "f"), ("plane_equations", "f")], pt_vs("plane_equations", 4),
        fn(_plane, _n, "points", "plane_equations"), stack=dict(stacked=["points", "plane_equations"]))
reg("plane.intersect_segment_with_plane",
    [("start_points", "f"), ("segment_vectors", "f"), ("points_on_plane", "f"), ("plane_normals", "f")],
    same(["start_points", "segment_vectors", "points_on_plane", "plane_normals"]),
    fn(_plane, "intersect_segment_with_plane", "start_points", "segment_vectors", "points_on_plane", "plane_normals"),
    stack=dict(stacked=["start_points", "segment_vectors", "points_on_plane", "plane_normals"]))
reg("plane.slice_triangles_by_plane",
    [("vertices", "f"), ("faces", "idx:nv"), ("plane_reference_point", "f"), ("plane_normal", "nz"), ("faces_to_slice", "bool")],
    [{"vertices": ("n", 3), "faces": ("m", 3), "plane_reference_point": P3, "plane_normal": P3, "faces_to_slice": None},
     {"vertices": ("n", 3), "faces": ("m", 3), "plane_reference_point": P3, "plane_normal": P3, "faces_to_slice": ("m",)}],
    fn(_plane, "slice_triangles_by_plane", "vertices", "faces", "plane_reference_point", "plane_normal", "faces_to_slice"),
    ctx=lambda sh, S: {"nv": sh["vertices"][0] if sh.get("vertices") is not None and len(sh["vertices"]) == 2 else 1})

# ---- polliwog.line --------------------------------------------------------------------------------
reg("line.intersect_lines", [("p0", "f"), ("q0", "f"), ("p1", "f"), ("q1", "f")], same(["p0", "q0", "p1", "q1"], P3, None),
    fn(_line, "intersect_lines", "p0", "q0", "p1", "q1"))
reg("line.intersect_2d_lines", [("p0", "f"), ("q0", "f"), ("p1", "f"), ("q1", "f")], same(["p0", "q0", "p1", "q1"], (2,), None),
    fn(_line, "intersect_2d_lines", "p0", "q0", "p1", "q1"))
reg("line.project_point_to_line", [("points", "f"), ("reference_points_of_lines", "f"), ("vectors_along_lines", "nz")],
    [{"points": P3, "reference_points_of_lines": P3, "vectors_along_lines": P3},
     {"points": K3, "reference_points_of_lines": P3, "vectors_along_lines": P3},
     {"points": K3, "reference_points_of_lines": K3, "vectors_along_lines": K3},
     {"points": P3, "reference_points_of_lines": K3, "vectors_along_lines": K3}],
    fn(_line, "project_point_to_line", "points", "reference_points_of_lines", "vectors_along_lines"),
    stack=dict(stacked=["points", "reference_points_of_lines", "vectors_along_lines"]))
reg("line.coplanar_points_are_on_same_side_of_line", [("a", "f"), ("b", "f"), ("p1", "f"), ("p2", "f")],
    same(["a", "b", "p1", "p2"]), fn(_line, "coplanar_points_are_on_same_side_of_line", "a", "b", "p1", "p2"),
    stack=dict(stacked=["a", "b", "p1", "p2"]))

# ---- polliwog.segment -----------------------------------------------------------------------------
reg("segment.closest_point_of_line_segment", [("points", "f"), ("start_points", "f"), ("segment_vectors", "f")],
    same(["points", "start_points", "segment_vectors"], None, K3),
    fn(_seg, "closest_point_of_line_segment", "points", "start_points", "segment_vectors", ret_t_values=True),
    stack=dict(stacked=["points", "start_points", "segment_vectors"], mode="slice"))
reg("segment.is_point_on_line_segment", [("query_points", "f"), ("start_points", "f"), ("segment_vectors", "f")],
    same(["query_points", "start_points", "segment_vectors"], None, K3),
    fn(_seg, "is_point_on_line_segment", "query_points", "start_points", "segment_vectors", epsilon=0.25),
    stack=dict(stacked=["query_points", "start_points", "segment_vectors"], mode="slice"))
reg("segment.path_centroid", [("segments", "f")], [{"segments": ("k~1", 2, 3)}], fn(_seg, "path_centroid", "segments"))
reg("segment.subdivide_segment", [("p1", "f"), ("p2", "f")], [{"p1": ("n",), "p2": ("n",)}],
    fn(_seg, "subdivide_segment", "p1", "p2", num_points=4), note="two points in n-space, as vectors of equal length")
reg("segment.subdivide_segments", [("v", "ff")], [{"v": ("m~1", "n")}],
    fn(_seg, "subdivide_segments", "v", num_subdivisions=3), note="'v: V x N np.array of points in N-space'")

# ---- polliwog.tri ---------------------------------------------------------------------------------
reg("tri.edges_of_faces", [("faces", "idx:big")], [{"faces": K3}], fn(_tri, "edges_of_faces", "faces"),
    ctx=lambda sh, S: {"big": 7})
reg("tri.surface_normals", [("points", "f")], [{"points": (3, 3)}, {"points": ("k", 3, 3)}],
    fn(_tri, "surface_normals", "points"), stack=dict(stacked=["points"]))
reg("tri.surface_area", [("vertices_of_tris", "f")], [{"vertices_of_tris": (3, 3)}, {"vertices_of_tris": ("k", 3, 3)}],
    fn(_tri, "surface_area", "vertices_of_tris"), stack=dict(stacked=["vertices_of_tris"]))
reg("tri.tri_contains_coplanar_point", [("a", "f"), ("b", "f"), ("c", "f"), ("point", "f")], same(["a", "b", "c", "point"]),
    fn(_tri, "tri_contains_coplanar_point", "a", "b", "c", "point"), stack=dict(stacked=["a", "b", "c", "point"]))
reg("tri.barycentric_coordinates_of_points", [("vertices_of_tris", "f"), ("points", "f")],
    [{"vertices_of_tris": ("k", 3, 3), "points": K3}],
    fn(_tri, "barycentric_coordinates_of_points", "vertices_of_tris", "points"),
    stack=dict(stacked=["vertices_of_tris", "points"], mode="slice"))
reg("tri.sample", [("vertices_of_tris", "tris"), ("weights", "pos")],
    [{"vertices_of_tris": ("k", 3, 3), "weights": None}, {"vertices_of_tris": ("k", 3, 3), "weights": ("k",)}],
    fn(_tri, "sample", "vertices_of_tris", "weights", num_samples=5, ret_face_indices=True))
reg("tri.quads_to_tris", [("quads", "idx:big")], [{"quads": ("k", 4)}], fn(_tri, "quads_to_tris", "quads", ret_mapping=True),
    ctx=lambda sh, S: {"big": 9})

# ---- polliwog.transform ---------------------------------------------------------------------------
reg("transform.apply_transform", [("transform", "m44")], [{"transform": (4, 4)}],
    lambda A, S: _tf().apply_transform(A["transform"])(np.array([1.0, 2.0, 3.0])))
for _flags in ((False, False), (True, False), (False, True)):
    reg("transform.apply_transform.apply" + ("" if _flags == (False, False) else "[discard_z]" if _flags[0] else "[vector]"),
        [("points", "f")], [{"points": P3}, {"points": K3}],
        (lambda fl: lambda A, S: _tf().apply_transform(S)(A["points"], discard_z_coord=fl[0], treat_input_as_vector=fl[1]))(_flags),
        selfs=["m44"], stack=dict(stacked=["points"]))
reg("transform.euler", [("xyz", "ff")], [{"xyz": ("n",)}, {"xyz": "num"}, {"xyz": ()}], lambda A, S: _tf().euler(A["xyz"], order="zxy", units="rad"),
    note="a sequence of angles, or one angle as a scalar (Python number or 0-d array)")
reg("transform.rodrigues_vector_to_rotation_matrix", [("r", "ff")], [{"r": P3}, {"r": (3, 1)}, {"r": (1, 3)}],
    fn(_tf, "rodrigues_vector_to_rotation_matrix", "r", calculate_jacobian=True))
reg("transform.rotation_matrix_to_rodrigues_vector", [("r", "rot")], [{"r": (3, 3)}],
    fn(_tf, "rotation_matrix_to_rodrigues_vector", "r", calculate_jacobian=True))
reg("transform.cv2_rodrigues", [("r", "rot")], [{"r": P3}, {"r": (3, 1)}, {"r": (1, 3)}, {"r": (3, 3)}],
    fn(_tf, "cv2_rodrigues", "r"))
reg("transform.rotation_from_up_and_look", [("up", "nz"), ("look", "nzb")], same(["up", "look"], P3, None),
    fn(_tf, "rotation_from_up_and_look", "up", "look"))
reg("transform.world_to_view", [("position", "f"), ("target", "nzb"), ("up", "nz")], same(["position", "target", "up"], P3, None),
    fn(_tf, "world_to_view", "position", "target", "up"), impl_raises=True,
    note="`up` has no shape check of its own; vg.cross / np.array reject the wrong shapes")
reg("transform.world_to_canvas_orthographic_projection", [("position", "f"), ("target", "nzb")], same(["position", "target"], P3, None),
    fn(_tf, "world_to_canvas_orthographic_projection", "position", "target", width=400.0, height=300.0))
reg("transform.transform_matrix_for_rotation", [("rotation", "rot")], [{"rotation": (3, 3)}, {"rotation": P3}],
    fn(_tf, "transform_matrix_for_rotation", "rotation", ret_inverse_matrix=True))
reg("transform.transform_matrix_for_translation", [("translation", "f")], [{"translation": P3}],
    fn(_tf, "transform_matrix_for_translation", "translation", ret_inverse_matrix=True))
reg("transform.view_to_orthographic_projection", [], [{}], lambda A, S: _tf().view_to_orthographic_projection(400.0, 300.0), model=False)
reg("transform.viewport_transform", [], [{}], lambda A, S: _tf().viewport_transform(400.0, 300.0), model=False)
reg("transform.transform_matrix_for_non_uniform_scale", [], [{}],
    lambda A, S: _tf().transform_matrix_for_non_uniform_scale(2.0, 3.0, 0.5, ret_inverse_matrix=True), model=False)
reg("transform.transform_matrix_for_uniform_scale", [], [{}],
    lambda A, S: _tf().transform_matrix_for_uniform_scale(2.0, ret_inverse_matrix=True), model=False)

# ---- polliwog.shapes ------------------------------------------------------------------------------
reg("shapes.rectangular_prism", [("origin", "f"), ("size", "pos")], same(["origin", "size"], P3, None),
    fn(_shp, "rectangular_prism", "origin", "size", ret_unique_vertices_and_faces=True))
reg("shapes.cube", [("origin", "f")], [{"origin": P3}], fn(_shp, "cube", "origin", size=2.0))
reg("shapes.triangular_prism", [("p1", "f"), ("p2", "ff"), ("p3", "ff")], same(["p1", "p2", "p3"], P3, None),
    fn(_shp, "triangular_prism", "p1", "p2", "p3", height=1.5))

# ---- polliwog.pointcloud --------------------------------------------------------------------------
reg("pointcloud.extent", [("points", "f")], [{"points": ("k>=2", 3)}], fn(_pc, "extent", "points", ret_indices=True))
reg("pointcloud.percentile", [("points", "f"), ("axis", "nz")], [{"points": ("k>=1", 3), "axis": P3}],
    fn(_pc, "percentile", "points", "axis", percentile=25.0))

# ---- polliwog.polyline (module-level) -------------------------------------------------------------
reg("polyline.edges_for", [], [{}], lambda A, S: _pl().edges_for(5, True), model=False)
reg("polyline.inflection_points", [("points", "ff"), ("rise_axis", "nz"), ("run_axis", "nzb")],
    [{"points": ("k~2", 3), "rise_axis": P3, "run_axis": P3}],
    fn(_pl, "inflection_points", "points", "rise_axis", "run_axis"), impl_raises=True,
    note="np.gradient needs two points: (0,3)/(1,3) pass the shape checks and fail in NumPy with ValueError")
reg("polyline.point_of_max_acceleration", [("points", "ff"), ("rise_axis", "nz"), ("run_axis", "nzb")],
    [{"points": ("k>=2", 3), "rise_axis": P3, "run_axis": P3}],
    fn(_pl, "point_of_max_acceleration", "points", "rise_axis", "run_axis"))

# ---- Plane ----------------------------------------------------------------------------------------
reg("Plane.__init__", [("reference_point", "f"), ("normal", "unit")], same(["reference_point", "normal"], P3, None),
    ctor("Plane", "reference_point", "normal"))
reg("Plane.from_point_and_normal", [("reference_point", "f"), ("normal", "nz")], same(["reference_point", "normal"], P3, None),
    cmeth("Plane", "from_point_and_normal", "reference_point", "normal"), impl_raises=True,
    note="`normal` goes through vg.normalize before the constructor checks it")
reg("Plane.from_points", [("p1", "f"), ("p2", "ff"), ("p3", "ff")], same(["p1", "p2", "p3"], P3, None),
    cmeth("Plane", "from_points", "p1", "p2", "p3"))
reg("Plane.from_points_and_vector", [("p1", "f"), ("p2", "ff"), ("vector", "ff")], same(["p1", "p2", "vector"], P3, None),
    cmeth("Plane", "from_points_and_vector", "p1", "p2", "vector"))
reg("Plane.fit_from_points", [("points", "ff")], [{"points": ("k~3", 3)}], cmeth("Plane", "fit_from_points", "points"))
for _n in ("sign", "signed_distance", "distance", "project_point", "mirror_point"):
    reg("Plane." + _n, [("points", "f")], [{"points": P3}, {"points": K3}], meth(_n, "points"), selfs=["plane"],
        stack=dict(stacked=["points"]))
for _n in ("points_in_front", "points_on_or_in_front"):
    for _inv in (False, True):
        for _ri in (False, True):
            reg("Plane.%s%s" % (_n, "" if (not _inv and not _ri) else "[%s]" % ",".join(x for x, y in (("inverted", _inv), ("ret_indices", _ri)) if y)),
                [("points", "f")], [{"points": K3}], meth(_n, "points", inverted=_inv, ret_indices=_ri), selfs=["plane"])
reg("Plane.line_xsection", [("pt", "f"), ("ray", "nz")], same(["pt", "ray"], P3, None), meth("line_xsection", "pt", "ray"), selfs=["plane"])
reg("Plane.line_segment_xsection", [("a", "f"), ("b", "f")], same(["a", "b"], P3, None), meth("line_segment_xsection", "a", "b"), selfs=["plane"])
reg("Plane.line_xsections", [("pts", "f"), ("rays", "f")], same(["pts", "rays"], None, K3), meth("line_xsections", "pts", "rays"),
    selfs=["plane", "plane_axis"], stack=dict(stacked=["pts", "rays"], mode="slice", single=("line_xsection", {"pts": "pt", "rays": "ray"})))
reg("Plane.line_segment_xsections", [("a", "f"), ("b", "f")], same(["a", "b"], None, K3), meth("line_segment_xsections", "a", "b"),
    selfs=["plane", "plane_axis"], stack=dict(stacked=["a", "b"], mode="slice", single=("line_segment_xsection", {"a": "a", "b": "b"})))
reg("Plane.tilted", [("new_point", "ff"), ("coplanar_point", "ff")], same(["new_point", "coplanar_point"], P3, None),
    meth("tilted", "new_point", "coplanar_point"), selfs=["plane"])
reg("Plane.rounded", [], [{}], lambda A, S: S.rounded(), selfs=["plane_axis"], model=False)
reg("Plane.serialize", [], [{}], lambda A, S: S.serialize(), selfs=["plane_axis"], model=False)
reg("Plane.flipped", [], [{}], lambda A, S: S.flipped(), selfs=["plane"], model=False)
reg("Plane.flipped_if", [], [{}], lambda A, S: S.flipped_if(True), selfs=["plane"], model=False)
reg("Plane.equation", [], [{}], lambda A, S: (S.equation, S.canonical_point), selfs=["plane"], model=False)

# ---- Box ------------------------------------------------------------------------------------------
reg("Box.__init__", [("origin", "f"), ("size", "pos")], same(["origin", "size"], P3, None), ctor("Box", "origin", "size"))
reg("Box.from_points", [("points", "f")], [{"points": ("k>=1", 3)}], cmeth("Box", "from_points", "points"))
reg("Box.contains", [("point", "f")], [{"point": P3}], meth("contains", "point"), selfs=["box"])
reg("Box.accessors", [], [{}],
    lambda A, S: tuple(getattr(S, n) for n in ("ranges", "min_x", "max_y", "mid_z", "min_x_plane", "max_y_plane", "min_z_plane", "width",
                                                 "height", "depth", "center_point", "floor_point", "volume", "surface_area", "v")),
    selfs=["box"], model=False)

# ---- Line -----------------------------------------------------------------------------------------
reg("Line.__init__", [("point", "f"), ("along", "nz")], same(["point", "along"], P3, None), ctor("Line", "point", "along"))
reg("Line.from_points", [("p1", "f"), ("p2", "ff")], same(["p1", "p2"], P3, None), cmeth("Line", "from_points", "p1", "p2"))
reg("Line.project", [("points", "f")], [{"points": P3}, {"points": K3}], meth("project", "points"), selfs=["line"],
    stack=dict(stacked=["points"]))
reg("Line.intersect_line", [], [{}], lambda A, S: S[0].intersect_line(S[1]), selfs=["line_pair"], model=False)

# ---- Polyline -------------------------------------------------------------------------------------
PSELF = ["polyline_open", "polyline_closed"]
reg("Polyline.__init__", [("v", "f")], [{"v": K3}], ctor("Polyline", "v", is_closed=True))
reg("Polyline.index_of_vertex", [("point", "vtx")], [{"point": P3}], meth("index_of_vertex", "point"), selfs=PSELF)
reg("Polyline.with_insertions", [("points", "f"), ("indices", "nidx:num_v1")], [{"points": K3, "indices": ("k",)}],
    meth("with_insertions", "points", "indices", ret_new_indices=True), selfs=PSELF)
reg("Polyline.aligned_with", [("vector", "nz")], [{"vector": P3}], meth("aligned_with", "vector"), selfs=["polyline_open"])
reg("Polyline.aligned_along_subsegment", [("p1", "f"), ("p2", "ff")], same(["p1", "p2"], P3, None),
    meth("aligned_along_subsegment", "p1", "p2"), selfs=PSELF)
reg("Polyline.subdivided_by_length", [("edges_to_subdivide", "bool")],
    [{"edges_to_subdivide": None}, {"edges_to_subdivide": ("self.num_e",)}],
    meth("subdivided_by_length", "edges_to_subdivide", max_length=0.75, ret_indices=True), selfs=PSELF)
reg("Polyline.with_segments_bisected", [("segment_indices", "idx:num_e")], [{"segment_indices": ("k",)}],
    meth("with_segments_bisected", "segment_indices", ret_new_indices=True), selfs=PSELF,
    note="a one-dimensional array (or list) of segment indices")
reg("Polyline.apex", [("axis", "nz")], [{"axis": P3}], meth("apex", "axis"), selfs=PSELF, impl_raises=True,
    note="validated inside vg.apex only")
for _fl in ((False, False, False), (True, False, False), (False, True, False), (True, True, True), (True, False, True)):
    _tag = ",".join(n for n, y in zip(("ret_segment_indices", "ret_distances", "ret_t_values"), _fl) if y)
    reg("Polyline.nearest" + ("[%s]" % _tag if _tag else ""), [("points", "ff")], [{"points": P3}, {"points": K3}],
        meth("nearest", "points", ret_segment_indices=_fl[0], ret_distances=_fl[1], ret_t_values=_fl[2]), selfs=PSELF,
        stack=dict(stacked=["points"]))
reg("Polyline.sliced_at_points", [("start_point", "vtx1"), ("end_point", "vtx3")], same(["start_point", "end_point"], P3, None),
    meth("sliced_at_points", "start_point", "end_point"), selfs=PSELF)
reg("Polyline.sectioned", [("section_breakpoints", "sidx:num_v")], [{"section_breakpoints": ("k",)}],
    meth("sectioned", "section_breakpoints"), selfs=["polyline_open"])
reg("Polyline.point_along_path", [("fraction_of_total", "frac")], [{"fraction_of_total": "num"}, {"fraction_of_total": ("k",)}],
    meth("point_along_path", "fraction_of_total"), selfs=PSELF, stack=dict(stacked=["fraction_of_total"], scalar_rows=True))
reg("Polyline.no_array_methods", [], [{}],
    lambda A, S: (S.rounded(2), S.serialize(), S.flipped(), S.flipped_if(True), S.segments, S.segment_vectors, S.segment_lengths,
                  S.total_length, S.path_centroid, S.bounding_box, len(S), S.num_e, repr(S), S.sliced_at_indices(1, 3)),
    selfs=PSELF, model=False)
reg("Polyline.rolled", [], [{}], lambda A, S: S.rolled(2, ret_edge_mapping=True), selfs=["polyline_closed"], model=False)
reg("Polyline.intersect_plane", [], [{}], lambda A, S: S[0].intersect_plane(S[1], ret_edge_indices=True), selfs=["polyline_and_plane"], model=False)
reg("Polyline.sliced_by_plane", [], [{}], lambda A, S: S[0].sliced_by_plane(S[1]), selfs=["polyline_and_plane"], model=False)
reg("Polyline.join", [], [{}], lambda A, S: type(S[0]).join(S[0], S[0], is_closed=True), selfs=["polyline_and_plane"], model=False)

# ---- CompositeTransform / CoordinateManager -------------------------------------------------------
reg("CompositeTransform.__call__", [("points", "f")], [{"points": P3}, {"points": K3}],
    lambda A, S: S(A["points"], from_range=(0, 2), reverse=True), selfs=["composite", "composite_empty"],
    stack=dict(stacked=["points"]))
reg("CompositeTransform.append_transform", [("forward", "m44"), ("reverse", "m44")],
    [{"forward": (4, 4), "reverse": None}, {"forward": (4, 4), "reverse": (4, 4)}], meth("append_transform", "forward", "reverse"),
    selfs=["composite"])
reg("CompositeTransform.translate", [("translation", "f")], [{"translation": P3}], meth("translate", "translation"), selfs=["composite"])
reg("CompositeTransform.reorient", [("up", "nz"), ("look", "nzb")], same(["up", "look"], P3, None), meth("reorient", "up", "look"), selfs=["composite"])
reg("CompositeTransform.rotate", [("rotation", "rot")], [{"rotation": (3, 3)}, {"rotation": P3}], meth("rotate", "rotation"), selfs=["composite"])
reg("CompositeTransform.scalar_methods", [], [{}],
    lambda A, S: (S.uniform_scale(2.0), S.non_uniform_scale(1.0, 2.0, 3.0), S.flip(1), S.convert_units("cm", "m"),
                  S.transform_matrix_for(from_range=(0, 3), reverse=True), S.transform_matrix_for()),
    selfs=["composite"], model=False)
reg("CompositeTransform.transform_matrix_for", [], [{}],
    lambda A, S: (S.transform_matrix_for(), S.transform_matrix_for(from_range=(0, 2), reverse=True)),
    selfs=["composite", "composite_empty"], model=False)
reg("CoordinateManager.__setattr__", [("points", "f")], [{"points": K3}], lambda A, S: setattr(S, "a", A["points"]), selfs=["manager"])
reg("CoordinateManager.do_transform", [("points", "f")], [{"points": P3}, {"points": K3}],
    lambda A, S: S.do_transform(A["points"], "a", "c"), selfs=["manager"], stack=dict(stacked=["points"]),
    flags={"from_index==to_index": False, "from_index<to_index": True})
reg("CoordinateManager.do_transform[reverse]", [("points", "f")], [{"points": P3}, {"points": K3}],
    lambda A, S: S.do_transform(A["points"], "c", "b"), selfs=["manager"], stack=dict(stacked=["points"]),
    flags={"from_index==to_index": False, "from_index<to_index": False})
reg("CoordinateManager.do_transform[same-tag]", [("points", "f")], [{"points": P3}, {"points": K3}],
    lambda A, S: S.do_transform(A["points"], "b", "b"), selfs=["manager"], flags={"from_index==to_index": True})
reg("CoordinateManager.translate", [("translation", "f")], [{"translation": P3}], lambda A, S: S.translate(A["translation"]), selfs=["manager"])
reg("CoordinateManager.rotate", [("rotation", "rot")], [{"rotation": (3, 3)}, {"rotation": P3}], lambda A, S: S.rotate(A["rotation"]), selfs=["manager"])
reg("CoordinateManager.reorient", [("up", "nz"), ("look", "nzb")], same(["up", "look"], P3, None),
    lambda A, S: S.reorient(A["up"], A["look"]), selfs=["manager"])
reg("CoordinateManager.append_transform", [("forward", "m44"), ("reverse", "m44")],
    [{"forward": (4, 4), "reverse": None}, {"forward": (4, 4), "reverse": (4, 4)}],
    lambda A, S: S.append_transform(A["forward"], **({"reverse": A["reverse"]} if "reverse" in A else {})), selfs=["manager"])
reg("CoordinateManager.scalar_methods", [], [{}],
    lambda A, S: (S.uniform_scale(2.0), S.non_uniform_scale(1.0, 2.0, 3.0), S.flip(1), S.convert_units("cm", "m"), S.tag_as("z"), S.c),
    selfs=["manager_set"], model=False)

NAMES = list(ORDER)
