"""C12 — viewing matrices map the documented volumes and inverse=True really inverts.

Correspondence: world_to_view, view_to_orthographic_projection, viewport_transform,
world_to_canvas_orthographic_projection against PW.Model.Viewing (exact rationals and Float), and the closed forms
the translator extracted from the source (PW.Gen.Viewing) executed by the driver against the real functions.
Oracle: forward * inverse in both orders, images of the corners of the view box / the cube, position -> 0,
target -> (0,0,dist), up -> (0, y>0, .), distance preservation, canvas = product of the three public stages —
exact `Fraction` arithmetic on the implementation's matrices.
"""
import math
from fractions import Fraction

import numpy as np

from pwlib.share import shcopy

from pwlib import gens
from pwlib.canon import flat
from pwlib.engine import Case
from pwlib.proto import Line

ID = "C12"
TARGETS = ["PW.Props.C12"]
RULE = ("streams: lattice (integer/dyadic parameters incl. zero width/height/zoom, near = far, empty rectangles -> the "
        "ZeroDivisionError branches; axis-aligned cameras incl. position = target and up parallel to the view direction -> "
        "NaN entries), float (magnitudes 1e-6..1e6; up at least 1e-3 rad away from the view direction). Every spec is run "
        "with inverse False and True; ortho / viewport also with the defaults left to the source and through the generated "
        "closed forms. A case is non-trivial unless it is a degenerate (raising / NaN) configuration; distinct = distinct spec")
TRUSTED = ["vg.normalize / vg.cross / np.dot modelled as v/sqrt(v.v), cross product, matrix product",
           "scalar parameters are Python floats/ints (division by zero raises ZeroDivisionError; numpy scalars would give inf)",
           "IEEE rounding not modelled: numeric outputs compared with rtol 1e-9*scale, exception classes and NaN positions exactly"]
ASSUMPTIONS = ["camera: |position|,|target - position| within 1e-6..1e6; up not within 1e-3 rad of the viewing direction in the float stream",
               "width, height, zoom, |far - near|, rectangle sides within 1e-6..1e6 in the float stream"]
EXHAUSTIVE = {"quick": False, "thorough": False}

F = Fraction


def Fr(x):
    return Fraction(float(x))


def FM(M):
    return [[Fr(x) for x in row] for row in np.asarray(M, dtype=np.float64)]


def mmul(A, B):
    return [[sum(A[i][t] * B[t][j] for t in range(len(B))) for j in range(len(B[0]))] for i in range(len(A))]


def mvec(A, v):
    return [sum(a * b for a, b in zip(row, v)) for row in A]


def maxabs(A):
    return max(abs(x) for row in A for x in row)


def ident_resid(A):
    return max(abs(A[i][j] - (1 if i == j else 0)) for i in range(4) for j in range(4))


def dedupe(out):
    seen = {}
    for k, m in out:
        seen.setdefault(k, m)
    return list(seen.items())


def inverse_clause(key, A, B, out, rel=F(1, 10 ** 12)):
    tol = rel * (maxabs(A) * maxabs(B) * 4 + 1)
    for nm, P in (("forward*inverse", mmul(A, B)), ("inverse*forward", mmul(B, A))):
        r = ident_resid(P)
        if r > tol:
            out.append((key + "/inverse", "%s differs from the identity by %g" % (nm, float(r))))


# ---------------------------------------------------------------------------------------------------
# generators

LATV = [0.0, 0.0, 0.5, 1.0, 1.0, 2.0, 3.0, 4.0, 8.0, 640.0, -1.0, -2.0, 0.25]


def gen(rng, tier):
    q = tier == "quick"
    # ---- view_to_orthographic_projection
    for i in range(400 if q else 4000):
        if i % 2 == 0:
            w, h = rng.choice(LATV), rng.choice(LATV)
            near = rng.choice([0.0, 0.5, 1.0, 2.0, -1.0, 0.125])
            far = rng.choice([near, near + 1.0, near + 4.0, near - 2.0, 100.0]) if rng.random() < 0.8 else near
            yield {"op": "ortho", "stream": "lattice", "w": w, "h": h, "near": near, "far": far,
                   "ints": rng.random() < 0.3, "defaults": rng.random() < 0.25}
        else:
            near = gens.scale_of(rng, -3, 3)
            yield {"op": "ortho", "stream": "float", "w": gens.scale_of(rng), "h": gens.scale_of(rng), "near": near,
                   "far": near + gens.scale_of(rng, -3, 4), "ints": False, "defaults": rng.random() < 0.25}
    # ---- viewport_transform
    for i in range(400 if q else 4000):
        if i % 2 == 0:
            xl, yt = rng.choice([0.0, 0.0, 1.0, -2.0, 10.0]), rng.choice([0.0, 0.0, 1.0, -2.0, 10.0])
            xr = rng.choice([xl, xl + 1.0, xl + 640.0, xl - 3.0, xl + 0.5])
            yb = rng.choice([yt, yt + 1.0, yt + 480.0, yt - 3.0, yt + 0.25])
            yield {"op": "viewport", "stream": "lattice", "xr": xr, "yb": yb, "xl": xl, "yt": yt,
                   "ints": rng.random() < 0.3, "defaults": rng.random() < 0.25}
        else:
            s = gens.scale_of(rng)
            xl, yt = rng.uniform(-1, 1) * s, rng.uniform(-1, 1) * s
            yield {"op": "viewport", "stream": "float", "xr": xl + rng.choice([-1, 1]) * gens.scale_of(rng, -3, 4),
                   "yb": yt + rng.choice([-1, 1]) * gens.scale_of(rng, -3, 4), "xl": xl, "yt": yt, "ints": False,
                   "defaults": rng.random() < 0.25}
    # ---- world_to_view
    for i in range(400 if q else 4000):
        r = rng.random()
        if r < 0.3:
            # lattice: view direction along an axis (unit vectors exact), lattice up
            ax = rng.randrange(3)
            d = [0.0, 0.0, 0.0]
            d[ax] = rng.choice([-4.0, -1.0, 0.5, 2.0, 3.0])
            pos = gens.lat(rng, 4, rng.choice([1, 2]))
            up = gens.lat(rng, 2)
            if rng.random() < 0.1:
                d = [0.0, 0.0, 0.0]         # position = target: NaN rotation
            if rng.random() < 0.1:
                up = [x * 2 for x in d]     # up parallel to the view direction: NaN left/up rows
            yield {"op": "w2v", "stream": "lattice", "pos": pos, "tgt": [a + b for a, b in zip(pos, d)], "up": up}
        elif r < 0.45:
            yield {"op": "w2v", "stream": "float-default-up", "seed": rng.randrange(1 << 30)}
        else:
            yield {"op": "w2v", "stream": "float", "seed": rng.randrange(1 << 30)}
    for i in range(6 if q else 40):
        yield {"op": "w2v-shape", "stream": "malformed", "which": rng.choice(["position", "target"]),
               "shape": rng.choice([[2], [4], [1, 3], [3, 3]])}
    # ---- world_to_canvas_orthographic_projection
    for i in range(300 if q else 3000):
        r = rng.random()
        if r < 0.35:
            ax = rng.randrange(3)
            d = [0.0, 0.0, 0.0]
            d[ax] = rng.choice([-4.0, -1.0, 0.5, 2.0, 3.0])
            pos = gens.lat(rng, 4, rng.choice([1, 2]))
            yield {"op": "canvas", "stream": "lattice", "w": rng.choice(LATV), "h": rng.choice(LATV), "pos": pos,
                   "tgt": [a + b for a, b in zip(pos, d)], "zoom": rng.choice([0.0, 0.5, 1.0, 1.0, 2.0, 4.0, -1.0]),
                   "default_zoom": rng.random() < 0.2}
        else:
            yield {"op": "canvas", "stream": "float", "seed": rng.randrange(1 << 30), "default_zoom": rng.random() < 0.2}


# ---------------------------------------------------------------------------------------------------
# cases

def make(spec):
    return MAKERS[spec["op"]](spec)


def pyn(x, ints):
    return int(x) if ints and float(x).is_integer() else float(x)


def guarded(f):
    """impl thunk: 4x4 -> 16 numbers"""
    def g():
        r = np.asarray(f())
        if r.shape != (4, 4):
            raise RuntimeError("shape %s" % (r.shape,))
        return flat(r)
    return g


def make_ortho(spec):
    from polliwog.transform import view_to_orthographic_projection as vop
    ints = spec["ints"]
    w, h = pyn(spec["w"], ints), pyn(spec["h"], ints)
    defaults = spec["defaults"]
    near, far = (0.1, 2000) if defaults else (pyn(spec["near"], ints), pyn(spec["far"], ints))
    kw = {} if defaults else {"near": near, "far": far}
    fwd_ok = w != 0 and h != 0 and far != near
    inv_ok = far != near
    span = abs(float(far) - float(near))
    scale = max(1.0, abs(w), abs(h), span, (abs(far) + abs(near)) / span if span else 1.0,
                2 / abs(w) if w else 1.0, 2 / abs(h) if h else 1.0, 2 / span if span else 1.0)
    cases = []
    for inv in (False, True):
        ok = inv_ok if inv else fwd_ok
        f = lambda inv=inv: vop(w, h, inverse=inv, **kw)
        if defaults:
            line = Line("c12.view.ortho.defaults").b(inv).f(w, h)
        else:
            line = Line("c12.view.ortho").b(inv).f(w, h, near, far)
        kl = "ortho/%s/%s/%s%s" % (spec["stream"], "inv" if inv else "fwd", "ok" if ok else "zerodiv", "/defaults" if defaults else "")
        cases.append(Case(spec, line, guarded(f), mode="both", klass=kl, trivial=not ok, scale=scale))
        if ok:
            cases.append(Case(spec, Line("c12.gen.ortho").b(inv).f(w, h, near, far), guarded(f), mode="both",
                              klass="gen." + kl, scale=scale))

    def oracle(r):
        out = []
        if not fwd_ok:
            # zero width/height or near = far: outside the property's quantifier; the exception class is still
            # compared with the model by the correspondence check
            return out
        if r[0] == "err":
            return [("ortho/no-raise", "raised %s for %s" % (r[1], spec))]
        A = FM(vop(w, h, inverse=False, **kw))
        B = FM(vop(w, h, inverse=True, **kw))
        if A[3] != [0, 0, 0, 1]:
            out.append(("ortho/last-row", "last row %s" % [float(x) for x in A[3]]))
        fw, fh, fn, ff = Fr(w), Fr(h), Fr(near), Fr(far)
        tol = F(1, 10 ** 12) * max(1, abs(fn) / abs(ff - fn), abs(ff) / abs(ff - fn))
        for sx in (-1, 1):
            for sy in (-1, 1):
                for z, wz in ((-fn, -1), (-ff, 1)):
                    p = [sx * fw / 2, sy * fh / 2, z, F(1)]
                    got = mvec(A, p)[:3]
                    want = [sx, sy, wz]
                    if any(abs(g - x) > tol for g, x in zip(got, want)):
                        out.append(("ortho/corners", "corner (%s w/2, %s h/2, %s) of the view box goes to %s, expected %s (w=%r h=%r near=%r far=%r)"
                                    % (sx, sy, "-near" if wz == -1 else "-far", [float(x) for x in got], want, w, h, near, far)))
                    back = mvec(B, [F(x) for x in want] + [F(1)])[:3]
                    # the inverse's z row holds (far - near)/2 and (far + near)/2, whose difference is near: the rounding of
                    # entries of that size is what bounds the accuracy, not the size of the corner itself
                    sc = max([abs(x) for x in p] + [abs(fn), abs(ff), abs(fw), abs(fh)])
                    if any(abs(g - x) > F(1, 10 ** 12) * sc * max(1, tol * 10 ** 12) for g, x in zip(back, p[:3])):
                        out.append(("ortho/inverse-corners", "inverse matrix sends %s to %s, expected %s" % (want, [float(x) for x in back], [float(x) for x in p[:3]])))
        inverse_clause("ortho", A, B, out)
        return dedupe(out)

    cases[0].oracle = oracle
    return cases


def make_viewport(spec):
    from polliwog.transform import viewport_transform as vt
    ints = spec["ints"]
    xr, yb = pyn(spec["xr"], ints), pyn(spec["yb"], ints)
    defaults = spec["defaults"]
    xl, yt = (0, 0) if defaults else (pyn(spec["xl"], ints), pyn(spec["yt"], ints))
    kw = {} if defaults else {"x_left": xl, "y_top": yt}
    inv_ok = (xr - xl) != 0 and (yt - yb) != 0
    dx, dy = abs(float(xr) - float(xl)), abs(float(yt) - float(yb))
    scale = max(1.0, abs(xr), abs(yb), abs(xl), abs(yt), 2 / dx if dx else 1.0, 2 / dy if dy else 1.0)
    cases = []
    for inv in (False, True):
        ok = inv_ok or not inv
        f = lambda inv=inv: vt(xr, yb, inverse=inv, **kw)
        if defaults:
            line = Line("c12.view.viewport.defaults").b(inv).f(xr, yb)
        else:
            line = Line("c12.view.viewport").b(inv).f(xr, yb, xl, yt)
        kl = "viewport/%s/%s/%s%s" % (spec["stream"], "inv" if inv else "fwd", "ok" if ok else "zerodiv", "/defaults" if defaults else "")
        cases.append(Case(spec, line, guarded(f), mode="both", klass=kl, trivial=not inv_ok, scale=scale))
        if ok:
            cases.append(Case(spec, Line("c12.gen.viewport").b(inv).f(xr, yb, xl, yt), guarded(f), mode="both",
                              klass="gen." + kl, scale=scale))

    def oracle(r):
        out = []
        if r[0] == "err":
            return [("viewport/no-raise", "forward matrix raised %s for %s" % (r[1], spec))]
        A = FM(vt(xr, yb, inverse=False, **kw))
        if A[3] != [0, 0, 0, 1]:
            out.append(("viewport/last-row", "last row %s" % [float(x) for x in A[3]]))
        fxr, fyb, fxl, fyt = Fr(xr), Fr(yb), Fr(xl), Fr(yt)
        tol = F(1, 10 ** 12) * Fr(scale)
        for sx, wx in ((-1, fxl), (1, fxr)):
            for sy, wy in ((-1, fyb), (1, fyt)):
                for z, wz in ((-1, F(0)), (1, F(1)), (0, F(1, 2))):
                    got = mvec(A, [F(sx), F(sy), F(z), F(1)])[:3]
                    want = [wx, wy, wz]
                    if any(abs(g - x) > tol for g, x in zip(got, want)):
                        out.append(("viewport/corners", "(%d, %d, %d) goes to %s, expected %s (x_right=%r y_bottom=%r x_left=%r y_top=%r)"
                                    % (sx, sy, z, [float(x) for x in got], [float(x) for x in want], xr, yb, xl, yt)))
        if inv_ok:
            B = FM(vt(xr, yb, inverse=True, **kw))
            inverse_clause("viewport", A, B, out)
        return dedupe(out)

    cases[0].oracle = oracle
    return cases


def camera(spec):
    """-> position, target, up (None = default)"""
    if "pos" in spec:
        return spec["pos"], spec["tgt"], spec.get("up")
    import random
    rng = random.Random(spec["seed"])
    pos = gens.fvec(rng, gens.scale_of(rng))
    look = np.array(gens.unit(rng))
    dist = gens.scale_of(rng)
    tgt = (np.array(pos) + look * dist).tolist()
    if spec["stream"] == "float-default-up" or spec["op"] == "canvas":
        up = None
        # the default up is +y: keep the view direction at least 1e-3 rad away from it
        d = np.array(tgt) - np.array(pos)
        if np.linalg.norm(np.cross(d, [0.0, 1.0, 0.0])) < 1e-3 * np.linalg.norm(d):
            tgt[0] += float(np.linalg.norm(d)) * 0.5
        return pos, tgt, up
    while True:
        u = np.array(gens.unit(rng))
        if np.linalg.norm(np.cross(u, look)) > 1e-3:
            break
    if rng.random() < 0.3:
        # nearly parallel (1e-3 .. 1e-1 rad)
        t = u - u.dot(look) * look
        t /= np.linalg.norm(t)
        a = 10.0 ** rng.uniform(-3, -1)
        u = rng.choice([-1, 1]) * math.cos(a) * look + math.sin(a) * t
    return pos, tgt, (u * gens.scale_of(rng, -3, 3)).tolist()


def make_w2v(spec):
    from polliwog.transform import world_to_view
    pos, tgt, up = camera(spec)
    P, T = np.array(pos, dtype=np.float64), np.array(tgt, dtype=np.float64)
    U = np.array([0.0, 1.0, 0.0]) if up is None else np.array(up, dtype=np.float64)
    kw = {} if up is None else {"up": U}
    d = gens.fsub(T, P)
    cr = gens.fcross(d, [Fr(x) for x in U])
    dd = sum(x * x for x in d)
    degenerate = dd == 0 or all(x == 0 for x in cr)
    scale = max(1.0, gens.maxabs(P), gens.maxabs(T))
    cases = []
    for inv in (False, True):
        f = lambda inv=inv: world_to_view(shcopy(P), shcopy(T), inverse=inv, **{k: v.copy() for k, v in kw.items()})
        kl = "w2v/%s/%s/%s" % (spec["stream"], "inv" if inv else "fwd", "nan" if degenerate else "ok")
        cases.append(Case(spec, Line("c12.view.w2v").b(inv).vec(P).vec(T).vec(U), guarded(f), mode="both", klass=kl,
                          trivial=degenerate, scale=scale))

    def oracle(r):
        out = []
        if r[0] == "err":
            return [("w2v/no-raise", "raised %s for %s" % (r[1], spec))]
        if degenerate:
            return out
        A = FM(world_to_view(shcopy(P), shcopy(T), inverse=False, **kw))
        B = FM(world_to_view(shcopy(P), shcopy(T), inverse=True, **kw))
        if A[3] != [0, 0, 0, 1]:
            out.append(("w2v/last-row", "last row %s" % [float(x) for x in A[3]]))
        fu = [Fr(x) for x in U]
        uu = sum(x * x for x in fu)
        sin_ang = math.sqrt(float(sum(x * x for x in cr) / (dd * uu)))
        rel = F(1, 10 ** 12) + Fr(4e-16 / sin_ang)
        R = [row[:3] for row in A[:3]]
        G = mmul(R, [list(c) for c in zip(*R)])
        g = max(abs(G[i][j] - (1 if i == j else 0)) for i in range(3) for j in range(3))
        if g > rel:
            out.append(("w2v/orthonormal-rows", "rotation rows are not orthonormal (residual %g)" % float(g)))
        tol = rel * Fr(scale) * 8
        fp, ft = [Fr(x) for x in P], [Fr(x) for x in T]
        img = mvec(A, fp + [F(1)])[:3]
        if any(abs(x) > tol for x in img):
            out.append(("w2v/position-to-origin", "camera position goes to %s" % [float(x) for x in img]))
        img = mvec(A, ft + [F(1)])[:3]
        dist = math.sqrt(float(dd))
        if abs(img[0]) > tol or abs(img[1]) > tol or abs(float(img[2]) - dist) > float(tol) + 1e-12 * dist:
            out.append(("w2v/target-to-z", "target goes to %s, expected (0, 0, %r)" % ([float(x) for x in img], dist)))
        img = mvec(A, fu + [F(0)])[:3]
        nu = math.sqrt(float(uu))
        if abs(float(img[0])) > float(rel) * nu * 8 or not img[1] > 0:
            out.append(("w2v/up-to-yz", "up direction goes to %s, expected (0, y>0, .)" % [float(x) for x in img]))
        # distance preserving
        import random
        rng = random.Random(spec.get("seed", 7))
        for _ in range(2):
            a = [Fr(x) for x in gens.fvec(rng, scale)]
            b = [Fr(x) for x in gens.fvec(rng, scale)]
            ia, ib = mvec(A, a + [F(1)])[:3], mvec(A, b + [F(1)])[:3]
            d0 = sum((x - y) ** 2 for x, y in zip(a, b))
            d1 = sum((x - y) ** 2 for x, y in zip(ia, ib))
            if abs(d0 - d1) > rel * 16 * max(d0, Fr(scale) ** 2):
                out.append(("w2v/isometry", "squared distance %r becomes %r" % (float(d0), float(d1))))
        inverse_clause("w2v", A, B, out, rel=rel * 4)
        return dedupe(out)

    cases[0].oracle = oracle
    return cases


def make_w2v_shape(spec):
    from polliwog.transform import world_to_view
    bad = np.ones(spec["shape"])
    good = np.array([0.0, 0.0, 1.0])
    args = (bad, good) if spec["which"] == "position" else (good, bad)

    def oracle(r):
        if r[0] == "err" and r[1] == "ValueError":
            return []
        return [("w2v-shape/raises-ValueError", "%s: expected ValueError, got %s" % (spec, r))]
    return [Case(spec, None, lambda: flat(world_to_view(*args)), klass="w2v-shape", oracle=oracle)]


def canvas_params(spec):
    if "pos" in spec:
        return spec["w"], spec["h"], spec["pos"], spec["tgt"], spec["zoom"]
    import random
    pos, tgt, _ = camera(spec)
    rng = random.Random(spec["seed"] + 1)
    return gens.scale_of(rng, -2, 4), gens.scale_of(rng, -2, 4), pos, tgt, gens.scale_of(rng, -3, 3)


def make_canvas(spec):
    from polliwog.transform import (view_to_orthographic_projection, viewport_transform,
                                    world_to_canvas_orthographic_projection as w2c, world_to_view)
    w, h, pos, tgt, zoom = canvas_params(spec)
    if spec["default_zoom"]:
        zoom = 1
    P, T = np.array(pos, dtype=np.float64), np.array(tgt, dtype=np.float64)
    kw = {} if spec["default_zoom"] else {"zoom": zoom}
    d = gens.fsub(T, P)
    cam_ok = not (d[0] == 0 and d[2] == 0)      # view direction not parallel to the default up (+y), and non-zero
    fwd_ok = zoom != 0 and w != 0 and h != 0
    inv_ok = zoom != 0 and w != 0 and h != 0
    sizes = [abs(x) for x in (w, h, zoom) if x != 0]
    scale = max([1.0, gens.maxabs(P), gens.maxabs(T)] + sizes + [1 / x for x in sizes]) ** 2
    cases = []
    for inv in (False, True):
        ok = (inv_ok if inv else fwd_ok)
        f = lambda inv=inv: w2c(w, h, shcopy(P), shcopy(T), inverse=inv, **kw)
        kl = "canvas/%s/%s/%s" % (spec["stream"], "inv" if inv else "fwd", ("ok" if cam_ok else "nan") if ok else "zerodiv")
        cases.append(Case(spec, Line("c12.view.canvas").b(inv).f(w, h).vec(P).vec(T).f(zoom), guarded(f), mode="both", klass=kl,
                          trivial=not (ok and cam_ok), scale=scale))

    def oracle(r):
        out = []
        if not (fwd_ok and cam_ok and w > 0 and h > 0 and zoom > 0):
            return out
        if r[0] == "err":
            return [("canvas/no-raise", "raised %s for %s" % (r[1], spec))]
        A = FM(w2c(w, h, shcopy(P), shcopy(T), inverse=False, **kw))
        B = FM(w2c(w, h, shcopy(P), shcopy(T), inverse=True, **kw))
        for inv, C in ((False, A), (True, B)):
            st = [FM(world_to_view(shcopy(P), shcopy(T), inverse=inv)),
                  FM(view_to_orthographic_projection(w / zoom, h / zoom, inverse=inv)),
                  FM(viewport_transform(w, h, inverse=inv))]
            if inv:
                st.reverse()
            want = mmul(st[2], mmul(st[1], st[0]))
            tol = F(1, 10 ** 11) * (maxabs(st[0]) * maxabs(st[1]) * maxabs(st[2]) * 16 + 1)
            if max(abs(a - b) for ra, rb in zip(C, want) for a, b in zip(ra, rb)) > tol:
                out.append(("canvas/composition", "inverse=%s: not the three stages composed in order with width/zoom, height/zoom" % inv))
        inverse_clause("canvas", A, B, out, rel=F(1, 10 ** 11))
        return dedupe(out)

    cases[0].oracle = oracle
    return cases


MAKERS = {"ortho": make_ortho, "viewport": make_viewport, "w2v": make_w2v, "w2v-shape": make_w2v_shape, "canvas": make_canvas}
