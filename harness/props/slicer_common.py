"""Shared machinery for the mesh-slicer properties C01 (geometry) and C02 (bookkeeping).

Spec  = {"op": "mesh", "stream": ..., "verts": [[x,y,z]..], "faces": [[i,j,k]..], "o": [..], "n": [..],
         "mask": null | [bool..], "rtol": float}
Cases = the whole mesh through `slice` (assembly) + every face alone through `slice.face` (kernel) + `slice.kinds`.
"""
import itertools
import math
from fractions import Fraction

import numpy as np

from pwlib.share import shcopy

from pwlib import gens
from pwlib.canon import compare as canon_compare
from pwlib.engine import Case
from pwlib.proto import Line, parse_num

TOL = 1e-8          # the merge tolerance the property text names
COUNTERS = {"refactor_tolerant_matches": 0, "strict_matches": 0, "kinds": {}}


def slice_impl(V, F, o, n, mask, ret_map=True):
    from polliwog.plane import slice_triangles_by_plane
    return slice_triangles_by_plane(shcopy(V, keep_dtype=True), shcopy(F), shcopy(o), shcopy(n),
                                    faces_to_slice=None if mask is None else mask.copy(), ret_face_mapping=ret_map)


def arrays(spec):
    V = np.array(np.reshape(spec["verts"], (-1, 3)), dtype=np.float64)
    F = np.array(np.reshape(spec["faces"], (-1, 3)), dtype=np.int64)
    o = np.array(spec["o"], dtype=np.float64)
    n = np.array(spec["n"], dtype=np.float64)
    mask = None if spec.get("mask") is None else np.array(spec["mask"], dtype=bool)
    return V, F, o, n, mask


def impl_items(res):
    v, f, m = res
    out = [int(len(v))] + [float(x) for x in np.asarray(v, dtype=np.float64).ravel()]
    out += [int(len(f))] + [int(x) for x in np.asarray(f).ravel()]
    out += [int(len(m))] + [int(x) for x in np.asarray(m).ravel()]
    return out


def parse_model(line):
    t = line.split(" ")
    assert t[0] == "ok"
    i = 1
    nv = int(t[i]); i += 1
    verts = [[parse_num(x) for x in t[i + 3 * k:i + 3 * k + 3]] for k in range(nv)]
    i += 3 * nv
    nf = int(t[i]); i += 1
    faces = [[int(x) for x in t[i + 3 * k:i + 3 * k + 3]] for k in range(nf)]
    i += 3 * nf
    nm = int(t[i]); i += 1
    mapping = [int(x) for x in t[i:i + nm]]
    return verts, faces, mapping


def tri_key(src, tri, q):
    return (src,) + tuple(round(float(c) / q) for p in tri for c in p)


def abstract_compare(res, model_line, scale, rtol):
    """multiset of (source face, positional triangle): the level the theorems speak at"""
    if res[0] != "ok" or not model_line.startswith("ok"):
        return "abstract: outcome differs"
    it = res[1]
    nv = it[0]
    v = np.array(it[1:1 + 3 * nv]).reshape(-1, 3)
    j = 1 + 3 * nv
    nf = it[j]
    f = np.array(np.reshape(it[j + 1:j + 1 + 3 * nf], (-1, 3)), dtype=int)
    j += 1 + 3 * nf
    m = it[j + 1:j + 1 + it[j]]
    mv, mf, mm = parse_model(model_line)
    if len(f) != len(mf) or len(m) != len(mm):
        return "abstract: %d faces / %d mapping entries vs model %d / %d" % (len(f), len(m), len(mf), len(mm))
    if len(m) != len(f):
        return None  # empty-vertices early return: mapping is arange, compared strictly already
    q = max(scale, 1e-300) * rtol * 4
    a = sorted(tri_key(m[k], [v[i] for i in f[k]], q) for k in range(len(f)))
    b = sorted(tri_key(mm[k], [[float(c) if c is not None else float("nan") for c in mv[i]] for i in mf[k]], q) for k in range(len(mf)))
    for x, y in zip(a, b):
        if x[0] != y[0] or any(abs(p - r) > 2 for p, r in zip(x[1:], y[1:])):
            return "abstract: triangle multiset differs (impl %s vs model %s)" % (x[:4], y[:4])
    return None


def make_cases(spec, want_oracle):
    V, F, o, n, mask = arrays(spec)
    scale = max(gens.maxabs(V, o), 1e-300)
    rtol = spec.get("rtol", 1e-9)
    line = Line("slice").vec(o).vec(n).vecs(V).i(len(F)).i(*F.ravel()).b(mask is not None)
    if mask is not None:
        line.bools(mask)
    trivial = len(F) == 0 or len(V) == 0

    def cmp(res, model_line, mode):
        msg = canon_compare(res, model_line, scale=scale, rtol=rtol)
        if msg is None:
            COUNTERS["strict_matches"] += 1
            return None
        amsg = abstract_compare(res, model_line, scale, rtol)
        if amsg is None and res[0] == "ok":
            # same triangles with the same provenance, different order / vertex numbering: not an alarm,
            # but the vertex-level invariants must still hold on the implementation's arrays (oracle does that)
            COUNTERS["refactor_tolerant_matches"] += 1
            return None
        return msg + (" | " + amsg if amsg else "")

    mode = spec.get("mode", "both")
    cases = [Case(spec, line, lambda: impl_items(slice_impl(V, F, o, n, mask)), mode=mode,
                  klass="slice/" + spec["stream"] + ("/mask" if mask is not None else ""), trivial=trivial,
                  compare=cmp, scale=scale, rtol=rtol)]
    # without ret_face_mapping the same two arrays come back
    if spec.get("check_nomap", True):
        def impl_nomap():
            r = slice_impl(V, F, o, n, mask, ret_map=False)
            r2 = slice_impl(V, F, o, n, mask, ret_map=True)
            same = len(r) == 2 and np.array_equal(r[0], r2[0]) and np.array_equal(r[1], r2[1])
            return [bool(same)]
        cases.append(Case(spec, None, impl_nomap, klass="slice-nomap", trivial=trivial,
                          oracle=lambda r: [] if r == ("ok", [True]) or r[0] == "err" else
                          [("mapping/flag-independent", "result arrays differ between ret_face_mapping on and off")]))
    # kernel, face by face (valid indices only)
    if len(V) and len(F) and spec.get("kernel", True):
        kinds_line = Line("slice.kinds").vec(o).vec(n).vecs(V).i(len(F)).i(*F.ravel()).bools(
            mask if mask is not None else [True] * len(F))
        cases.append(Case(spec, kinds_line, None, mode="rat", klass="kinds", model_only=True,
                          compare=lambda r, a, m: count_kinds(a)))
        for fi, f in enumerate(F[: spec.get("kernel_faces", 12)]):
            sel = True if mask is None else bool(mask[fi])
            P = V[f]
            fl = Line("slice.face").b(sel).vec(o).vec(n).vec(P)

            def impl_face(P=P, sel=sel):
                v2, f2, _ = slice_impl(P, np.array([[0, 1, 2]], dtype=np.int64), o, n, np.array([sel]))
                tr = v2[f2] if len(f2) else np.zeros((0, 3, 3))
                return [int(len(tr))] + [float(x) for x in tr.ravel()]
            cases.append(Case(spec, fl, impl_face, mode=mode, klass="kernel", scale=scale, rtol=rtol))
    if want_oracle is not None:
        cases[0].oracle = lambda r: want_oracle(spec, r)
    return cases


def count_kinds(answer):
    for k in answer.split(" ")[1:]:
        COUNTERS["kinds"][k] = COUNTERS["kinds"].get(k, 0) + 1
    return None


def extra_coverage():
    return {"refactor_tolerant_matches": COUNTERS["refactor_tolerant_matches"],
            "strict_matches": COUNTERS["strict_matches"], "model_face_kinds": dict(COUNTERS["kinds"])}


# ---------------------------------------------------------------------------------------------------
# generators

def pattern_specs(scales=(1.0, 1e-3, 1e4)):
    """one triangle, corner offsets from {-s, -1.5tol, -tol/2, 0, +tol/2, +1.5tol, +s}: all 343 offset patterns (hence all 27 sign
    patterns in every rotation and both signs of 'on'), selected and unselected"""
    for s in scales:
        vals = [-s, -1.5 * TOL, -TOL / 2, 0.0, TOL / 2, 1.5 * TOL, s]
        for z in itertools.product(vals, repeat=3):
            for sel in (True, False):
                for nz in ((1.0,) if s != 1.0 else (1.0, 0.5)):
                    V = [[0.0, 0.0, z[0] / nz], [s, 0.0, z[1] / nz], [0.0, s, z[2] / nz]]
                    yield {"op": "mesh", "stream": "pattern", "verts": V, "faces": [[0, 1, 2]], "o": [0.0, 0.0, 0.0],
                           "n": [0.0, 0.0, nz], "mask": [sel], "rtol": 1e-6, "kernel_faces": 1, "check_nomap": False}


def lattice_spec(rng):
    nv = rng.choice([0, 1, 3, 4, 5, 6, 8, 10, 14])
    d = rng.choice([1, 2, 4])
    V = [[rng.randint(-2 * d, 2 * d) / d for _ in range(3)] for _ in range(nv)]
    if nv >= 2 and rng.random() < 0.3:
        V[rng.randrange(nv)] = list(V[rng.randrange(nv)])  # coincident vertices
    nf = 0 if nv == 0 else rng.choice([0, 1, 2, 3, 5, 8, 12, 20])
    F = []
    for _ in range(nf):
        if rng.random() < 0.12:
            i, j = rng.randrange(nv), rng.randrange(nv)
            F.append(rng.choice([[i, i, j], [i, j, i], [j, i, i], [i, i, i]]))  # degenerate faces
        else:
            F.append([rng.randrange(nv) for _ in range(3)])
    o = [rng.randint(-2 * d, 2 * d) / d for _ in range(3)]
    if rng.random() < 0.5:
        n = rng.choice(gens.AXES)
        n = [x * rng.choice([1, 2, 0.5]) for x in n]
    else:
        n = gens.lat_nonzero(rng, 2)
    mask = None if rng.random() < 0.5 else [rng.random() < 0.6 for _ in range(nf)]
    return {"op": "mesh", "stream": "lattice", "verts": V, "faces": F, "o": o, "n": n, "mask": mask, "rtol": 1e-9}


def float_spec(rng, max_faces=40):
    s = gens.scale_of(rng, -6, 6)
    nv = rng.randint(3, 30)
    nmag = 10.0 ** rng.uniform(-3, 3)
    n = np.array(gens.unit(rng)) * nmag
    o = np.array(gens.fvec(rng, s))
    # far from the origin: the mesh and the plane's reference point share a large offset (up to 1e7 times the size of the
    # mesh).  n.(v - o) is then still accurate to a few ulps of the *local* size, while n.v - n.o is not.
    # The offset S is drawn so that one ulp of S times |n| is around the merge tolerance (S * |n| in 1e6.5 .. 1e9.5).
    far = rng.random() < 0.4
    if far:
        S = 10.0 ** rng.uniform(6.5, 9.5) / nmag
        far = 1e2 * s <= S <= 1e9 * s
        if far:
            o = o + np.array(gens.unit(rng)) * S
    V = []
    near = rng.random() < (0.8 if far else 0.4)
    for _ in range(nv):
        r = rng.random()
        p = np.array(gens.fvec(rng, s)) + o
        if near and r < 0.35:
            # within the merge tolerance of the plane (offset in units of |normal| as the code measures it)
            # ... or (half of the time, far from the origin) a small multiple of it beyond
            want = rng.choice([-0.6, -0.3, 0.0, 0.3, 0.6] + ([-3000.0, -300.0, -30.0, -3.0, 3.0, 30.0, 300.0, 3000.0] if far else [])) * TOL
            d = float(np.dot(n, p - o))
            p = p - n * (d - want) / float(np.dot(n, n))
        V.append(p.tolist())
    # keep every vertex clearly on one side of each threshold
    V = [p for p in V if determined(p, o, n, s)]
    nv = len(V)
    if nv < 3:
        return None
    nf = rng.randint(1, max_faces)
    F = [[rng.randrange(nv) for _ in range(3)] for _ in range(nf)]
    mask = None if rng.random() < 0.5 else [rng.random() < 0.7 for _ in range(nf)]
    return {"op": "mesh", "stream": ("float-near" if near else "float") + ("-far" if far else ""), "verts": V, "faces": F, "o": o.tolist(),
            "n": n.tolist(), "mask": mask, "rtol": 1e-5 if near else 1e-7, "kernel_faces": 6}


def determined(p, o, n, s):
    d = gens.fdot(n, gens.fsub(p, o))
    nn = math.sqrt(float(gens.fdot(n, n)))
    slack = Fraction(1e-3 * TOL) + Fraction(1e-12 * nn * s)
    return abs(abs(d) - Fraction(TOL)) > slack


def gen_specs(rng, tier):
    if tier == "quick":
        yield from pattern_specs(scales=(1.0,))
        for _ in range(120):
            yield lattice_spec(rng)
        k = 0
        while k < 160:
            sp = float_spec(rng)
            if sp:
                k += 1
                yield sp
    else:
        yield from pattern_specs()
        for _ in range(3000):
            yield lattice_spec(rng)
        k = 0
        while k < 2500:
            sp = float_spec(rng, max_faces=120)
            if sp:
                k += 1
                yield sp
    # empty / degenerate shapes
    yield {"op": "mesh", "stream": "empty", "verts": [], "faces": [], "o": [0, 0, 0], "n": [0, 0, 1], "mask": None}
    yield {"op": "mesh", "stream": "empty", "verts": [[0, 0, 1], [1, 0, 1], [0, 1, 1]], "faces": [], "o": [0, 0, 0], "n": [0, 0, 1], "mask": None}
    yield {"op": "mesh", "stream": "empty", "verts": [[0, 0, -1], [1, 0, -1], [0, 1, -1]], "faces": [[0, 1, 2]], "o": [0, 0, 0], "n": [0, 0, 1], "mask": None}
    yield {"op": "mesh", "stream": "empty", "verts": [[0, 0, -1], [1, 0, -1], [0, 1, -1], [5, 5, 5]], "faces": [[0, 1, 2]], "o": [0, 0, 0], "n": [0, 0, 1], "mask": [True]}


# ---------------------------------------------------------------------------------------------------
# exact helpers for the oracles

def Fv(p):
    return [Fraction(float(x)) for x in p]


def vsub(a, b):
    return [x - y for x, y in zip(a, b)]


def vdot(a, b):
    return sum(x * y for x, y in zip(a, b))


def vcross(a, b):
    return [a[1] * b[2] - a[2] * b[1], a[2] * b[0] - a[0] * b[2], a[0] * b[1] - a[1] * b[0]]


def clip_fraction(d, thr, strict_side):
    """fraction of a triangle's area where the linear function with corner values d (3 Fractions) is >= thr
    (Sutherland-Hodgman in barycentric coordinates; area fraction = 2 * polygon area in the (beta, gamma) chart)"""
    pts = [(Fraction(0), Fraction(0)), (Fraction(1), Fraction(0)), (Fraction(0), Fraction(1))]  # (beta, gamma) of A, B, C
    vals = [d[0] - thr, d[1] - thr, d[2] - thr]
    poly = []
    for i in range(3):
        p, q = pts[i], pts[(i + 1) % 3]
        a, b = vals[i], vals[(i + 1) % 3]
        if a >= 0:
            poly.append(p)
        if (a > 0 and b < 0) or (a < 0 and b > 0):
            t = a / (a - b)
            poly.append((p[0] + t * (q[0] - p[0]), p[1] + t * (q[1] - p[1])))
    if len(poly) < 3:
        return Fraction(0)
    area2 = Fraction(0)
    for i in range(len(poly)):
        x1, y1 = poly[i]
        x2, y2 = poly[(i + 1) % len(poly)]
        area2 += x1 * y2 - x2 * y1
    return abs(area2)
