"""C13 — plane constructors yield the plane they describe, with a real unit normal.

Correspondence: every way of making a `Plane` (raw constructor, from_point_and_normal, from_points,
from_points_and_vector, fit_from_points, tilted, Plane.xy/xz/yz) and the module-level functions
plane_normal_from_points / plane_equation_from_points / normal_and_offset_from_plane_equations against the Lean
model PW.Model.PlaneCtor, at Float and — where no trigonometry is involved — at exact rationals (sqrt is a
2^-128 approximation there, so outputs are compared with tolerance and inputs keep a margin from the
unit-length threshold).  The eigen-solver of fit_from_points is a parameter of the model: the harness calls
np.linalg.eigh(np.cov(points.T)) itself, passes the eigenpairs to the model as data and checks the contract
(orthonormal real eigenpairs of the covariance) on what NumPy returned.
Oracle: the clauses of C13 evaluated on the implementation's own outputs.
"""
import math
import random
from fractions import Fraction

import numpy as np

from pwlib.share import shcopy

from pwlib import canon, gens
from pwlib.canon import dtype_tag, flat
from pwlib.engine import Case
from pwlib.proto import Line

ID = "C13"
TARGETS = ["PW.Props.C13"]
RULE = ("one spec per constructor call; streams: lattice (integer/dyadic coordinates: collinear triples, parallel "
        "(p2-p1, vector), new point on the rotation axis, exactly planar / collinear clouds occur exactly), float "
        "(magnitudes 1e-6..1e6, normals of magnitude 1e-6..1e6, triangles with sin(angle) >= 1e-3, tilt angles in "
        "[0.05, 1.5] rad either side), threshold (raw constructor with |‖n‖-1| = f*0.1**d, f in {0, .5, .9, 1.1, 2, 10}, "
        "d in {None, 0..10}), malformed (zero / NaN / inf normals, clouds of 0 or 1 points); clouds: generic, nearly "
        "planar, exactly planar, collinear, lattice, 3 points, 2 points; module functions single and stacked with "
        "collinear rows; a case is non-trivial unless it is an empty stack; distinct = distinct spec")
TRUSTED = ["np.linalg.eigh(np.cov(points.T)) is a parameter of the model; contract: real eigenvalues w and a real matrix E with "
           "E^T E = I and C E = E diag(w) for the symmetric covariance C (residuals checked on NumPy's actual output on every fit case)",
           "np.cov modelled as (X-mean)(X-mean)^T * (1/(k-1)) and compared with np.cov numerically (op c13.cov)",
           "np.argsort on 3 values modelled as stable insertion sort",
           "vg.normalize / cross / dot / project / reject / angle / signed_angle / rotate / almost_unit_length modelled by what their source computes",
           "math.cos / math.sin / np.arccos = libm's (Lean Float) in the Float run; real cos/sin/arccos in the theorems",
           "dtype float64 of the normal, read-only flags and defensive copies are tags validated by correspondence only",
           "IEEE rounding not modelled: numeric outputs compared with rtol 1e-9 (normal components absolutely, positions relative to the input scale)"]
ASSUMPTIONS = ["raw-constructor inputs keep |‖n‖-1| at least 10% of 0.1**d away from 0.1**d (d <= 10)",
               "float-stream triangles have sin(angle at p1) >= 1e-3; exactly collinear triples only on the integer lattice",
               "tilts: |height/in-plane distance| in [0.05, 15] in the float stream; the zero-angle tilt (new point on the old plane) is compared with rtol 1e-6 (arccos near 1)",
               "fit_from_points: normal compared up to sign when the strict comparison fails (eigenvector signs are not specified)"]
EXHAUSTIVE = {"quick": False, "thorough": False}

NAN = float("nan")
INF = float("inf")


def A(x):
    return np.array(x, dtype=np.float64)


# ---------------------------------------------------------------------------------------------------
# comparison helpers

def split_compare(parts):
    """parts = [(count or None, scale, rtol)]: compare consecutive groups of items with their own scale"""
    def cmp(r, line, mode):
        toks = line.split(" ")
        if r[0] == "err" or toks[0] != "ok":
            return canon.compare(r, line)
        items, mt = r[1], toks[1:]
        if len(items) != len(mt):
            return "length differs: impl %d items, model %d" % (len(items), len(mt))
        pos = 0
        for cnt, scale, rtol in parts:
            cnt = len(items) - pos if cnt is None else cnt
            msg = canon.compare(("ok", items[pos:pos + cnt]), " ".join(["ok"] + mt[pos:pos + cnt]), scale=scale, rtol=rtol)
            if msg:
                return "items %d..%d: %s" % (pos, pos + cnt, msg)
            pos += cnt
        return None
    return cmp


def plane_compare(scale, ntol=1e-9, sign_free=False):
    strict = split_compare([(3, 1.0, 0.0), (3, scale, 1e-9), (3, 1.0 / 1.0, ntol)])
    if not sign_free:
        return strict

    def cmp(r, line, mode):
        msg = strict(r, line, mode)
        if msg is None or r[0] == "err" or not line.startswith("ok "):
            return msg
        items = list(r[1])
        flipped = items[:6] + [None if x is None else -x for x in items[6:9]]
        return None if strict(("ok", flipped), line, mode) is None else msg
    return cmp


def plane_items(pl, ins):
    """canonical form of a constructed plane: dtype tag of the normal, read-only tag, fresh-copy tag, ref, normal"""
    ro = "ro" if (not pl.normal.flags.writeable and not pl.reference_point.flags.writeable) else "rw"
    shared = any(np.shares_memory(pl.normal, a) or np.shares_memory(pl.reference_point, a) for a in ins)
    n = pl.normal
    return [dtype_tag(n), ro, "shared" if shared else "fresh"] + flat(pl.reference_point) + flat(np.real(n))


def dec_tok(d):
    return -1 if d is None else int(d)


# ---------------------------------------------------------------------------------------------------
# generators

DECS = [None, None, 0, 1, 2, 3, 4, 6, 8, 10]


def rand_rot(rng):
    while True:
        a = np.array([[rng.gauss(0, 1) for _ in range(3)] for _ in range(3)])
        q, r = np.linalg.qr(a)
        if abs(np.linalg.det(q)) > 0.5:
            return q


def gen(rng, tier):
    big = tier != "quick"
    n_ctor = 700 if not big else 8000
    n_pn = 450 if not big else 5000
    n_pts = 700 if not big else 8000
    n_pv = 450 if not big else 5000
    n_fit = 450 if not big else 4000
    n_tilt = 600 if not big else 8000
    n_fn = 350 if not big else 4000

    yield {"op": "decimals"}
    for nm in ("xy", "xz", "yz"):
        yield {"op": "const", "which": nm}

    # raw constructor -------------------------------------------------------------------------------
    for i in range(n_ctor):
        r = rng.random()
        d = rng.choice(DECS)
        if i % 4 == 0:
            # lattice: axis normals, exactly unit or scaled by a dyadic
            ax = list(rng.choice(gens.AXES))
            k = rng.choice([0, 0, 1, 2, 3, 5, 10, 20, 30, 40])
            f = 1.0 if k == 0 else 1.0 + rng.choice([-1, 1]) * 2.0 ** -k
            yield {"op": "ctor", "stream": "lattice", "ref": gens.lat(rng, 4, rng.choice([1, 2, 4])),
                   "n": [x * f for x in ax], "d": d, "dev": abs(f - 1.0)}
        elif r < 0.08:
            bad = rng.choice([[0.0, 0.0, 0.0], [NAN, 0.0, 1.0], [INF, 0.0, 0.0], [0.0, -INF, 1.0], [NAN, NAN, NAN]])
            yield {"op": "ctor", "stream": "malformed", "ref": gens.fvec(rng, 1.0), "n": bad, "d": d, "dev": None}
        else:
            # threshold stream: |‖n‖-1| = f * atol
            u = gens.unit(rng)
            dd = 6 if d is None else d
            f = rng.choice([0.0, 0.0, 0.5, 0.9, 1.1, 2.0, 10.0, 1e3])
            dev = f * 0.1 ** dd
            sgn = rng.choice([-1, 1])
            if sgn < 0 and dev >= 1.0:
                sgn = 1
            yield {"op": "ctor", "stream": "threshold", "ref": gens.fvec(rng, gens.scale_of(rng)),
                   "n": [x * (1.0 + sgn * dev) for x in u], "d": d, "dev": dev}

    # from_point_and_normal -------------------------------------------------------------------------
    for i in range(n_pn):
        d = rng.choice(DECS)
        if i % 3 == 0:
            n = gens.lat(rng, 3, rng.choice([1, 1, 2])) if rng.random() < 0.85 else [0.0, 0.0, 0.0]
            yield {"op": "pn", "stream": "lattice", "ref": gens.lat(rng, 4, rng.choice([1, 2])), "n": n, "d": d}
        elif i % 3 == 1 and i % 2 == 0:
            # a normal that is unit length to the constructor's six decimals but not exactly: it is still normalised
            u = gens.unit(rng)
            f = 1.0 + rng.choice([-1, 1]) * 10.0 ** rng.uniform(-9, -6.1)
            yield {"op": "pn", "stream": "float", "ref": gens.fvec(rng, gens.scale_of(rng)), "n": [x * f for x in u], "d": d}
        else:
            yield {"op": "pn", "stream": "float", "ref": gens.fvec(rng, gens.scale_of(rng)),
                   "n": gens.fvec(rng, gens.scale_of(rng)), "d": d}

    # from_points -----------------------------------------------------------------------------------
    for i in range(n_pts):
        if i % 2 == 0:
            r = rng.random()
            den = rng.choice([1, 1, 2, 4])
            p1 = gens.lat(rng, 4, den)
            if r < 0.2:
                # exactly collinear (including coincident points)
                v = gens.lat(rng, 3, den)
                a, b = rng.randint(-3, 3), rng.randint(-3, 3)
                pts = [p1, [p1[j] + a * v[j] for j in range(3)], [p1[j] + b * v[j] for j in range(3)]]
                rng.shuffle(pts)
            else:
                pts = [p1, gens.lat(rng, 4, den), gens.lat(rng, 4, den)]
            yield {"op": "points", "stream": "lattice", "pts": pts}
        else:
            yield {"op": "points", "stream": "float", "pts": float_triangle(rng)}

    # from_points_and_vector ------------------------------------------------------------------------
    for i in range(n_pv):
        d = rng.choice(DECS)
        if i % 2 == 0:
            den = rng.choice([1, 1, 2])
            p1 = gens.lat(rng, 4, den)
            v = gens.lat(rng, 3, 1)
            r = rng.random()
            if r < 0.2:
                a = rng.randint(-3, 3)
                p2 = [p1[j] + a * v[j] / den for j in range(3)]  # p2 - p1 parallel to v (or p2 == p1)
            else:
                p2 = gens.lat(rng, 4, den)
            yield {"op": "pv", "stream": "lattice", "p1": p1, "p2": p2, "v": v, "d": d}
        else:
            t = float_triangle(rng)
            vs = gens.scale_of(rng, -3, 3)
            v = [(t[2][j] - t[0][j]) for j in range(3)]
            m = max(abs(x) for x in v)
            yield {"op": "pv", "stream": "float", "p1": t[0], "p2": t[1], "v": [x / m * vs for x in v], "d": d}

    # fit_from_points -------------------------------------------------------------------------------
    kinds = ["generic", "generic", "nearly-planar", "planar", "collinear", "lattice", "three", "lattice-planar", "two", "far-nearly-planar",
             "seam"]
    for i in range(n_fit):
        kind = kinds[i % len(kinds)]
        if i % 40 == 39:
            kind = rng.choice(["k0", "k1"])
        fixed = {"three": 3, "two": 2, "k0": 0, "k1": 1}
        k = fixed[kind] if kind in fixed else (rng.choice([3, 4, 5, 8, 13, 30]) if rng.random() < 0.9 else rng.randint(40, 120))
        yield {"op": "fit", "kind": kind, "k": k, "seed": rng.randrange(1 << 30)}

    # tilted ----------------------------------------------------------------------------------------
    for i in range(n_tilt):
        stream = "lattice" if i % 3 == 0 else "float"
        yield {"op": "tilted", "stream": stream, "seed": rng.randrange(1 << 30),
               "variant": rng.choice(["normal"] * 6 + ["on-axis", "zero-angle", "cp-off-plane", "coarse"])}

    # module-level functions ------------------------------------------------------------------------
    for i in range(n_fn):
        stream = "lattice" if i % 2 == 0 else "float"
        k = rng.choice([0, 1, 1, 2, 3, 5, 9])
        yield {"op": "fn", "stream": stream, "k": k, "single": k == 1 and rng.random() < 0.6,
               "normalize": rng.random() < 0.7, "seed": rng.randrange(1 << 30)}


def float_triangle(rng):
    """three points, base at scale S, edges at scale s <= S, sin(angle at p1) >= 1e-3"""
    S = gens.scale_of(rng)
    s = S * 10.0 ** rng.uniform(-3, 0)
    while True:
        p1 = gens.fvec(rng, S)
        v1 = gens.fvec(rng, s)
        v2 = gens.fvec(rng, s)
        c = np.cross(v1, v2)
        if np.linalg.norm(c) >= 1e-2 * np.linalg.norm(v1) * np.linalg.norm(v2) and np.linalg.norm(v1) > 0.05 * s and np.linalg.norm(v2) > 0.05 * s:
            p2 = [p1[j] + v1[j] for j in range(3)]
            p3 = [p1[j] + v2[j] for j in range(3)]
            # the doubles p2-p1, p3-p1 are what both sides see: re-check conditioning on them
            w1 = A(p2) - A(p1)
            w2 = A(p3) - A(p1)
            if np.linalg.norm(np.cross(w1, w2)) >= 1e-3 * np.linalg.norm(w1) * np.linalg.norm(w2):
                return [p1, p2, p3]


# ---------------------------------------------------------------------------------------------------
# oracle pieces (exact rational arithmetic on the implementation's outputs)

def F(x):
    return Fraction(float(x))


def fvec(v):
    return [F(x) for x in v]


def fnorm2(v):
    return sum(x * x for x in v)


def basic_plane_clauses(r, out, unit_tol=1e-9):
    """real dtype, finite, unit length; returns (ref, normal) as floats or None"""
    items = r[1]
    if items[0][3:4] not in ("f", "i", "u"):
        # "a real unit normal": a real number type -- float64 for every computed normal; a caller's integer axis vector kept
        # as integers is real too (complex eigenvectors were the defect this clause is about)
        out.append(("normal/real-dtype", "the normal has dtype %s, expected a real number type" % items[0][3:]))
    if items[1] != "ro":
        out.append(("arrays/read-only", "reference_point / normal of the new plane are writeable"))
    if items[2] != "fresh":
        out.append(("arrays/copies", "the new plane shares memory with an argument"))
    vals = items[3:9]
    if any(v is None or math.isinf(v) for v in vals):
        out.append(("normal/finite", "reference point / normal not finite: %r" % (vals,)))
        return None
    n = vals[3:]
    nn = fnorm2(fvec(n))
    ut = Fraction(unit_tol)
    lo, hi = ((1 - ut) ** 2 if ut < 1 else 0), (1 + ut) ** 2
    if not (lo <= nn <= hi):
        out.append(("normal/unit", "‖normal‖² = %r" % float(nn)))
    return vals[:3], n


def dedupe(out):
    seen = {}
    for k, m in out:
        seen.setdefault(k, m)
    return list(seen.items())


# ---------------------------------------------------------------------------------------------------
# case builders

def make(spec):
    return MAKERS[spec["op"]](spec)


def make_decimals(spec):
    from polliwog import Plane
    return Case(spec, Line("c13.decimals"), lambda: [int(Plane.DEFAULT_POSITION_DECIMALS), int(Plane.DEFAULT_DIRECTION_DECIMALS)],
                mode="both", klass="decimals")


def make_const(spec):
    from polliwog import Plane
    nm = spec["which"]

    def impl():
        return plane_items(getattr(Plane, nm), [])

    def oracle(r):
        out = []
        if r[0] != "ok":
            return [("const/exists", "Plane.%s raised %s" % (nm, r[1]))]
        rn = basic_plane_clauses(r, out, 0.0)
        if rn:
            ref, n = rn
            want = {"xy": [0.0, 0.0, 1.0], "xz": [0.0, 1.0, 0.0], "yz": [1.0, 0.0, 0.0]}[nm]
            if ref != [0.0, 0.0, 0.0] or n != want:
                out.append(("const/coordinate-plane", "Plane.%s is %r through %r" % (nm, n, ref)))
            pl = getattr(Plane, nm)
            rr = random.Random(17)
            idx = want.index(1.0)
            for _ in range(20):
                p = gens.lat(rr, 5, 2)
                if float(pl.signed_distance(A(p))) != p[idx]:
                    out.append(("const/coordinate-plane", "Plane.%s.signed_distance(%r) != coordinate %d" % (nm, p, idx)))
                    break
        return dedupe(out)
    return Case(spec, Line("c13.const").tok(nm), impl, mode="both", klass="const/" + nm, oracle=oracle, compare=plane_compare(1.0))


def make_ctor(spec):
    from polliwog import Plane
    ref, n, d = A(spec["ref"]), A(spec["n"]), spec["d"]
    scale = max(gens.maxabs(ref), 1.0)

    def impl():
        a, b = shcopy(ref), shcopy(n)
        pl = Plane(a, b) if d is None else Plane(a, b, d)
        return plane_items(pl, [a, b])

    dd = 6 if d is None else d
    atol = Fraction(1, 10) ** dd

    def oracle(r):
        out = []
        finite = bool(np.all(np.isfinite(n)))
        if finite:
            nn = fnorm2(fvec(n))
            # |‖n‖-1| <= atol  <=>  (1-atol)^2 <= ‖n‖² <= (1+atol)^2   (for atol <= 1; lower bound vacuous at atol = 1)
            inside = nn <= (1 + atol) ** 2 and (atol >= 1 or nn >= (1 - atol) ** 2)
            # margin: skip the clause when within 1e-12 relative of the threshold
            m = Fraction(1, 10 ** 12)
            near = any(abs(nn - b) <= m * max(b, 1) for b in ((1 + atol) ** 2, (1 - atol) ** 2))
        else:
            inside, near = False, False
        if r[0] == "err":
            if r[1] != "ValueError":
                out.append(("ctor/error-class", "Plane(...) raised %s, expected ValueError" % r[1]))
            elif inside and not near:
                out.append(("ctor/accepts-unit", "normal %r with |‖n‖-1| <= 0.1**%d was rejected" % (n.tolist(), dd)))
            return out
        if not inside and not near:
            out.append(("ctor/rejects-non-unit", "normal %r (‖n‖=%r) accepted with direction_decimals=%r" % (n.tolist(), float(np.linalg.norm(n)), d)))
        rn = basic_plane_clauses(r, out, float(atol) * (1 + 1e-9) + 1e-12)
        if rn and (rn[0] != ref.tolist() or rn[1] != n.tolist()):
            out.append(("ctor/stores-arguments", "plane holds %r, %r" % rn))
        return dedupe(out)
    kl = "ctor/%s/d=%s/%s" % (spec["stream"], d, "in" if spec["dev"] is not None and spec["dev"] < float(atol) else "out")
    return Case(spec, Line("c13.ctor").i(dec_tok(d)).vec(ref).vec(n), impl, mode="both", klass=kl, oracle=oracle,
                compare=plane_compare(scale))


def make_pn(spec):
    from polliwog import Plane
    ref, n, d = A(spec["ref"]), A(spec["n"]), spec["d"]
    scale = max(gens.maxabs(ref), 1.0)

    def impl():
        a, b = shcopy(ref), shcopy(n)
        pl = Plane.from_point_and_normal(a, b) if d is None else Plane.from_point_and_normal(a, b, d)
        return plane_items(pl, [a, b])

    def oracle(r):
        out = []
        zero = not np.any(n)
        if r[0] == "err":
            if r[1] != "ValueError":
                out.append(("pn/error-class", "from_point_and_normal raised %s" % r[1]))
            elif not zero:
                out.append(("pn/accepts-nonzero", "non-zero normal %r rejected (direction_decimals=%r)" % (n.tolist(), d)))
            return out
        if zero:
            # d = 0 is the one case where the constructor tolerates anything of norm <= 2; NaN is still rejected
            out.append(("pn/zero-normal", "zero normal accepted"))
        rn = basic_plane_clauses(r, out)
        if rn:
            rf, m = rn
            if rf != ref.tolist():
                out.append(("pn/reference-point", "reference point %r, expected %r" % (rf, ref.tolist())))
            c = gens.fcross(m, n)
            tol = Fraction(1e-9) * Fraction(gens.maxabs(n))
            if any(abs(x) > tol for x in c) or gens.fdot(m, n) <= 0:
                out.append(("pn/direction", "normal %r is not the direction of %r" % (m, n.tolist())))
        return dedupe(out)
    kl = "pn/%s/d=%s/%s" % (spec["stream"], d, "zero" if not np.any(n) else "ok")
    return Case(spec, Line("c13.pn").i(dec_tok(d)).vec(ref).vec(n), impl, mode="both", klass=kl, oracle=oracle,
                compare=plane_compare(scale))


def make_points(spec):
    from polliwog import Plane
    P = A(spec["pts"])
    scale = max(gens.maxabs(P), 1e-300)

    def impl():
        a = [shcopy(P[0]), shcopy(P[1]), shcopy(P[2])]
        return plane_items(Plane.from_points(*a), a)
    c = gens.fcross(gens.fsub(P[1], P[0]), gens.fsub(P[2], P[0]))
    collinear = not any(c)

    def oracle(r):
        out = []
        if r[0] == "err":
            if r[1] != "ValueError":
                out.append(("points/error-class", "from_points raised %s" % r[1]))
            elif not collinear:
                out.append(("points/accepts-non-collinear", "non-collinear triple %r rejected" % (P.tolist(),)))
            return out
        if collinear:
            out.append(("points/collinear-rejected", "collinear triple %r accepted" % (P.tolist(),)))
        rn = basic_plane_clauses(r, out)
        if rn:
            rf, n = rn
            if rf != P[0].tolist():
                out.append(("points/reference-point", "reference point is not p1"))
            if not collinear:
                if gens.fdot(n, c) <= 0:
                    out.append(("points/orientation", "normal %r is not on the counter-clockwise side of %r" % (n, P.tolist())))
                e = max(math.sqrt(float(fnorm2(gens.fsub(P[1], P[0])))), math.sqrt(float(fnorm2(gens.fsub(P[2], P[0])))))
                tol = Fraction(1e-9) * Fraction(e) * 1000
                for j in (1, 2):
                    res = gens.fdot(gens.fsub(P[j], P[0]), n)
                    if abs(res) > tol:
                        out.append(("points/contains", "p%d is off the plane by %r" % (j + 1, float(res))))
        return dedupe(out)
    kl = "points/%s/%s" % (spec["stream"], "collinear" if collinear else "ok")
    return Case(spec, Line("c13.points").vec(P), impl, mode="both", klass=kl, oracle=oracle,
                compare=plane_compare(scale, ntol=1e-9 if spec["stream"] == "lattice" else 1e-8))


def make_pv(spec):
    from polliwog import Plane
    p1, p2, v, d = A(spec["p1"]), A(spec["p2"]), A(spec["v"]), spec["d"]
    scale = max(gens.maxabs(p1, p2), 1e-300)

    def impl():
        a = [shcopy(p1), shcopy(p2), shcopy(v)]
        pl = Plane.from_points_and_vector(*a) if d is None else Plane.from_points_and_vector(*a, direction_decimals=d)
        return plane_items(pl, a)
    c = gens.fcross(gens.fsub(p2, p1), v)
    parallel = not any(c)

    def oracle(r):
        out = []
        if r[0] == "err":
            if r[1] != "ValueError":
                out.append(("pv/error-class", "from_points_and_vector raised %s" % r[1]))
            elif not parallel:
                out.append(("pv/accepts-generic", "(p1,p2,vector)=%r rejected" % ([p1.tolist(), p2.tolist(), v.tolist()],)))
            return out
        if parallel:
            out.append(("pv/parallel-rejected", "p2-p1 parallel to vector, accepted"))
        rn = basic_plane_clauses(r, out)
        if rn:
            rf, n = rn
            if rf != p1.tolist():
                out.append(("pv/reference-point", "reference point is not p1"))
            e = math.sqrt(float(fnorm2(gens.fsub(p2, p1))))
            if abs(gens.fdot(gens.fsub(p2, p1), n)) > Fraction(1e-9) * Fraction(e) * 1000:
                out.append(("pv/contains-p2", "p2 is off the plane by %r" % float(gens.fdot(gens.fsub(p2, p1), n))))
            if abs(gens.fdot(v, n)) > Fraction(1e-9) * Fraction(math.sqrt(float(fnorm2(fvec(v))))) * 1000:
                out.append(("pv/parallel-to-vector", "normal·vector = %r" % float(gens.fdot(v, n))))
        return dedupe(out)
    kl = "pv/%s/d=%s/%s" % (spec["stream"], "default" if d is None else "given", "parallel" if parallel else "ok")
    return Case(spec, Line("c13.pv").i(dec_tok(d)).vec(p1).vec(p2).vec(v), impl, mode="both", klass=kl, oracle=oracle,
                compare=plane_compare(scale, ntol=1e-9 if spec["stream"] == "lattice" else 1e-8))


# ---- fit ------------------------------------------------------------------------------------------

def cloud(spec):
    rng = random.Random(spec["seed"])
    kind, k = spec["kind"], spec["k"]
    if kind == "seam":
        # a loop of points exported with its first point repeated at the end: a cloud like any other (the repeated point counts
        # twice in the centroid and in the scatter)
        base = dict(spec, kind="generic", k=max(k - 1, 3))
        Pn = cloud(base)
        return np.vstack([Pn, Pn[:1]])
    if kind in ("lattice", "lattice-planar"):
        den = rng.choice([1, 1, 2, 4])
        pts = [gens.lat(rng, 5, den) for _ in range(k)]
        if kind == "lattice-planar":
            ax = rng.randrange(3)
            c = rng.randint(-3, 3) / den
            for p in pts:
                p[ax] = c
        return A(pts).reshape(-1, 3)
    S = gens.scale_of(rng, -4, 4)
    off = A(gens.fvec(rng, S * 10.0 ** rng.uniform(-2, 1)))
    R = rand_rot(rng)
    sig = sorted([10.0 ** rng.uniform(-1.5, 0) for _ in range(3)], reverse=True)
    sig[0] = 1.0
    if kind == "far-nearly-planar":
        # centroid far from the origin compared with the cloud's own spread (a one-pass covariance would cancel)
        off = A(gens.unit(rng)) * S * 10.0 ** rng.uniform(4, 6)
        sig[2] = 10.0 ** rng.uniform(-3, -2)
    if kind == "nearly-planar":
        sig[2] = 10.0 ** rng.uniform(-7, -4)
    elif kind == "planar":
        sig[2] = 0.0
    elif kind == "collinear":
        sig[1] = sig[2] = 0.0
    X = np.array([[rng.gauss(0, 1) * s for s in sig] for _ in range(k)]).reshape(-1, 3)
    return (X @ R.T) * S + off


def make_fit(spec):
    from polliwog import Plane
    P = cloud(spec)
    k = len(P)
    scale = max(gens.maxabs(P), 1e-300)
    if k >= 2:
        C = np.cov(P.T)
        w, E = np.linalg.eigh(C)
    else:
        C, w, E = np.zeros((3, 3)), np.zeros(3), np.zeros((3, 3))

    def impl():
        # (collinear clouds have a two-dimensional eigenspace for the smallest eigenvalue: which normal comes out depends on
        # the order in which NumPy sums, hence on the memory layout -- those keep the layout the model's eigenpairs came from)
        a = shcopy(P, keep_layout=spec["kind"] == "collinear")
        return plane_items(Plane.fit_from_points(a), [a])

    def oracle(r):
        out = []
        if k < 3:
            return out  # outside the property's quantifier (>= 3 points); correspondence only
        # contract of the eigen-solver on what NumPy returned
        if w.dtype != np.float64 or E.dtype != np.float64:
            out.append(("fit/eigen-contract", "np.linalg.eigh returned dtypes %s / %s" % (w.dtype, E.dtype)))
        else:
            cs = max(float(np.max(np.abs(C))), 1e-300)
            r1 = float(np.max(np.abs(E.T @ E - np.eye(3))))
            r2 = float(np.max(np.abs(C @ E - E * w))) / cs
            r3 = float(np.max(np.abs(C - C.T))) / cs
            if r1 > 1e-12 or r2 > 1e-12 or r3 > 1e-12:
                out.append(("fit/eigen-contract", "eigh contract residuals: orthonormality %g, eigen-equation %g, symmetry %g" % (r1, r2, r3)))
        if r[0] == "err":
            out.append(("fit/returns-plane", "fit_from_points raised %s on %d points" % (r[1], k)))
            return out
        rn = basic_plane_clauses(r, out)
        if rn:
            rf, n = rn
            cen = [sum(F(p[j]) for p in P) / k for j in range(3)]
            tol = Fraction(1e-9) * Fraction(scale)
            if any(abs(F(rf[j]) - cen[j]) > tol for j in range(3)):
                out.append(("fit/centroid", "reference point %r is not the centroid %r" % (rf, [float(x) for x in cen])))
            Q = [[F(p[j]) - cen[j] for j in range(3)] for p in P]
            var = sum(fnorm2(q) for q in Q)

            def cost(m):
                m = fvec(m)
                return sum(sum(q[j] * m[j] for j in range(3)) ** 2 for q in Q) / fnorm2(m)
            cn = cost(n)
            slack = cn * Fraction(1e-6) + var * Fraction(1e-18)
            # the exact minimiser from an independent computation: last right-singular vector of the centred cloud
            Qf = np.array([[float(x) for x in q] for q in Q])
            sv = max(float(np.max(np.abs(Qf))), 1e-300)
            best = np.linalg.svd(Qf / sv)[2][2]
            cb = cost(best)
            if cn > cb + slack + cb * Fraction(1e-6):
                out.append(("fit/least-squares", "cost of the fitted normal %r = %g exceeds the minimum %g (normal %r)" % (n, float(cn), float(cb), best.tolist())))
            rr = random.Random(spec["seed"] ^ 0x5EED)
            nf = np.array(n)
            cnf = float(np.sum((Qf @ nf) ** 2))
            M = np.array([gens.unit(rr) for _ in range(200)])
            costs = np.sum((Qf @ M.T) ** 2, axis=0)
            j = int(np.argmin(costs))
            if costs[j] < cnf * (1 - 1e-9) - float(var) * 1e-13:
                out.append(("fit/least-squares", "unit normal %r has cost %g < %g of the fitted normal %r" % (M[j].tolist(), costs[j], cnf, n)))
        return dedupe(out)
    cases = []
    if k >= 2:
        line = Line("c13.fit").vecs(P).vec(w).vec(np.real(E))
    else:
        line = Line("c13.fit").vecs(P).vec(np.zeros(3)).vec(np.zeros(9))
    kl = "fit/%s/%s" % (spec["kind"], "k<=2" if k <= 2 else ("k=3" if k == 3 else "k>3"))
    cases.append(Case(spec, line, impl, mode="both", klass=kl, oracle=oracle, compare=plane_compare(scale, ntol=1e-9, sign_free=True)))
    if k >= 2:
        cs = max(float(np.max(np.abs(C))), 1e-300)
        # cancellation in (x - mean): absolute error of an entry is ~ eps * scale * spread
        spread = max(float(np.max(np.abs(P - P.mean(axis=0)))), 1e-300)
        cases.append(Case(spec, Line("c13.cov").vecs(P), lambda: flat(np.cov(shcopy(P).T)), mode="both", klass="cov/" + spec["kind"],
                          scale=max(cs, scale * spread * 1e-3)))
        cases.append(Case(spec, Line("c13.centroid").vecs(P), lambda: flat(shcopy(P).mean(axis=0)), mode="both",
                          klass="centroid/" + spec["kind"], scale=scale))
    return cases


# ---- tilted ---------------------------------------------------------------------------------------

def make_tilted(spec):
    from polliwog import Plane
    rng = random.Random(spec["seed"])
    variant = spec["variant"]
    if variant == "on-axis" and spec["stream"] != "lattice":
        variant = "normal"  # only exact on the lattice (in floating point the projection does not land exactly on cp)
    if variant == "coarse" and spec["stream"] == "lattice":
        variant = "normal"  # axis normals round to themselves
    if spec["stream"] == "lattice":
        n = A(rng.choice(gens.AXES))
        ax = int(np.flatnonzero(n)[0])
        ref = A(gens.lat(rng, 3, rng.choice([1, 2])))
        plane = Plane(ref, n)
        cp = A(gens.lat(rng, 3, rng.choice([1, 2])))
        cp[ax] = ref[ax]
        t = A(gens.lat_nonzero(rng, 3, rng.choice([1, 2])))
        t[ax] = 0.0
        if not np.any(t):
            t[(ax + 1) % 3] = 1.0
        h = rng.choice([-3, -2, -1, -0.5, 0.5, 1, 2, 3])
    else:
        S = gens.scale_of(rng, -3, 3)
        plane = Plane.from_point_and_normal(A(gens.fvec(rng, S)), A(gens.fvec(rng, 1.0)))
        n = np.array(plane.normal)
        if variant == "coarse":
            # a plane kept at a coarse direction precision (rounded(direction_decimals=k), e.g. after a round trip through
            # a document): its normal is unit length only to k decimals.  tilted may refuse (ValueError) -- the tilt of a
            # non-unit normal is not unit -- but a plane it does return contains both points.  Oracle only (the model's
            # tilted is stated for the planes the default constructor accepts).  The geometry below is that of the
            # coarse plane: its true unit direction, a point really on it.
            try:
                plane = plane.rounded(direction_decimals=rng.choice([1, 2, 2, 3]))
                n = np.array(plane.normal) / np.linalg.norm(plane.normal)
            except ValueError:
                variant = "normal"
        x0 = A(gens.fvec(rng, S))
        cp = plane.project_point(x0) if variant != "coarse" else x0 - np.dot(x0 - np.array(plane.reference_point), n) * n
        a = S * 10.0 ** rng.uniform(-2, 0.5)
        d = np.cross(n, A(gens.unit(rng)))
        while np.linalg.norm(d) < 0.2:
            d = np.cross(n, A(gens.unit(rng)))
        t = d / np.linalg.norm(d) * a
        h = a * math.tan(rng.uniform(0.05, 1.5)) * rng.choice([-1, 1])
    if variant == "on-axis":
        new = cp + n * (h if rng.random() < 0.7 else 0.0)
    elif variant == "zero-angle":
        new = cp + t
    elif variant == "cp-off-plane":
        new = cp + t + n * h
        cp = cp + n * (h * rng.choice([0.25, -0.5]))
    else:
        new = cp + t + n * h
    ref0 = np.array(plane.reference_point)
    n0 = np.array(plane.normal)
    scale = max(gens.maxabs(cp, new, ref0), 1e-300)

    def impl():
        a, b = shcopy(new), shcopy(cp)
        return plane_items(plane.tilted(a, b), [a, b, plane.normal, plane.reference_point])

    def oracle(r):
        out = []
        if variant == "cp-off-plane":
            if r[0] == "ok":
                basic_plane_clauses(r, out)
            return dedupe(out)
        if r[0] == "err":
            if r[1] != "ValueError":
                out.append(("tilted/error-class", "tilted raised %s" % r[1]))
            elif variant not in ("on-axis", "coarse"):
                out.append(("tilted/returns-plane", "tilted(%r, %r) raised ValueError" % (new.tolist(), cp.tolist())))
            return out
        if variant == "on-axis":
            return out  # in floating point the projection need not land exactly on cp; nothing is promised
        rn = basic_plane_clauses(r, out, unit_tol=2e-6 if variant == "coarse" else 1e-9)
        if rn:
            rf, m = rn
            if rf != cp.tolist():
                out.append(("tilted/contains-coplanar-point", "reference point %r is not the coplanar point" % (rf,)))
            w = gens.fsub(new, cp)
            e = math.sqrt(float(fnorm2(w)))
            res = gens.fdot(w, m)
            if abs(res) > Fraction(1e-7 if variant == "zero-angle" else 1e-6 if variant == "coarse" else 1e-9) * Fraction(e) * 100:
                out.append(("tilted/contains-new-point", "new point %r is off the tilted plane by %r (|new-cp| = %r)" % (new.tolist(), float(res), e)))
        return dedupe(out)
    kl = "tilted/%s/%s/%s" % (spec["stream"], variant, "up" if h > 0 else "down")
    ntol = 1e-6 if variant == "zero-angle" else 1e-9
    return Case(spec, None if variant == "coarse" else Line("c13.tilted").vec(ref0).vec(n0).vec(new).vec(cp), impl, mode="float",
                klass=kl, oracle=oracle, compare=plane_compare(scale, ntol=ntol))


# ---- module-level functions -----------------------------------------------------------------------

def make_fn(spec):
    from polliwog import Plane
    from polliwog.plane import (normal_and_offset_from_plane_equations, plane_equation_from_points, plane_normal_from_points)
    rng = random.Random(spec["seed"])
    k, single, nz = spec["k"], spec["single"], spec["normalize"]
    tris = []
    for _ in range(k):
        if spec["stream"] == "lattice":
            den = rng.choice([1, 1, 2])
            p1 = gens.lat(rng, 4, den)
            if rng.random() < 0.2:
                v = gens.lat(rng, 3, den)
                a, b = rng.randint(-2, 3), rng.randint(-2, 3)
                tris.append([p1, [p1[j] + a * v[j] for j in range(3)], [p1[j] + b * v[j] for j in range(3)]])
            else:
                tris.append([p1, gens.lat(rng, 4, den), gens.lat(rng, 4, den)])
        else:
            tris.append(float_triangle(rng))
    T = A(tris).reshape(-1, 3, 3)
    scale = max(gens.maxabs(T), 1e-300)
    arg = (lambda: shcopy(T[0])) if single else (lambda: shcopy(T))
    sfx = "%s/%s" % (spec["stream"], "single" if single else ("k0" if k == 0 else "stack"))
    trivial = k == 0
    # raw cross products scale like edge²
    e2 = max([float(np.linalg.norm(t[1] - t[0]) * np.linalg.norm(t[2] - t[0])) for t in T] + [1e-300])
    ntol = 1e-9 if spec["stream"] == "lattice" else 1e-8
    cases = []

    if single:
        ln = Line("c13.fn.normal1").b(nz).vec(T[0])
        le = Line("c13.fn.equation1").vec(T[0])
        cases.append(Case(spec, ln, lambda: flat(plane_normal_from_points(arg(), normalize=nz)), mode="both",
                          klass="fn.normal/%s/%s" % ("unit" if nz else "raw", sfx), scale=1.0 if nz else e2, rtol=ntol))
        cases.append(Case(spec, le, lambda: flat(plane_equation_from_points(arg())), mode="both", klass="fn.equation/" + sfx,
                          compare=split_compare([(3, 1.0, ntol), (1, scale, ntol)])))
    else:
        ln = Line("c13.fn.normal").b(nz).i(k).vec(T)
        le = Line("c13.fn.equation").i(k).vec(T)
        rows = lambda r, w: [int(np.shape(r)[0]) if np.ndim(r) == 2 and np.shape(r)[1] == w else -1 - int(np.ndim(r))] + flat(r)
        cases.append(Case(spec, ln, lambda: rows(plane_normal_from_points(arg(), normalize=nz), 3), mode="both", trivial=trivial,
                          klass="fn.normal/%s/%s" % ("unit" if nz else "raw", sfx), scale=1.0 if nz else e2, rtol=ntol))
        cases.append(Case(spec, le, lambda: rows(plane_equation_from_points(arg()), 4), mode="both", trivial=trivial,
                          klass="fn.equation/" + sfx,
                          compare=split_compare([(1, 1.0, 0.0)] + [(3, 1.0, ntol), (1, scale, ntol)] * k)))
    # normal_and_offset_from_plane_equations on arbitrary equations (pure slicing)
    if spec["stream"] == "lattice":
        E = A([gens.lat(rng, 4, 2) + [rng.randint(-8, 8) / 4] for _ in range(k)]).reshape(-1, 4)
    else:
        E = A([gens.fvec(rng, gens.scale_of(rng, -3, 3)) + [rng.uniform(-1, 1) * gens.scale_of(rng)] for _ in range(k)]).reshape(-1, 4)
    if single:
        def nao1():
            nn, oo = normal_and_offset_from_plane_equations(shcopy(E[0]))
            return flat(nn) + flat(oo)
        cases.append(Case(spec, Line("c13.fn.nao1").vec(E[0]), nao1, mode="both", klass="fn.nao/" + sfx, rtol=0.0))
    else:
        def nao():
            nn, oo = normal_and_offset_from_plane_equations(shcopy(E))
            return [k] + flat(nn) + [k] + flat(oo)
        cases.append(Case(spec, Line("c13.fn.nao").i(k).vec(E), nao, mode="both", klass="fn.nao/" + sfx, rtol=0.0, trivial=trivial))

    def oracle(_r):
        out = []
        tol = Fraction(ntol)
        N = np.asarray(plane_normal_from_points(arg(), normalize=True)).reshape(-1, 3)
        NR = np.asarray(plane_normal_from_points(arg(), normalize=False)).reshape(-1, 3)
        EQ = np.asarray(plane_equation_from_points(arg()))
        if not single and (EQ.shape != (k, 4) or np.shape(plane_normal_from_points(arg(), normalize=True)) != (k, 3)):
            out.append(("functions/stack-shape", "a stack of %d triangles gives equations of shape %s and normals of shape %s"
                        % (k, EQ.shape, np.shape(plane_normal_from_points(arg(), normalize=True)))))
        EQ = EQ.reshape(-1, 4)
        if N.dtype != np.float64 or EQ.dtype != np.float64:
            out.append(("functions/real-dtype", "dtypes %s %s" % (N.dtype, EQ.dtype)))
        if len(EQ):
            nn, oo = normal_and_offset_from_plane_equations(shcopy(EQ) if not single else shcopy(EQ[0]))
            nn, oo = np.asarray(nn).reshape(-1, 3), np.atleast_1d(oo)
        for i, t in enumerate(T if not single else T[:1]):
            try:
                pl = Plane.from_points(shcopy(t[0]), shcopy(t[1]), shcopy(t[2]))
            except ValueError:
                pl = None
            c = gens.fcross(gens.fsub(t[1], t[0]), gens.fsub(t[2], t[0]))
            if pl is None:
                if any(c):
                    continue  # reported by the from_points cases
                if not (np.all(np.isnan(N[i])) and np.all(np.isnan(EQ[i]))):
                    out.append(("functions/collinear-nan", "collinear row %d: normal %r equation %r, expected NaN" % (i, N[i].tolist(), EQ[i].tolist())))
                if any(F(NR[i][j]) != 0 for j in range(3)):
                    out.append(("functions/raw-cross", "collinear row %d: unnormalised normal %r" % (i, NR[i].tolist())))
                continue
            pn = fvec(pl.normal)
            if any(abs(F(N[i][j]) - pn[j]) > tol for j in range(3)):
                out.append(("functions/normal-agrees", "row %d: plane_normal_from_points %r, from_points normal %r" % (i, N[i].tolist(), list(pl.normal))))
            pe = fvec(pl.equation)
            stol = tol * Fraction(scale)
            if any(abs(F(EQ[i][j]) - pe[j]) > (tol if j < 3 else stol) for j in range(4)):
                out.append(("functions/equation-agrees", "row %d: plane_equation_from_points %r, from_points(...).equation %r" % (i, EQ[i].tolist(), list(pl.equation))))
            if any(F(nn[i][j]) != F(EQ[i][j]) for j in range(3)) or F(oo[i]) != F(EQ[i][3]):
                out.append(("functions/normal-and-offset", "row %d: normal_and_offset_from_plane_equations does not split the equation" % i))
            # the unnormalised normal is the cross product, a positive multiple of the unit normal
            e2t = Fraction(float(np.linalg.norm(t[1] - t[0]) * np.linalg.norm(t[2] - t[0])))
            if any(abs(F(NR[i][j]) - c[j]) > tol * e2t for j in range(3)):
                out.append(("functions/raw-cross", "row %d: normalize=False gives %r, (p2-p1)x(p3-p1) = %r" % (i, NR[i].tolist(), [float(x) for x in c])))
            # stacked row = single call
            if not single:
                n1 = plane_normal_from_points(shcopy(t))
                e1 = plane_equation_from_points(shcopy(t))
                if n1.shape != (3,) or e1.shape != (4,) or any(abs(F(n1[j]) - F(N[i][j])) > tol for j in range(3)) \
                        or any(abs(F(e1[j]) - F(EQ[i][j])) > (tol if j < 3 else stol) for j in range(4)):
                    out.append(("functions/stack-is-map", "row %d of the stacked result differs from the single call" % i))
        return dedupe(out)
    cases[0].oracle = oracle
    return cases


MAKERS = {"decimals": make_decimals, "const": make_const, "ctor": make_ctor, "pn": make_pn, "points": make_points,
          "pv": make_pv, "fit": make_fit, "tilted": make_tilted, "fn": make_fn}
