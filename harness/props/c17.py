"""C17 — Box is the tight axis-aligned bound; cloud extent and percentile are exact.

Correspondence: Box (constructor, from_points, every accessor, the six planes, contains), Polyline.bounding_box,
pointcloud.extent and pointcloud.percentile against the Lean models PW.Model.Box / PW.Model.Pointcloud at exact
rationals and at Float.  Oracle: the clauses of C17 on the implementation's outputs in exact rational arithmetic
(tightness, accessor formulas, inward planes, contains <=> six plane tests, brute-force farthest pair,
percentile point on the axis line).
"""
import math
from fractions import Fraction

import numpy as np

from pwlib.share import shcopy

from pwlib import gens
from pwlib.canon import flat
from pwlib.engine import Case
from pwlib.proto import Line, parse_num

ID = "C17"
TARGETS = ["PW.Props.C17", "PW.Props.C17Pct"]
RULE = ("box groups (origin, size, query points with atol in {None, 0, >0}) from a lattice stream (dyadic values, zero-"
        "thickness and negative sizes, query points exactly on faces / edges / at distance exactly atol) and a float stream "
        "(origin and each size component drawn independently from 1e-6..1e6, query points inside, outside and near each "
        "face; points closer than 1e-9*scale to a threshold without being exactly decidable are dropped); every group runs "
        "constructor, all accessors, the six planes and contains; clouds (1..40 points, lattice with coincident / coplanar / "
        "collinear points and exact distance ties, float over 12 orders of magnitude) run from_points, bounding_box, extent "
        "(with and without indices) and percentile (q in {0, 25, 50, 100, random, out of range}, axes of every magnitude "
        "incl. non-zero axes with all components <= 1e-8, which the code refuses: known finding percentile/tiny-axis-rejected); "
        "non-trivial = the call returns a value; distinct = distinct spec")
TRUSTED = ["np.min / np.ptp / np.prod / np.all / np.logical_and / np.argmax modelled as folds written out in the model",
           "np.percentile (external routine): its actual return value is captured and passed to the model as data, and the "
           "model's own linear interpolation on the sorted coordinates is compared with it",
           "vg.normalize / vg.reject / vg.almost_zero(atol=1e-8) / vg.euclidean_distance modelled as written in vg 2.0.0",
           "IEEE rounding not modelled: numbers compared with rtol 1e-9*scale, booleans / indices / exception classes exactly"]
ASSUMPTIONS = ["contains: query points within 1e-9*scale of a face threshold (and not exactly decidable on the lattice) are excluded",
               "extent indices: compared exactly; when they differ the two pairs must have equal squared distances (exact tie, or "
               "within 1e-12 relative = a rounding-level tie), otherwise it is a mismatch",
               "from_points: origin + size equals the per-axis maximum up to 4 ulp (the rounding of max - min and of the sum)"]
EXHAUSTIVE = {"quick": False, "thorough": False}

EPS = 2.0 ** -52
ALMOST_ZERO = 1e-8


def F(x):
    return Fraction(float(x))


def dyadic(rng, r=4):
    return rng.randint(-r, r) / rng.choice([1, 1, 2, 4])


def mag(rng, lo=-6, hi=6):
    return 10.0 ** rng.uniform(lo, hi)


# ---------------------------------------------------------------------------------------------------
# generators

def gen_box(rng, stream):
    if stream == "lattice":
        o = [dyadic(rng) for _ in range(3)]
        s = [rng.choice([0.0, 0.25, 0.5, 1.0, 2.0, 3.0]) for _ in range(3)]
        if rng.random() < 0.12:
            s[rng.randrange(3)] = rng.choice([-1.0, -0.25])
        qs = []
        for _ in range(rng.choice([2, 4, 6])):
            atol = rng.choice([None, None, 0.0, 0.25, 0.5, 1.0])
            a = 0.0 if atol is None else atol
            p = []
            for k in range(3):
                c = rng.random()
                lo, hi = o[k] - a, o[k] + s[k] + a
                if c < 0.25:
                    p.append(lo)                       # exactly on the widened lower face
                elif c < 0.5:
                    p.append(hi)                       # exactly on the widened upper face
                elif c < 0.6:
                    p.append(lo - 0.125)
                elif c < 0.7:
                    p.append(hi + 0.125)
                else:
                    p.append(o[k] + s[k] * rng.choice([0.0, 0.25, 0.5, 1.0]))
            qs.append({"p": p, "atol": atol})
        return {"origin": o, "size": s, "queries": qs}
    o = gens.fvec(rng, mag(rng))
    s = [mag(rng) for _ in range(3)]
    if rng.random() < 0.15:
        s[rng.randrange(3)] = 0.0
    if rng.random() < 0.05:
        s[rng.randrange(3)] *= -1.0
    qs = []
    for _ in range(rng.choice([2, 4, 6])):
        atol = rng.choice([None, 0.0, max(abs(x) for x in s) * 10.0 ** rng.uniform(-6, 0)])
        a = 0.0 if atol is None else atol
        p = []
        for k in range(3):
            c = rng.random()
            lo, hi = o[k] - a, o[k] + s[k] + a
            w = max(abs(s[k]), abs(o[k]) * 1e-6, 1e-12)
            if c < 0.5:
                p.append(o[k] + s[k] * rng.random())
            elif c < 0.65:
                p.append(lo - w * 10.0 ** rng.uniform(-5, 1))
            elif c < 0.8:
                p.append(hi + w * 10.0 ** rng.uniform(-5, 1))
            elif c < 0.9:
                p.append(lo + w * 10.0 ** rng.uniform(-5, -1))
            else:
                p.append(hi - w * 10.0 ** rng.uniform(-5, -1))
        qs.append({"p": p, "atol": atol})
    return {"origin": o, "size": s, "queries": qs}


def gen_cloud(rng, stream, kmin=0):
    k = rng.choice([0, 1, 1, 2, 2, 3, 4, 5, 8, 13, 21, 40])
    k = max(k, kmin)
    if stream == "lattice":
        c = rng.random()
        r = rng.choice([1, 2, 3])
        den = rng.choice([1, 1, 2])
        pts = [[rng.randint(-r, r) / den for _ in range(3)] for _ in range(k)]
        if c < 0.2:
            for p in pts:
                p[rng.randrange(3) if False else 2] = 1.0     # coplanar
        elif c < 0.3:
            d = [rng.randint(-1, 1) for _ in range(3)]
            pts = [[t * x for x in d] for t in (rng.randint(-3, 3) for _ in range(k))]  # collinear / coincident
        elif c < 0.4 and k:
            pts = [list(pts[0]) for _ in range(k)]            # all coincident
        elif c < 0.55 and k >= 2:
            pts[rng.randrange(k)] = list(pts[rng.randrange(k)])  # a repeated point
        return pts
    s = mag(rng)
    # centre up to 1e3 spreads away; one cloud in six is *far* from the origin (1e5..1e8 spreads), where a formula that
    # subtracts squared norms instead of coordinates would cancel catastrophically
    centre = gens.fvec(rng, s * 10.0 ** (rng.uniform(5, 8) if rng.random() < 1 / 6 else rng.uniform(-3, 3)))
    return [[c + x for c, x in zip(centre, gens.fvec(rng, s))] for _ in range(k)]


def gen(rng, tier):
    n = 500 if tier == "quick" else 6000
    for i in range(n):
        stream = "lattice" if i % 2 == 0 else "float"
        b = gen_box(rng, stream)
        b.update({"op": "box", "stream": stream})
        yield b
    n = 500 if tier == "quick" else 6000
    for i in range(n):
        stream = "lattice" if i % 2 == 0 else "float"
        yield {"op": "cloud", "stream": stream, "points": gen_cloud(rng, stream)}
    # larger clouds (a blocked or chunked implementation has block boundaries somewhere): 100..700 points with the farthest
    # pair placed anywhere, in particular among the last few rows
    for i in range(8 if tier == "quick" else 120):
        k = rng.choice([127, 128, 129, 130, 200, 257] if tier == "quick" else [127, 128, 129, 130, 200, 255, 257, 300, 513, 700]) \
            + rng.randint(0, 3)
        s = 10.0 ** rng.uniform(-2, 2)
        pts = [gens.fvec(rng, s) for _ in range(k)]
        a, b = rng.sample(range(k), 2)
        if i % 2 == 0:
            a, b = k - 1 - rng.randint(0, 2), k - 4 - rng.randint(0, 20)      # both in the trailing rows
        d = np.array(gens.unit(rng)) * s * 3.0
        pts[a] = (np.array(pts[a]) + d).tolist()
        pts[b] = (np.array(pts[b]) - d).tolist()
        yield {"op": "cloud", "stream": "float", "points": pts}
    n = 500 if tier == "quick" else 6000
    for i in range(n):
        stream = "lattice" if i % 2 == 0 else "float"
        pts = gen_cloud(rng, stream)
        c = rng.random()
        if stream == "lattice":
            axis = [float(rng.randint(-2, 2)) for _ in range(3)] if c < 0.9 else [0.0, 0.0, 0.0]
        elif c < 0.8:
            axis = gens.fvec(rng, mag(rng))
        elif c < 0.9:
            axis = gens.fvec(rng, 10.0 ** rng.uniform(-12, -8.5))   # non-zero but all components <= 1e-8: refused (known finding)
        else:
            axis = gens.fvec(rng, 10.0 ** rng.uniform(-7, -5))      # small but accepted
        q = rng.choice([0.0, 25.0, 50.0, 75.0, 100.0, 30.0, rng.uniform(0, 100), rng.uniform(0, 100),
                        rng.choice([-1.0, 100.5, 250.0])])
        yield {"op": "percentile", "stream": stream, "points": pts, "axis": axis, "q": q}


# ---------------------------------------------------------------------------------------------------
# cases

def make(spec):
    op = spec["op"]
    if op == "box":
        return make_box(spec)
    if op == "cloud":
        return make_cloud(spec)
    return make_percentile(spec)


def box_of(spec):
    from polliwog import Box
    return Box(np.array(spec["origin"], dtype=np.float64), np.array(spec["size"], dtype=np.float64))


def contains_decidable(spec, q, scale):
    """exact margins of the query point to the six widened faces: decidable if none is in (0, 1e-9*scale);
    an exact 0 is decidable only on the lattice (where the float arithmetic of the code is exact)"""
    o = [F(x) for x in spec["origin"]]
    s = [F(x) for x in spec["size"]]
    a = F(0.0 if q["atol"] is None else q["atol"])
    p = [F(x) for x in q["p"]]
    lim = Fraction(1e-9) * F(scale)
    for k in range(3):
        for m in (p[k] - (o[k] - a), (o[k] + s[k] + a) - p[k]):
            if m == 0 and spec["stream"] != "lattice":
                return False
            if 0 < abs(m) < lim:
                return False
    return True


def make_box(spec):
    o = np.array(spec["origin"], dtype=np.float64)
    s = np.array(spec["size"], dtype=np.float64)
    scale = max(gens.maxabs(o, s), 1e-300)
    valid = not any(x < 0 for x in spec["size"])
    kl = "%s/%s" % (spec["stream"], "ok" if valid else "negative-size")
    cases = []

    def add(opn, line, impl, sc=scale, **kw):
        cases.append(Case(spec, line, impl, mode="both", klass=opn + "/" + kl, trivial=not valid, scale=sc, **kw))

    def ob(opn):
        return Line(opn).vec(o).vec(s)

    add("box.ctor", ob("box.ctor"), lambda: (lambda b: flat(b.origin) + flat(b.size))(box_of(spec)))

    def acc():
        b = box_of(spec)
        out = flat(b.ranges)
        out += [float(getattr(b, n)) for n in ("min_x", "min_y", "min_z", "max_x", "max_y", "max_z", "mid_x", "mid_y",
                                               "mid_z", "width", "height", "depth")]
        out += flat(b.center_point) + flat(b.floor_point)
        out += [float(b.volume), float(b.surface_area)]
        v = np.asarray(b.v)
        out += [int(v.shape[0])] + flat(v)
        return out
    def compare_acc(r, model_line, mode):
        # coordinates are compared at the scale of the box; volume and surface area (items 24, 25) relative to their
        # own magnitude (products of sizes spanning 12 orders of magnitude)
        from pwlib.canon import compare
        toks = model_line.split(" ")
        if r[0] == "err" or toks[0] != "ok" or len(toks) != 1 + len(r[1]):
            return compare(r, model_line, scale=scale)
        items = r[1]
        rest = [x for k, x in enumerate(items) if k not in (24, 25)]
        rtoks = [t for k, t in enumerate(toks[1:]) if k not in (24, 25)]
        msg = compare(("ok", rest), " ".join(["ok"] + rtoks), scale=scale)
        if msg:
            return msg
        for k, nm in ((24, "volume"), (25, "surface_area")):
            msg = compare(("ok", [items[k]]), "ok " + toks[1 + k], scale=1e-300)
            if msg:
                return nm + ": " + msg
        return None
    add("box.acc", ob("box.acc"), acc, compare=compare_acc)

    def planes():
        b = box_of(spec)
        out = []
        for n in ("min_x_plane", "min_y_plane", "min_z_plane", "max_x_plane", "max_y_plane", "max_z_plane"):
            pl = getattr(b, n)
            out += flat(pl.reference_point) + flat(pl.normal)
        return out
    add("box.planes", ob("box.planes"), planes)
    for q in spec["queries"]:
        qscale = max(scale, gens.maxabs(q["p"]), abs(q["atol"] or 0.0))
        if not contains_decidable(spec, q, qscale):
            continue
        p = np.array(q["p"], dtype=np.float64)
        has = q["atol"] is not None
        line = ob("box.contains").vec(p).b(has).f(q["atol"] if has else 0.0)

        def impl(p=p, q=q):
            b = box_of(spec)
            r = b.contains(shcopy(p), atol=q["atol"]) if q["atol"] is not None else b.contains(shcopy(p))
            return [bool(r)]
        add("box.contains/" + ("atol" if has else "default"), line, impl)
    cases[0].oracle = lambda r: oracle_box(spec, r)
    return cases


def make_cloud(spec):
    from polliwog import Box, Polyline
    from polliwog.pointcloud import extent
    P = np.array(np.reshape(spec["points"], (-1, 3)), dtype=np.float64)
    k = len(P)
    scale = max(gens.maxabs(P), 1e-300)
    kl = "%s/k%s" % (spec["stream"], k if k < 3 else ("3-8" if k <= 8 else "9+"))
    cases = []
    cases.append(Case(spec, Line("box.from_points").vecs(P),
                      lambda: (lambda b: flat(b.origin) + flat(b.size))(Box.from_points(shcopy(P))),
                      mode="both", klass="box.from_points/" + kl, trivial=k == 0, scale=scale))

    def bbox():
        b = Polyline(shcopy(P)).bounding_box
        if b is None:
            return ["none"]
        return ["box"] + flat(b.origin) + flat(b.size)
    cases.append(Case(spec, Line("polyline.bbox").vecs(P), bbox, mode="both", klass="polyline.bbox/" + kl,
                      trivial=False, scale=scale))
    for ret in (True, False):
        def impl(ret=ret):
            r = extent(shcopy(P), ret_indices=ret)
            if ret:
                d, i, j = r
                return [float(d), int(i), int(j)]
            return [float(r)]
        cases.append(Case(spec, Line("pc.extent").b(ret).vecs(P), impl, mode="both",
                          klass="pc.extent/%s/%s" % ("indices" if ret else "distance", kl), trivial=k < 2, scale=scale,
                          compare=(lambda r, a, mode: compare_extent(P, scale, r, a)) if ret else None))
    cases[0].oracle = lambda r: oracle_cloud(spec, P, scale)
    return cases


def compare_extent(P, scale, r, model_line):
    from pwlib.canon import compare
    toks = model_line.split(" ")
    if r[0] == "err" or toks[0] != "ok" or len(toks) != 4:
        return compare(r, model_line, scale=scale)
    d, i, j = r[1]
    msg = compare(("ok", [d]), "ok " + toks[1], scale=scale)
    if msg:
        return msg
    mi, mj = int(toks[2]), int(toks[3])
    if (mi, mj) == (i, j):
        return None
    # rounding-level tie?
    def d2(a, b):
        return sum((F(x) - F(y)) ** 2 for x, y in zip(P[a], P[b]))
    if not (0 <= mi < len(P) and 0 <= mj < len(P) and 0 <= i < len(P) and 0 <= j < len(P)):
        return "extent indices out of range: impl (%d,%d) model (%d,%d)" % (i, j, mi, mj)
    # abstract level (what the property and `extent_spec` say): *a* pair attaining the maximum.  The model returns the
    # first one in probe order; another pair at exactly the same (or, in floats, rounding-level equal) distance agrees.
    a, b = d2(i, j), d2(mi, mj)
    if abs(a - b) <= Fraction(1e-12) * max(a, b):
        return None
    return "extent indices: impl (%d,%d) model (%d,%d)" % (i, j, mi, mj)


def run_percentile(P, axis, q):
    """calls the real function, recording what np.percentile returned inside it"""
    from polliwog.pointcloud import percentile
    seen = []
    real = np.percentile

    def recorder(*a, **kw):
        v = real(*a, **kw)
        seen.append(v)
        return v
    np.percentile = recorder
    try:
        r = percentile(shcopy(P), shcopy(axis), q)
    finally:
        np.percentile = real
    return r, (float(seen[-1]) if seen else None)


def make_percentile(spec):
    P = np.array(np.reshape(spec["points"], (-1, 3)), dtype=np.float64)
    axis = np.array(spec["axis"], dtype=np.float64)
    q = float(spec["q"])
    k = len(P)
    scale = max(gens.maxabs(P), 1e-300)
    try:
        _, c = run_percentile(P, axis, q)
        ok = True
    except Exception:  # noqa: BLE001 - decided again inside the case
        c = None
        ok = False
    kl = "%s/%s/%s" % (spec["stream"], "k%s" % (k if k < 3 else "3+"),
                       "q0" if q == 0 else "q100" if q == 100 else "q-out" if not 0 <= q <= 100 else "q")
    if ok and c is not None:
        line = Line("pc.percentile").f(ALMOST_ZERO, 100.0).vecs(P).vec(axis).f(q, c)

        def impl():
            r, c2 = run_percentile(P, axis, q)
            return flat(r) + [c2]
    else:
        line = Line("pc.percentile.err").f(ALMOST_ZERO, 100.0).vecs(P).vec(axis).f(q)

        def impl():
            r, c2 = run_percentile(P, axis, q)
            return [c2]
    case = Case(spec, line, impl, mode="both", klass="pc.percentile/" + kl, trivial=not ok, scale=scale,
                oracle=lambda r: oracle_percentile(spec, P, axis, q, scale, r))
    return [case]


# ---------------------------------------------------------------------------------------------------
# property oracle

def dedupe(out):
    seen = {}
    for k, m in out:
        seen.setdefault(k, m)
    return list(seen.items())


def close(a, b, tol):
    return abs(F(a) - (b if isinstance(b, Fraction) else F(b))) <= tol


def oracle_box(spec, r):
    try:
        return oracle_box_inner(spec, r)
    except (AssertionError, KeyError, NameError):
        raise
    except Exception as e:  # noqa: BLE001 - an accessor of a valid box raised
        import traceback
        tb = traceback.extract_tb(e.__traceback__)
        where = tb[-1].name if tb else "?"
        return [("accessor/raises", "%s raised inside %s on Box(%s, %s)" % (type(e).__name__, where, spec["origin"], spec["size"]))]


def oracle_box_inner(spec, r):
    out = []
    o = [F(x) for x in spec["origin"]]
    s = [F(x) for x in spec["size"]]
    neg = any(x < 0 for x in s)
    if r[0] == "err":
        if not neg:
            out.append(("ctor/rejects-valid", "Box(%s, %s) raised %s" % (spec["origin"], spec["size"], r[1])))
        elif r[1] != "ValueError":
            out.append(("ctor/negative-size-valueerror", "negative size raised %s, ValueError required" % r[1]))
        return out
    if neg:
        out.append(("ctor/negative-size-valueerror", "negative size %s was accepted" % (spec["size"],)))
        return out
    b = box_of(spec)
    scale = max(gens.maxabs(spec["origin"], spec["size"]), 1e-300)
    tol = Fraction(1e-9) * F(scale)
    lo = o
    hi = [o[k] + s[k] for k in range(3)]
    mid = [o[k] + s[k] / 2 for k in range(3)]
    names = "xyz"
    for k in range(3):
        if not close(getattr(b, "min_" + names[k]), lo[k], tol):
            out.append(("accessor/min", "min_%s" % names[k]))
        if not close(getattr(b, "max_" + names[k]), hi[k], tol):
            out.append(("accessor/max", "max_%s = %r, expected %r" % (names[k], float(getattr(b, "max_" + names[k])), float(hi[k]))))
        if not close(getattr(b, "mid_" + names[k]), mid[k], tol):
            out.append(("accessor/mid", "mid_%s" % names[k]))
        if not close(b.ranges[k][0], lo[k], tol) or not close(b.ranges[k][1], hi[k], tol):
            out.append(("accessor/ranges", "ranges[%d] = %s" % (k, b.ranges[k].tolist())))
        if not close(b.center_point[k], mid[k], tol):
            out.append(("accessor/center_point", "center_point[%d]" % k))
        if not close(b.floor_point[k], lo[k] if k == 1 else mid[k], tol):
            out.append(("accessor/floor_point", "floor_point[%d] = %r" % (k, float(b.floor_point[k]))))
    for nm, want in (("width", s[0]), ("height", s[1]), ("depth", s[2])):
        if not close(getattr(b, nm), want, tol):
            out.append(("accessor/" + nm, "%s = %r expected %r" % (nm, float(getattr(b, nm)), float(want))))
    vol = s[0] * s[1] * s[2]
    if not close(b.volume, vol, Fraction(1e-9) * max(abs(vol), Fraction(1, 10 ** 300))):
        out.append(("accessor/volume", "volume = %r expected %r" % (float(b.volume), float(vol))))
    sa = 2 * (s[0] * s[1] + s[1] * s[2] + s[0] * s[2])
    if not close(b.surface_area, sa, Fraction(1e-9) * max(abs(sa), Fraction(1, 10 ** 300))):
        out.append(("accessor/surface_area", "surface_area = %r expected %r" % (float(b.surface_area), float(sa))))
    V = np.asarray(b.v)
    want = {tuple(float((lo, hi)[(m >> k) & 1][k]) for k in range(3)) for m in range(8)}
    if V.shape != (8, 3):
        out.append(("accessor/v", "v has shape %s" % (V.shape,)))
    else:
        got = [tuple(F(x) for x in row) for row in V]
        for m in range(8):
            corner = tuple((lo, hi)[(m >> k) & 1][k] for k in range(3))
            if not any(all(abs(g[k] - corner[k]) <= tol for k in range(3)) for g in got):
                out.append(("accessor/v", "corner %s is missing from v" % ([float(x) for x in corner],)))
                break
    # planes: unit axis normals pointing inward, through the centre of the face
    planes = [getattr(b, n) for n in ("min_x_plane", "min_y_plane", "min_z_plane", "max_x_plane", "max_y_plane", "max_z_plane")]
    for idx, pl in enumerate(planes):
        k = idx % 3
        is_max = idx >= 3
        n = [F(x) for x in pl.normal]
        ref = [F(x) for x in pl.reference_point]
        wantn = [Fraction(0)] * 3
        wantn[k] = Fraction(-1 if is_max else 1)
        if n != wantn:
            out.append(("planes/inward-normal", "plane %d has normal %s" % (idx, pl.normal.tolist())))
        face_centre = list(mid)
        face_centre[k] = hi[k] if is_max else lo[k]
        if any(abs(ref[j] - face_centre[j]) > tol for j in range(3)):
            out.append(("planes/through-face", "plane %d passes through %s, face centre is %s" % (
                idx, pl.reference_point.tolist(), [float(x) for x in face_centre])))
        sd_centre = sum(n[j] * (mid[j] - ref[j]) for j in range(3))
        if sd_centre < -tol:
            out.append(("planes/inward-normal", "the box centre is behind plane %d" % idx))
    # contains <=> all six signed distances >= -atol   (on the decidable queries)
    for q in spec["queries"]:
        qscale = max(scale, gens.maxabs(q["p"]), abs(q["atol"] or 0.0))
        if not contains_decidable(spec, q, qscale):
            continue
        p = np.array(q["p"], dtype=np.float64)
        got = bool(b.contains(shcopy(p), atol=q["atol"])) if q["atol"] is not None else bool(b.contains(shcopy(p)))
        a = F(q["atol"] or 0.0)
        # exact signed distances to the (exact) face planes
        pf = [F(x) for x in p]
        sds = [pf[k] - lo[k] for k in range(3)] + [hi[k] - pf[k] for k in range(3)]
        want_in = all(d >= -a for d in sds)
        if got != want_in:
            out.append(("contains/iff-planes", "contains(%s, atol=%s) = %s but the six signed distances are %s" % (
                q["p"], q["atol"], got, [float(d) for d in sds])))
        # and through the implementation's own planes
        sd_impl = [float(pl.signed_distance(shcopy(p))) for pl in planes]
        margin = min(abs(F(d) + a) for d in sd_impl)
        if margin > Fraction(1e-9) * F(qscale) and (all(F(d) >= -a for d in sd_impl) != got):
            out.append(("contains/iff-planes", "contains(%s, atol=%s) = %s disagrees with Plane.signed_distance of the six planes %s" % (
                q["p"], q["atol"], got, sd_impl)))
    return dedupe(out)


def oracle_cloud(spec, P, scale):
    from polliwog import Box, Polyline
    from polliwog.pointcloud import extent
    out = []
    k = len(P)
    # --- from_points / bounding_box
    try:
        b = Box.from_points(shcopy(P))
        err = None
    except Exception as e:  # noqa: BLE001
        b = None
        err = type(e).__name__
    bb_err = None
    try:
        bb = Polyline(shcopy(P)).bounding_box
    except Exception as e:  # noqa: BLE001
        bb = None
        bb_err = type(e).__name__
    if bb_err is not None:
        out.append(("bounding_box/none-when-empty" if k == 0 else "bounding_box/raises",
                    "Polyline.bounding_box raised %s on %d vertices" % (bb_err, k)))
    if k == 0:
        if err != "ValueError":
            out.append(("from_points/empty-valueerror", "from_points of no points: %s" % (err or "returned a box")))
        if bb is not None:
            out.append(("bounding_box/none-when-empty", "bounding_box of an empty polyline is not None"))
    elif b is None:
        out.append(("from_points/raises", "from_points raised %s on %d points" % (err, k)))
    else:
        ulp4 = 4 * Fraction(EPS) * F(scale)
        for ax in range(3):
            col = [F(x) for x in P[:, ax]]
            if F(b.origin[ax]) != min(col):
                out.append(("from_points/origin-is-min", "origin[%d] = %r, minimum is %r" % (ax, float(b.origin[ax]), float(min(col)))))
            if abs(F(b.origin[ax]) + F(b.size[ax]) - max(col)) > ulp4:
                out.append(("from_points/far-corner-is-max", "origin+size[%d] = %r, maximum is %r" % (
                    ax, float(b.origin[ax]) + float(b.size[ax]), float(max(col)))))
            if F(b.size[ax]) < 0:
                out.append(("from_points/size-nonnegative", "size[%d] = %r" % (ax, float(b.size[ax]))))
        exact = spec["stream"] == "lattice"
        for p in P:
            inside = bool(b.contains(shcopy(p))) if exact else bool(b.contains(shcopy(p), atol=float(ulp4)))
            if not inside:
                out.append(("from_points/contains-inputs", "input point %s is not contained in its bounding box" % (p.tolist(),)))
                break
        if bb_err is None and (bb is None or not (np.array_equal(bb.origin, b.origin) and np.array_equal(bb.size, b.size))):
            out.append(("bounding_box/is-from-points", "Polyline.bounding_box differs from Box.from_points(v)"))
    # --- extent
    try:
        d, i, j = extent(shcopy(P), ret_indices=True)
        d_only = extent(shcopy(P))
        err = None
    except Exception as e:  # noqa: BLE001
        err = type(e).__name__
    if k < 2:
        if err != "ValueError":
            out.append(("extent/too-few-valueerror", "extent of %d points: %s" % (k, err or "returned a value")))
    elif err is not None:
        out.append(("extent/raises", "extent raised %s on %d points" % (err, k)))
    else:
        Q = [[F(x) for x in p] for p in P]
        best = Fraction(-1)
        for a in range(k):
            for c in range(a + 1, k):
                d2 = sum((x - y) ** 2 for x, y in zip(Q[a], Q[c]))
                if d2 > best:
                    best = d2
        i, j = int(i), int(j)
        if not (0 <= i < k and 0 <= j < k):
            out.append(("extent/indices-valid", "indices (%d, %d) for %d points" % (i, j, k)))
        else:
            dij = sum((x - y) ** 2 for x, y in zip(Q[i], Q[j]))
            # differences of coordinates carry an absolute rounding error of a few ulp of the coordinates' magnitude
            rel = 1e-12 + 64 * 2.0 ** -52 * scale / max(math.sqrt(float(best)), 1e-300) if best > 0 else 0.0
            tie = Fraction(0) if spec["stream"] == "lattice" else Fraction(rel) * best
            if dij < best - tie:
                out.append(("extent/pair-attains-max", "returned pair (%d,%d) at squared distance %r, the farthest pair is at %r" % (
                    i, j, float(dij), float(best))))
        tol = 1e-9 * math.sqrt(float(best)) + 64 * 2.0 ** -52 * scale
        if abs(float(d) - math.sqrt(float(best))) > tol:
            out.append(("extent/distance-is-max", "returned distance %r, the largest pairwise distance is %r" % (float(d), math.sqrt(float(best)))))
        if float(d_only) != float(d):
            out.append(("extent/forms-agree", "ret_indices=False gives %r, ret_indices=True gives %r" % (float(d_only), float(d))))
    return dedupe(out)


def oracle_percentile(spec, P, axis, q, scale, r):
    out = []
    k = len(P)
    a = [F(x) for x in axis]
    # the property quantifies over all non-zero axes: only the exactly-zero axis may be refused
    tiny = any(x != 0 for x in a) and all(abs(x) <= F(ALMOST_ZERO) for x in a)
    must_raise = k < 1 or not any(x != 0 for x in a) or not (0 <= q <= 100)
    if r[0] == "err":
        if not must_raise:
            if tiny and r[1] == "ValueError":
                out.append(("percentile/tiny-axis-rejected", "percentile(points, axis=%s, %r) raised ValueError although the axis is not zero "
                            "(all components <= 1e-8 in absolute value)" % (axis.tolist(), q)))
            else:
                out.append(("percentile/raises", "percentile raised %s on a valid input" % r[1]))
        elif r[1] != "ValueError":
            out.append(("percentile/valueerror", "invalid input raised %s" % r[1]))
        return out
    if must_raise:
        out.append(("percentile/valueerror", "invalid input (k=%d, axis=%s, q=%r) was accepted" % (k, axis.tolist(), q)))
        return out
    res = [F(x) if x is not None else None for x in r[1][:3]]
    if any(x is None for x in res):
        out.append(("percentile/nan", "percentile returned NaN"))
        return out
    an = math.sqrt(float(sum(x * x for x in a)))
    u = [F(float(x) / an) for x in a]
    coords = sorted(sum(F(p[j]) * u[j] for j in range(3)) for p in P)
    pos = F(q) / 100 * (k - 1)
    i = int(pos)  # floor, pos >= 0
    g = pos - i
    lo_ = coords[i]
    hi_ = coords[min(i + 1, k - 1)]
    c = lo_ + g * (hi_ - lo_)
    tol = Fraction(1e-9) * F(scale)
    along = sum(res[j] * u[j] for j in range(3))
    if abs(along - c) > 4 * tol:
        out.append(("percentile/coordinate-along-axis", "the result's coordinate along the axis is %r, the %r-th percentile of the coordinates is %r" % (
            float(along), q, float(c))))
    cen = [sum(F(p[j]) for p in P) / k for j in range(3)]
    d = [res[j] - cen[j] for j in range(3)]
    cr = [d[1] * u[2] - d[2] * u[1], d[2] * u[0] - d[0] * u[2], d[0] * u[1] - d[1] * u[0]]
    if any(abs(x) > 4 * tol for x in cr):
        out.append(("percentile/on-centroid-line", "the result is not on the line through the centroid along the axis"))
    return dedupe(out)
