"""C07 — Polyline.nearest is the true closest point; closest_point_of_line_segment / is_point_on_line_segment;
sliced_at_points and aligned_along_subsegment build on it.

Correspondence: the real functions against the Lean model PW.Model.Nearest (exact rationals and Float).
  * nearest: all 8 flag subsets, single and stacked queries, open/closed chains from a lattice stream (exact ties
    between segments, repeated vertices, zero-length segments), a float stream (magnitudes 1e-6..1e6) and the
    no-segment chains (ValueError).  Strict comparison first; when it fails the *abstract* comparison decides: the
    segment the code reports (or, when no index is returned, some segment) must be within 1e-9*scale of the minimal
    distance in the model's own all-pairs table and point / t / distance / index must agree with that row.
  * closest_point_of_line_segment / is_point_on_line_segment pairwise, incl. zero-length segments and wrong lengths.
  * sliced_at_points / aligned_along_subsegment on simple polylines (points not within 1e-3 of a vertex or of each
    other) and on lattice polylines whose arg-min is determined.
Oracle: independent of the model and of the library's clamping code - per segment the exact minimum over [0,1] of the
squared-distance quadratic in Fractions (value at 0, at 1 and at the stationary point), the consistency clauses of
the property on the implementation's outputs, and an independent construction of the expected sub-path.
"""
import itertools
import math
import random
from fractions import Fraction

import numpy as np

from pwlib.share import shcopy

from pwlib import canon, gens
from pwlib.canon import counted, flat
from pwlib.engine import Case
from pwlib.proto import Line, parse_num

ID = "C07"
TARGETS = ["PW.Props.C07"]
RULE = ("nearest groups = (chain, open/closed, query set, single/stacked) x all 8 flag subsets from three streams: "
        "lattice (integer/dyadic vertices with forced repeated vertices and zero-length segments, queries on a finer "
        "lattice / at vertices / at midpoints so that exact ties between segments occur), float (magnitudes 1e-6..1e6, "
        "queries near, on and far from the chain), degenerate (chains without a segment -> ValueError); "
        "segment groups = pairwise closest_point_of_line_segment (with and without t) and is_point_on_line_segment "
        "(lattice incl. zero vectors and exact threshold hits, float, wrong row counts); "
        "sub-path groups = sliced_at_points and aligned_along_subsegment on simple open (x-monotone, rotated) and "
        "simple closed (star-shaped planar, rotated) polylines with points on/near segments at least 1e-3 away from "
        "every vertex and from each other - cycling through every configuration of the two landing positions "
        "(forward, backward/wrap, to / from the closing edge, both on one segment in either order, both on the closing "
        "edge in either order; the class name records the configuration actually realised) - and on lattice polylines "
        "whose arg-min is determined (unique by 1e-6*scale "
        "or tied at one exactly shared vertex); a case is non-trivial when it has a segment and a query; "
        "distinct = distinct spec")
TRUSTED = ["np.argmin modelled as 'first minimal index' on finite values (NaN ordering not modelled)",
           "np.nan_to_num(x/0) modelled by an explicit branch on the denominator (0/0 -> 0, +-x/0 -> clipped to 1/0)",
           "np.insert / np.roll / slicing / np.isclose(.,0,atol) modelled as list insert / rotate / take-drop / |x| <= atol",
           "IEEE rounding not modelled: points, distances and t values compared with tolerance (1e-9*scale; t: "
           "1e-9*max(1, extent/shortest segment)), indices exactly or at the abstract level for ties"]
ASSUMPTIONS = ["arg-min ties: when several segments are within 1e-9*scale of the minimal distance any of them is accepted, "
               "provided point, t, distance and index are mutually consistent",
               "is_point_on_line_segment rows whose squared distance is within 1e-9 (relative) of epsilon**2 without the "
               "float computation being exact are excluded",
               "sub-path cases whose nearest segment is not determined (two different closest points within 1e-6*scale) "
               "are excluded; closed aligned_along_subsegment accepts either orientation when the two sub-path lengths "
               "differ by less than 1e-9*scale"]
EXHAUSTIVE = {"quick": False, "thorough": False}

FLAG_NAMES = ("ret_segment_indices", "ret_distances", "ret_t_values")
ALL_FLAGS = list(itertools.product((False, True), repeat=3))
STATS = {"abstract_matches": 0}


# ---------------------------------------------------------------------------------------------------
# exact helpers (Fractions)

def F(x):
    return x if isinstance(x, Fraction) else Fraction(float(x))


def Fv(p):
    return [F(x) for x in p]


def vsub(a, b):
    return [x - y for x, y in zip(a, b)]


def vdot(a, b):
    return sum(x * y for x, y in zip(a, b))


def edge_pairs(n, closed):
    if closed:
        return [(i, (i + 1) % n) for i in range(n)]
    return [(i, i + 1) for i in range(n - 1)]


def seg_min(q, a, b):
    """exact minimum over s in [0,1] of |q - a - s(b-a)|^2 -> (value, s); value at 0, at 1 and at the stationary
    point of the quadratic (no clamping code)"""
    v = vsub(b, a)
    w = vsub(q, a)
    den = vdot(v, v)
    num = vdot(w, v)
    ww = vdot(w, w)
    best = (ww, Fraction(0))
    f1 = ww - 2 * num + den
    if f1 < best[0]:
        best = (f1, Fraction(1))
    if den > 0:
        s0 = num / den
        if 0 < s0 < 1:
            f0 = ww - num * num / den
            if f0 < best[0]:
                best = (f0, s0)
    return best


def fsqrt_hi(x):
    """upper bound of sqrt of a non-negative Fraction"""
    return Fraction(math.sqrt(float(x))) * (1 + Fraction(1, 10 ** 14)) if x > 0 else Fraction(0)


def fsqrt(x):
    return math.sqrt(float(x)) if x > 0 else 0.0


def exact_table(V, closed, Q):
    """per query, per segment: (min squared distance, s)"""
    Vf = [Fv(p) for p in V]
    pairs = edge_pairs(len(V), closed)
    return [[seg_min(Fv(q), Vf[i], Vf[j]) for (i, j) in pairs] for q in Q], pairs


# ---------------------------------------------------------------------------------------------------
# generators

def rot_from(rng):
    """random rotation matrix (from a unit quaternion)"""
    while True:
        q = np.array([rng.gauss(0, 1) for _ in range(4)])
        n = np.linalg.norm(q)
        if n > 1e-3:
            break
    w, x, y, z = q / n
    return np.array([[1 - 2 * (y * y + z * z), 2 * (x * y - z * w), 2 * (x * z + y * w)],
                     [2 * (x * y + z * w), 1 - 2 * (x * x + z * z), 2 * (y * z - x * w)],
                     [2 * (x * z - y * w), 2 * (y * z + x * w), 1 - 2 * (x * x + y * y)]])


def lattice_chain(rng):
    d = rng.choice([1, 1, 2])
    r = rng.choice([1, 2, 3])
    n = rng.choice([1, 2, 2, 3, 3, 4, 5, 6, 7])
    planar = rng.random() < 0.5
    V = []
    for _ in range(n):
        u = rng.random()
        if V and u < 0.15:
            V.append(list(V[-1]))            # zero-length segment
        elif V and u < 0.3:
            V.append(list(rng.choice(V)))    # repeated vertex
        else:
            p = gens.lat(rng, r, d)
            if planar:
                p[2] = 0.0
            V.append(p)
    return V, planar


def lattice_queries(rng, V, k, planar):
    Q = []
    for _ in range(k):
        u = rng.random()
        if u < 0.15:
            Q.append(list(rng.choice(V)))
        elif u < 0.3 and len(V) > 1:
            i = rng.randrange(len(V))
            j = (i + 1) % len(V)
            Q.append([(V[i][c] + V[j][c]) / 2 for c in range(3)])
        else:
            p = gens.lat(rng, 4, rng.choice([1, 2, 4]))
            if planar and rng.random() < 0.7:
                p[2] = 0.0
            Q.append(p)
    return Q


def float_chain(rng):
    s = gens.scale_of(rng)
    n = rng.choice([2, 2, 3, 4, 5, 6, 8, 10])
    V = [gens.fvec(rng, s) for _ in range(n)]
    if rng.random() < 0.15:
        i = rng.randrange(n)
        V.insert(i, list(V[i]))              # exact zero-length segment
    return V, s


def float_queries(rng, V, s, k):
    Q = []
    for _ in range(k):
        u = rng.random()
        if u < 0.1:
            Q.append(list(rng.choice(V)))
        elif u < 0.3:
            i = rng.randrange(len(V))
            j = (i + 1) % len(V)
            t = rng.random()
            Q.append([V[i][c] + t * (V[j][c] - V[i][c]) for c in range(3)])
        elif u < 0.5:
            p = rng.choice(V)
            e = s * 10.0 ** rng.uniform(-4, -1)
            Q.append([p[c] + rng.uniform(-1, 1) * e for c in range(3)])
        elif u < 0.9:
            Q.append(gens.fvec(rng, s * rng.choice([0.5, 1.0, 2.0])))
        else:
            Q.append(gens.fvec(rng, s * 10.0))
    return Q


def simple_open(rng):
    s = 10.0 ** rng.uniform(-1, 2)
    n = rng.choice([2, 3, 4, 5, 6, 8])
    x = 0.0
    P = []
    for _ in range(n):
        x += rng.uniform(0.5, 2.0) * s
        P.append([x, rng.uniform(-1, 1) * s, rng.uniform(-1, 1) * s])
    R = rot_from(rng)
    c = np.array(gens.fvec(rng, 3 * s))
    return (np.array(P) @ R.T + c).tolist(), s


def simple_closed(rng):
    s = 10.0 ** rng.uniform(-1, 2)
    n = rng.choice([3, 4, 5, 6, 8])
    while True:
        ang = sorted(rng.uniform(0, 2 * math.pi) for _ in range(n))
        gaps = [ang[(i + 1) % n] - ang[i] + (2 * math.pi if i == n - 1 else 0) for i in range(n)]
        if min(gaps) > 0.35 and max(gaps) < 2.6:
            break
    P = [[math.cos(a) * r * s, math.sin(a) * r * s, 0.0] for a, r in ((a, rng.uniform(0.6, 1.4)) for a in ang)]
    R = rot_from(rng)
    c = np.array(gens.fvec(rng, 3 * s))
    return (np.array(P) @ R.T + c).tolist(), s


def point_on(rng, V, closed, s):
    pairs = edge_pairs(len(V), closed)
    i, j = rng.choice(pairs)
    t = rng.uniform(0.1, 0.9)
    p = np.array(V[i]) + t * (np.array(V[j]) - np.array(V[i]))
    if rng.random() < 0.5:
        p = p + np.array(gens.unit(rng)) * s * 10.0 ** rng.uniform(-7, -2.5)
    return p.tolist()


OPEN_CFGS = ["fwd", "back", "same-fwd", "same-back", "random"]
CLOSED_CFGS = ["fwd", "to-closing", "from-closing", "wrap", "same-fwd", "same-back", "closing-same-fwd",
               "closing-same-back", "random"]


def directed_pair(rng, V, closed, s, cfg):
    """two query points on/near a simple polyline in a prescribed configuration of (segment, parameter) positions:
    forward / backward (wrap on closed polylines), one of them on the closing edge, both on one segment in either order,
    both on the closing edge in either order.  Falls back to independent random positions when the polyline has too few
    segments for the configuration."""
    n = len(V)
    ne = n if closed else n - 1
    inner = ne - 1 if closed else ne       # inner segments are 0 .. inner-1
    t1, t2 = sorted([rng.uniform(0.1, 0.9), rng.uniform(0.1, 0.9)])
    if t2 - t1 < 0.1:
        t1, t2 = 0.25, 0.7
    pos = None
    if cfg in ("fwd", "back", "wrap") and inner >= 2:
        i, j = sorted(rng.sample(range(inner), 2))
        pos = ((i, rng.uniform(0.1, 0.9)), (j, rng.uniform(0.1, 0.9)))
        if cfg != "fwd":
            pos = (pos[1], pos[0])
    elif cfg == "to-closing" and closed and inner >= 1:
        pos = ((rng.randrange(inner), rng.uniform(0.1, 0.9)), (n - 1, rng.uniform(0.1, 0.9)))
    elif cfg == "from-closing" and closed and inner >= 1:
        pos = ((n - 1, rng.uniform(0.1, 0.9)), (rng.randrange(inner), rng.uniform(0.1, 0.9)))
    elif cfg in ("same-fwd", "same-back") and inner >= 1:
        i = rng.randrange(inner)
        pos = ((i, t1), (i, t2)) if cfg == "same-fwd" else ((i, t2), (i, t1))
    elif cfg in ("closing-same-fwd", "closing-same-back") and closed:
        pos = ((n - 1, t1), (n - 1, t2)) if cfg == "closing-same-fwd" else ((n - 1, t2), (n - 1, t1))
    if pos is None:
        return point_on(rng, V, closed, s), point_on(rng, V, closed, s)
    pairs = edge_pairs(n, closed)
    out = []
    for (k, t) in pos:
        i0, i1 = pairs[k]
        p = np.array(V[i0]) + t * (np.array(V[i1]) - np.array(V[i0]))
        if rng.random() < 0.5:
            p = p + np.array(gens.unit(rng)) * s * 10.0 ** rng.uniform(-7, -2.5)
        out.append(p.tolist())
    return out[0], out[1]


def lattice_path(rng):
    """lattice polyline for the sub-path stream (no forced repeats; the determinedness filter drops the bad ones)"""
    d = rng.choice([1, 2])
    n = rng.choice([2, 3, 4, 5, 6])
    V = []
    while len(V) < n:
        p = gens.lat(rng, 3, d)
        p[2] = 0.0 if rng.random() < 0.7 else p[2]
        if p not in V:
            V.append(p)
    return V


def gen(rng, tier):
    quick = tier == "quick"
    n_near = 450 if quick else 6000
    for i in range(n_near):
        u = i % 10
        if u < 5:
            V, planar = lattice_chain(rng)
            k = rng.choice([1, 1, 2, 3, 5, 8])
            Q = lattice_queries(rng, V, k, planar)
            stream = "lattice"
        elif u < 9:
            V, s = float_chain(rng)
            k = rng.choice([1, 1, 2, 3, 5, 8, 13])
            Q = float_queries(rng, V, s, k)
            stream = "float"
        else:
            # no segment at all -> ValueError; also the empty stack of queries
            stream = "degenerate"
            if rng.random() < 0.5:
                V = [gens.lat(rng, 3)] if rng.random() < 0.7 else []
                closed = False if V else rng.random() < 0.5
                Q = [gens.lat(rng, 3) for _ in range(rng.choice([0, 1, 2]))]
                yield {"op": "nearest", "stream": stream, "closed": closed, "v": V, "q": Q,
                       "single": len(Q) == 1 and rng.random() < 0.5}
                continue
            V, planar = lattice_chain(rng)
            Q = []
        closed = rng.random() < 0.5
        single = len(Q) == 1 and rng.random() < 0.7
        yield {"op": "nearest", "stream": stream, "closed": closed, "v": V, "q": Q, "single": single}
    n_seg = 150 if quick else 2500
    for i in range(n_seg):
        yield {"op": "segfn", "stream": "lattice" if i % 2 == 0 else "float", "k": rng.choice([0, 1, 2, 3, 5, 9]),
               "bad": rng.random() < 0.08, "seed": rng.randrange(1 << 30)}
    n_sub = 360 if quick else 4000
    for i in range(n_sub):
        u = i % 3
        if u == 0:
            V, s = simple_open(rng)
            closed = False
            kind = "simple"
        elif u == 1:
            V, s = simple_closed(rng)
            closed = True
            kind = "simple"
        else:
            V = lattice_path(rng)
            closed = rng.random() < 0.5
            kind = "lattice"
            s = 1.0
        if kind == "simple" and i % 4 == 3:
            # far from the origin (coordinates 1e3.5..1e5.5 times the size of the polyline), the two points a few thousandths
            # of a segment away from a vertex (but more than 2e-3 in absolute terms: the property's exclusion is 1e-3)
            kind = "simple-far"
            off = np.array(gens.unit(rng)) * s * 10.0 ** rng.uniform(3.5, 5.5)
            V = (np.array(V) + off).tolist()
            pairs = edge_pairs(len(V), closed)
            ks = sorted(rng.sample(range(len(pairs)), 2)) if len(pairs) >= 2 else [0, 0]
            pts = []
            for which, kk in enumerate(ks):
                i0, i1 = pairs[kk]
                seg = np.array(V[i1]) - np.array(V[i0])
                ln_ = float(np.linalg.norm(seg))
                t = max(rng.uniform(0.003, 0.02), 2.5e-3 / ln_)
                if which == 1:
                    t = 1.0 - t
                if len(pairs) < 2:
                    t = [0.3, 0.7][which] if which else t
                pts.append((np.array(V[i0]) + t * seg).tolist())
            a, b = pts
        elif kind == "simple":
            cfgs = CLOSED_CFGS if closed else OPEN_CFGS
            a, b = directed_pair(rng, V, closed, s, cfgs[(i // 3) % len(cfgs)])
        else:
            a, b = lattice_queries(rng, V, 2, True)
            if rng.random() < 0.1:
                b = list(a)
        yield {"op": "subpath", "kind": kind, "closed": closed, "v": V, "a": a, "b": b}


# ---------------------------------------------------------------------------------------------------
# nearest: adapters, abstract comparison

def canon_nearest(res):
    """what the code returned, structurally: tuple|bare, then per array a tag and its values"""
    items = []
    if isinstance(res, tuple):
        items.append("tuple")
        elems = list(res)
    else:
        items.append("bare")
        elems = [res]
    for k, e in enumerate(elems):
        e = np.asarray(e)
        if k == 0:
            if e.shape == (3,):
                items.append("P1")
                items.extend(flat(e))
            elif e.ndim == 2 and e.shape[1] == 3:
                items.append("Pk")
                items.extend(counted(e))
            else:
                items.append("shape:%s" % (e.shape,))
        elif e.dtype.kind in "iu":
            if e.ndim == 0:
                items.append("i1")
                items.append(int(e))
            elif e.ndim == 1:
                items.append("Ik")
                items.append(int(e.shape[0]))
                items.extend(int(x) for x in e)
            else:
                items.append("shape:%s" % (e.shape,))
        else:
            if e.ndim == 0:
                items.append("f1")
                items.extend(flat(e))
            elif e.ndim == 1:
                items.append("Fk")
                items.extend(counted(e))
            else:
                items.append("shape:%s" % (e.shape,))
    return items


def parse_struct(xs, num):
    """-> (tuple?, [(tag, count|None, values)], rest) ; raises ValueError on anything unexpected"""
    if not xs or xs[0] not in ("tuple", "bare"):
        raise ValueError("no tuple/bare tag")
    arrays = []
    i = 1
    while i < len(xs) and xs[i] != "cands":
        tag = xs[i]
        i += 1
        if tag == "P1":
            arrays.append(("P", None, [num(x) for x in xs[i:i + 3]]))
            i += 3
        elif tag == "Pk":
            n = int(xs[i])
            arrays.append(("P", n, [num(x) for x in xs[i + 1:i + 1 + 3 * n]]))
            i += 1 + 3 * n
        elif tag == "i1":
            arrays.append(("I", None, [int(xs[i])]))
            i += 1
        elif tag == "Ik":
            n = int(xs[i])
            arrays.append(("I", n, [int(x) for x in xs[i + 1:i + 1 + n]]))
            i += 1 + n
        elif tag == "f1":
            arrays.append(("F", None, [num(xs[i])]))
            i += 1
        elif tag == "Fk":
            n = int(xs[i])
            arrays.append(("F", n, [num(x) for x in xs[i + 1:i + 1 + n]]))
            i += 1 + n
        else:
            raise ValueError("unexpected tag %r" % (tag,))
    if i > len(xs):
        raise ValueError("truncated")
    return xs[0] == "tuple", arrays, xs[i:]


def near(a, b, tol):
    """a: impl float|None, b: model Fraction|float|None"""
    return canon.num_close(a, b, tol)


def make_nearest_compare(flags, nq, nseg, scale, ttol):
    si, sd, st = flags
    ptol = Fraction(1e-9) * Fraction(scale)

    def cmp(r, model_line, mode):
        toks = model_line.split(" ")
        if toks[0] != "ok" or r[0] != "ok":
            return canon.compare(r, model_line, scale=scale)
        try:
            mt, marr, rest = parse_struct(toks[1:], parse_num)
        except (ValueError, IndexError) as e:
            return "model-protocol-error: %s: %s" % (e, model_line[:200])
        try:
            it, iarr, irest = parse_struct(r[1], lambda x: x)
        except (ValueError, IndexError, TypeError) as e:
            return "impl returned an unexpected structure (%s): %r" % (e, r[1][:12])
        if irest:
            return "impl returned an unexpected structure: %r" % (r[1][:12],)
        if it != mt:
            return "impl returned %s, model %s" % ("a tuple" if it else "a bare array", "a tuple" if mt else "a bare array")
        if [(t, n) for t, n, _ in iarr] != [(t, n) for t, n, _ in marr]:
            return "returned arrays differ: impl %s model %s" % ([(t, n) for t, n, _ in iarr], [(t, n) for t, n, _ in marr])
        # which array is what, in the model's semantics
        kinds = ["P"] + ((["I"] if si else []) + (["D"] if sd else []) + (["T"] if st else []) if mt else [])
        if len(kinds) != len(marr):
            return "model-protocol-error: %d arrays for flags %s" % (len(marr), flags)
        # the model's all-pairs table
        if len(rest) != 3 + 5 * nq * nseg or rest[0] != "cands":
            return "model-protocol-error: candidate table"
        tab = [parse_num(x) for x in rest[3:]]

        def row(q, j):
            o = 5 * (q * nseg + j)
            return tab[o:o + 3], tab[o + 3], tab[o + 4]

        tol_of = {"P": ptol, "D": ptol, "T": ttol}
        strict = True
        for (tg, n, iv), (_, _, mv), kd in zip(iarr, marr, kinds):
            if kd == "I":
                strict = strict and iv == mv
            else:
                strict = strict and all(near(a, b, tol_of[kd]) for a, b in zip(iv, mv))
        if strict:
            return None
        # abstract level: per query, the outputs must be those of one near-optimal row of the table
        got = dict(zip(kinds, [iv for _, _, iv in iarr]))
        for q in range(nq):
            rows = [row(q, j) for j in range(nseg)]
            dmin = min(float(d) for _, _, d in rows)
            ok_js = [j for j in range(nseg) if float(rows[j][2]) <= dmin + 1e-9 * scale]
            if "I" in got:
                j = got["I"][q]
                if j not in ok_js:
                    return ("query %d: impl reports segment %d at distance %r, minimal distance is %r (segments %s)"
                            % (q, j, float(rows[j][2]) if 0 <= j < nseg else None, dmin, ok_js))
                ok_js = [j]
            found = False
            for j in ok_js:
                p, t, d = rows[j]
                good = all(near(got["P"][3 * q + c], p[c], ptol) for c in range(3))
                if "D" in got:
                    good = good and near(got["D"][q], d, ptol)
                if "T" in got:
                    good = good and near(got["T"][q], t, ttol)
                if good:
                    found = True
                    break
            if not found:
                return ("query %d: impl outputs (point %s%s%s) are not those of a nearest segment of the model (candidates %s)"
                        % (q, got["P"][3 * q:3 * q + 3], " dist %r" % got["D"][q] if "D" in got else "",
                           " t %r" % got["T"][q] if "T" in got else "", ok_js))
        STATS["abstract_matches"] += 1
        return None

    return cmp


def make_nearest(spec):
    from polliwog import Polyline
    V = np.array(np.reshape(spec["v"], (-1, 3)), dtype=np.float64)
    Q = np.array(np.reshape(spec["q"], (-1, 3)), dtype=np.float64)
    closed = bool(spec["closed"])
    single = bool(spec["single"]) and len(Q) == 1
    pl = Polyline(shcopy(V), is_closed=closed)
    pairs = edge_pairs(len(V), closed)
    nseg = len(pairs)
    scale = max(gens.maxabs(V, Q), 1e-300)
    lens = [fsqrt(vdot(vsub(Fv(V[j]), Fv(V[i])), vsub(Fv(V[j]), Fv(V[i])))) for i, j in pairs]
    pos = [x for x in lens if x > 0]
    extent = max([fsqrt(vdot(vsub(Fv(q), Fv(v)), vsub(Fv(q), Fv(v)))) for q in Q for v in V] + [0.0])
    ttol = Fraction(1e-9) * Fraction(max(1.0, extent / min(pos) if pos else 1.0))
    trivial = nseg == 0 or len(Q) == 0
    kl = "nearest/%s/%s/%s" % (spec["stream"], "closed" if closed else "open", "single" if single else "stack")
    arg = (lambda: shcopy(Q[0])) if single else (lambda: shcopy(Q))
    cases = []
    for flags in ALL_FLAGS:
        kw = dict(zip(FLAG_NAMES, flags))
        line = Line("c07.nearest").b(*flags).b(closed).vecs(V).b(single).vecs(Q)
        cases.append(Case(spec, line, lambda kw=kw: canon_nearest(pl.nearest(arg(), **kw)), mode="both",
                          klass=kl + "/" + "".join("1" if f else "0" for f in flags), trivial=trivial, scale=scale,
                          compare=make_nearest_compare(flags, len(Q), nseg, scale, ttol)))
    cases[0].oracle = lambda _r: oracle_nearest(V, closed, Q, single, scale)
    return cases


# ---------------------------------------------------------------------------------------------------
# segment functions

def make_segfn(spec):
    from polliwog.segment import closest_point_of_line_segment, is_point_on_line_segment
    rng = random.Random(spec["seed"])
    k = spec["k"]
    if spec["stream"] == "lattice":
        d = rng.choice([1, 2])
        Qs = [gens.lat(rng, 4, rng.choice([1, 2, 4])) for _ in range(k)]
        As = [gens.lat(rng, 3, d) for _ in range(k)]
        Vs = [[0.0, 0.0, 0.0] if rng.random() < 0.2 else gens.lat(rng, 3, d) for _ in range(k)]
        eps = rng.choice([0.0, 0.5, 1.0, 1.5, 2.0, 0.25])
        for i in range(k):   # queries exactly on / at exact threshold distance
            if rng.random() < 0.25:
                t = rng.choice([0.0, 0.5, 1.0, 0.25])
                Qs[i] = [As[i][c] + t * Vs[i][c] for c in range(3)]
                if rng.random() < 0.5:
                    Qs[i][2] += eps
    else:
        s = gens.scale_of(rng, -6, 6)
        Qs = [gens.fvec(rng, s) for _ in range(k)]
        As = [gens.fvec(rng, s) for _ in range(k)]
        Vs = [[0.0, 0.0, 0.0] if rng.random() < 0.1 else gens.fvec(rng, s * 10.0 ** rng.uniform(-2, 0.5)) for _ in range(k)]
        eps = s * 10.0 ** rng.uniform(-3, 0.5)
        for i in range(k):
            if rng.random() < 0.3:
                t = rng.uniform(-0.3, 1.3)
                Qs[i] = [As[i][c] + t * Vs[i][c] for c in range(3)]
    Qa = np.array(np.reshape(Qs, (-1, 3)), dtype=np.float64)
    Aa = np.array(np.reshape(As, (-1, 3)), dtype=np.float64)
    Va = np.array(np.reshape(Vs, (-1, 3)), dtype=np.float64)
    if spec["bad"]:   # wrong number of rows in one argument -> ValueError from vg.shape.check
        which = rng.choice([0, 1])
        extra = np.zeros((1, 3))
        if which == 0:
            Aa = np.vstack([Aa, extra])
        else:
            Va = np.vstack([Va, extra])
    scale = max(gens.maxabs(Qa, Aa, Va), 1e-300)
    kl = "segfn/%s/%s" % (spec["stream"], "bad-rows" if spec["bad"] else ("k0" if k == 0 else "k"))
    trivial = k == 0
    # t tolerance as for nearest
    ext = max([fsqrt(vdot(vsub(Fv(q), Fv(a)), vsub(Fv(q), Fv(a)))) for q, a in zip(Qa, Aa)] + [0.0])
    vl = [fsqrt(vdot(Fv(v), Fv(v))) for v in Va]
    vl = [x for x in vl if x > 0]
    ttol = 1e-9 * max(1.0, ext / min(vl) if vl else 1.0)
    cases = []

    def closest_impl(rt):
        def g():
            r = closest_point_of_line_segment(shcopy(Qa), shcopy(Aa), shcopy(Va), ret_t_values=rt)
            if rt:
                if not (isinstance(r, tuple) and len(r) == 2):
                    return ["shape:not-a-pair"]
                return ["tuple"] + counted(np.asarray(r[0]).reshape(-1, 3)) + counted(np.asarray(r[1]).reshape(-1))
            return ["bare"] + counted(np.asarray(r).reshape(-1, 3))
        return g

    def closest_cmp(r, model_line, mode):
        # points at 1e-9*scale, t values at ttol: split the comparison
        toks = model_line.split(" ")
        if r[0] != "ok" or toks[0] != "ok" or r[1][0] != "tuple" or toks[1] != "tuple":
            return canon.compare(r, model_line, scale=scale)
        n = r[1][1]
        np_ = 2 + 3 * n
        m1 = canon.compare(("ok", r[1][:np_]), " ".join(toks[:np_ + 1]), scale=scale)
        if m1:
            return m1
        it, mt = r[1][np_:], toks[np_ + 1:]
        if len(it) != len(mt) or str(it[0]) != mt[0]:
            return "t arrays differ in length"
        for a, b in zip(it[1:], mt[1:]):
            if not near(a, parse_num(b), Fraction(ttol)):
                return "t value: impl %r model %s" % (a, float(parse_num(b)))
        return None

    for rt in (False, True):
        cases.append(Case(spec, Line("c07.closest").b(rt).vecs(Qa).vecs(Aa).vecs(Va), closest_impl(rt), mode="both",
                          klass="closest%d/%s" % (rt, kl), trivial=trivial, scale=scale, compare=closest_cmp))
    # is_point_on_line_segment: keep the rows whose answer is determined
    if not spec["bad"]:
        keep = []
        e2 = F(eps) * F(eps)
        for i in range(k):
            a = Fv(Aa[i])
            v = Fv(Va[i])
            d2, s_ = seg_min(Fv(Qa[i]), a, [x + y for x, y in zip(a, v)])
            margin = Fraction(1e-9) * max(e2, d2, Fraction(scale) ** 2 * Fraction(1e-12))
            if abs(d2 - e2) > margin:
                keep.append(i)
            elif spec["stream"] == "lattice":
                den = vdot(v, v)
                exact = den == 0 or s_ in (0, 1) or (den.numerator & (den.numerator - 1)) == 0
                if exact:
                    keep.append(i)
        Qk, Ak, Vk = Qa[keep].reshape(-1, 3), Aa[keep].reshape(-1, 3), Va[keep].reshape(-1, 3)
    else:
        Qk, Ak, Vk = Qa, Aa, Va
    cases.append(Case(spec, Line("c07.ison").vecs(Qk).vecs(Ak).vecs(Vk).f(eps),
                      lambda: (lambda r: [int(len(r))] + [bool(x) for x in r])(
                          is_point_on_line_segment(shcopy(Qk), shcopy(Ak), shcopy(Vk), float(eps))),
                      mode="both", klass="ison/" + kl, trivial=len(Qk) == 0, scale=scale))
    if not spec["bad"]:
        cases[0].oracle = lambda _r: oracle_segfn(Qa, Aa, Va, Qk, Ak, Vk, float(eps), scale, ttol)
    return cases


# ---------------------------------------------------------------------------------------------------
# sub-path selection

def determined(V, closed, q, scale, allow_vertex_tie):
    """(ok, index, s, point) of the exact nearest segment of q; ok=False when the arg-min is not determined:
    another segment within 1e-6*scale whose closest point differs or is not an exact vertex"""
    tab, pairs = exact_table(V, closed, [q])
    rows = tab[0]
    if not rows:
        return False, None, None, None
    Vf = [Fv(p) for p in V]

    def pt(j):
        i0, i1 = pairs[j]
        s = rows[j][1]
        return [a + s * (b - a) for a, b in zip(Vf[i0], Vf[i1])]

    d = [fsqrt(r[0]) for r in rows]
    jbest = min(range(len(rows)), key=lambda j: (rows[j][0], j))
    pbest = pt(jbest)
    for j in range(len(rows)):
        if j == jbest:
            continue
        if d[j] <= d[jbest] + 1e-6 * scale:
            if not allow_vertex_tie:
                return False, None, None, None
            if rows[j][0] != rows[jbest][0] or pt(j) != pbest or pbest not in Vf:
                return False, None, None, None
            if rows[j][1] not in (0, 1) or rows[jbest][1] not in (0, 1):
                return False, None, None, None
    return True, jbest, rows[jbest][1], pbest


def expected_subpath(V, closed, ia, sa, pa, ib, sb, pb):
    """independent construction: [Na] + vertices strictly between + [Nb] (wrapping on closed polylines);
    None when an open polyline would have to run backwards"""
    n = len(V)
    Vf = [Fv(p) for p in V]
    if (ia, sa) <= (ib, sb):
        mid = [Vf[k] for k in range(ia + 1, ib + 1)]
    elif closed:
        mid = [Vf[k % n] for k in range(ia + 1, ib + 1 + n)]
    else:
        return None
    return [pa] + mid + [pb]


def config_label(n, closed, ia, sa, ib, sb):
    """which case of sliced_at_points this is, from the exact landing positions (segment, parameter) of a and b"""
    if (ia, sa) == (ib, sb):
        base = "same-point"
    elif ia == ib:
        base = "same-fwd" if sa < sb else "same-back"
    else:
        base = "fwd" if ia < ib else "back"
    if closed and (ia == n - 1 or ib == n - 1):
        base += "+closing-" + ("a" if ia == n - 1 else "") + ("b" if ib == n - 1 else "")
    return base


def path_length(P):
    return sum(fsqrt(vdot(vsub(b, a), vsub(b, a))) for a, b in zip(P[:-1], P[1:]))


def make_subpath(spec):
    from polliwog import Polyline
    V = np.array(np.reshape(spec["v"], (-1, 3)), dtype=np.float64)
    a = np.array(spec["a"], dtype=np.float64)
    b = np.array(spec["b"], dtype=np.float64)
    closed = bool(spec["closed"])
    scale = max(gens.maxabs(V, a, b), 1e-300)
    lattice = spec["kind"] == "lattice"
    oka, ia, sa, pa = determined(V, closed, a, scale, lattice)
    okb, ib, sb, pb = determined(V, closed, b, scale, lattice)
    if not (oka and okb):
        return None
    Vf = [Fv(p) for p in V]

    def far(p, others, lim):
        return all(max(abs(x - y) for x, y in zip(p, o)) > lim for o in others)

    simple_ok = far(pa, Vf, Fraction(1e-3)) and far(pb, Vf, Fraction(1e-3)) and far(pa, [pb], Fraction(1e-3))
    if not lattice and not simple_ok:
        return None
    if lattice:
        # exact coincidences are fine (vertex hit, a == b); near-coincidences do not occur on the lattice, but the
        # threshold 1e-8 must not be approached either
        for p, others in ((pa, Vf), (pb, Vf + [pa])):
            for o in others:
                m = max(abs(x - y) for x, y in zip(p, o))
                if m != 0 and m < Fraction(1e-6):
                    return None
    pl = Polyline(shcopy(V), is_closed=closed)
    kl = "subpath/%s/%s/%s" % (spec["kind"], "closed" if closed else "open", config_label(len(V), closed, ia, sa, ib, sb))

    def canon_pl(p):
        return [bool(p.is_closed)] + counted(p.v)

    def aligned_cmp(r, model_line, mode):
        m = canon.compare(r, model_line, scale=scale)
        if m is None or not closed or r[0] != "ok":
            return m
        # near-tie of the two ways round: either orientation
        try:
            l12 = float(pl.sliced_at_points(shcopy(a), shcopy(b)).total_length)
            l21 = float(pl.sliced_at_points(shcopy(b), shcopy(a)).total_length)
        except Exception:
            return m
        if abs(l12 - l21) > 1e-9 * scale * max(1, len(V)):
            return m
        n = r[1][1]
        rev = [r[1][0], n]
        rows = [r[1][2 + 3 * i:5 + 3 * i] for i in range(n)]
        for row in reversed(rows):
            rev.extend(row)
        m2 = canon.compare(("ok", rev), model_line, scale=scale)
        if m2 is None:
            STATS["abstract_matches"] += 1
        return m2 and m

    cases = [
        Case(spec, Line("c07.slicedpts").b(closed).vecs(V).vec(a).vec(b),
             lambda: canon_pl(pl.sliced_at_points(shcopy(a), shcopy(b))), mode="both", klass="sliced/" + kl, scale=scale),
        Case(spec, Line("c07.aligned").b(closed).vecs(V).vec(a).vec(b),
             lambda: canon_pl(pl.aligned_along_subsegment(shcopy(a), shcopy(b))), mode="both", klass="aligned/" + kl,
             scale=scale, compare=aligned_cmp),
    ]
    if simple_ok:
        cases[0].oracle = lambda _r: oracle_subpath(V, closed, a, b, (ia, sa, pa), (ib, sb, pb), scale)
    return cases


def make(spec):
    op = spec["op"]
    if op == "nearest":
        return make_nearest(spec)
    if op == "segfn":
        return make_segfn(spec)
    if op == "subpath":
        return make_subpath(spec)
    raise ValueError(op)


# ---------------------------------------------------------------------------------------------------
# property oracle

def dedupe(out):
    seen = {}
    for k_, m in out:
        seen.setdefault(k_, m)
    return list(seen.items())


def combo_key(flags):
    names = [n for n, f in zip(FLAG_NAMES, flags) if f]
    if not names:
        return "none"
    if len(names) == 1:
        return names[0] + "-only"
    return "+".join(names)


def oracle_nearest(V, closed, Q, single, scale):
    from polliwog import Polyline
    out = []
    pairs = edge_pairs(len(V), closed)
    if not pairs or len(Q) == 0:
        return out
    pl = Polyline(shcopy(V), is_closed=closed)
    tol = Fraction(1e-9) * Fraction(scale)
    Vf = [Fv(p) for p in V]
    Qf = [Fv(q) for q in Q]
    tab, _ = exact_table(V, closed, Q)
    dmin2 = [min(r[0] for r in rows) for rows in tab]
    nq = len(Q)

    def d2_to_seg(p, j):
        return seg_min(p, Vf[pairs[j][0]], Vf[pairs[j][1]])[0]

    for flags in ALL_FLAGS:
        si, sd, st = flags
        kw = dict(zip(FLAG_NAMES, flags))
        ck = combo_key(flags)
        desc = "nearest(%s, %s) on %s polyline %s" % ((Q[0] if single else Q).tolist(), kw, "closed" if closed else "open", V.tolist())
        try:
            res = pl.nearest(shcopy(Q[0]) if single else shcopy(Q), **kw)
        except Exception as e:  # noqa: BLE001
            out.append(("nearest/raises", "%s raised %s: %s" % (desc, type(e).__name__, e)))
            continue
        want = 1 + sum(flags)
        if any(flags):
            structure_ok = isinstance(res, tuple) and len(res) == want
        else:
            structure_ok = isinstance(res, np.ndarray)
        if not structure_ok:
            got = ("a tuple of %d" % len(res)) if isinstance(res, tuple) else "a bare array"
            out.append(("nearest/outputs/" + ck, "%s returned %s; requested outputs: points%s" % (
                desc, got, "".join(", " + n for n, f in zip(FLAG_NAMES, flags) if f))))
        elems = list(res) if isinstance(res, tuple) else [res]
        try:
            pts = np.asarray(elems[0], dtype=np.float64)
            if pts.shape != ((3,) if single else (nq, 3)):
                out.append(("nearest/outputs/shape", "%s: points have shape %s" % (desc, pts.shape)))
                continue
            pts = pts.reshape(-1, 3)
            idx = dist = tv = None
            if structure_ok:
                rest = elems[1:]
                if si:
                    idx = np.asarray(rest.pop(0))
                if sd:
                    dist = np.asarray(rest.pop(0))
                if st:
                    tv = np.asarray(rest.pop(0))
                bad_shape = False
                for nm, arr, kind in (("segment indices", idx, "iu"), ("distances", dist, "f"), ("t values", tv, "f")):
                    if arr is None:
                        continue
                    if arr.shape != (() if single else (nq,)) or arr.dtype.kind not in kind:
                        out.append(("nearest/outputs/shape", "%s: %s have shape %s dtype %s" % (desc, nm, arr.shape, arr.dtype)))
                        bad_shape = True
                if bad_shape:
                    continue
                idx = None if idx is None else idx.reshape(-1)
                dist = None if dist is None else dist.reshape(-1)
                tv = None if tv is None else tv.reshape(-1)
        except Exception as e:  # noqa: BLE001
            out.append(("nearest/outputs/malformed", "%s: cannot interpret the result (%s)" % (desc, e)))
            continue
        for r in range(nq):
            q = Qf[r]
            if not np.all(np.isfinite(pts[r])):
                out.append(("nearest/on-polyline", "%s: point %d is not finite" % (desc, r)))
                continue
            p = Fv(pts[r])
            d2 = vdot(vsub(q, p), vsub(q, p))
            if min(d2_to_seg(p, j) for j in range(len(pairs))) > tol * tol:
                out.append(("nearest/on-polyline", "%s: returned point %s is not on the polyline" % (desc, pts[r].tolist())))
            lim = fsqrt_hi(dmin2[r]) + tol
            if d2 > lim * lim:
                out.append(("nearest/optimal", "%s: returned point %s is at distance %r, the polyline has a point at distance %r"
                            % (desc, pts[r].tolist(), fsqrt(d2), fsqrt(dmin2[r]))))
            js = list(range(len(pairs)))
            if idx is not None:
                j = int(idx[r])
                if not 0 <= j < len(pairs):
                    out.append(("nearest/index-range", "%s: segment index %d out of range" % (desc, j)))
                    continue
                if d2_to_seg(p, j) > tol * tol:
                    out.append(("nearest/index-consistent", "%s: returned point %s is not on the reported segment %d"
                                % (desc, pts[r].tolist(), j)))
                js = [j]
            if tv is not None:
                t = F(tv[r]) if math.isfinite(float(tv[r])) else None
                if t is None or t < 0 or t > 1:
                    out.append(("nearest/t-range", "%s: t value %r outside [0,1]" % (desc, float(tv[r]))))
                else:
                    def matches(j):
                        a0, b0 = Vf[pairs[j][0]], Vf[pairs[j][1]]
                        return all(abs(a0[c] + t * (b0[c] - a0[c]) - p[c]) <= tol for c in range(3))
                    if not any(matches(j) for j in js):
                        out.append(("nearest/point-is-start-plus-t-vector",
                                    "%s: point %s is not start + t*vector (t=%r%s)" % (
                                        desc, pts[r].tolist(), float(t), ", segment %d" % js[0] if idx is not None else "")))
            if dist is not None:
                dd = float(dist[r])
                if not math.isfinite(dd) or abs(Fraction(dd) - Fraction(fsqrt(d2))) > tol:
                    out.append(("nearest/distance", "%s: distance %r but |query - point| = %r" % (desc, dd, fsqrt(d2))))
    # stacked = row by row
    if not single:
        try:
            full = pl.nearest(shcopy(Q), ret_segment_indices=True, ret_distances=True, ret_t_values=True)
            for r in range(nq):
                one = pl.nearest(shcopy(Q[r]), ret_segment_indices=True, ret_distances=True, ret_t_values=True)
                dq = abs(float(one[2]) - float(full[2][r]))
                rows = tab[r]
                srt = sorted(fsqrt(x[0]) for x in rows)
                unique = len(srt) == 1 or srt[1] - srt[0] > 1e-6 * scale
                pd = float(np.max(np.abs(np.asarray(one[0]) - np.asarray(full[0][r]))))
                if dq > 1e-9 * scale or (unique and (pd > 1e-9 * scale or int(one[1]) != int(full[1][r]))):
                    out.append(("nearest/stack-is-map", "row %d of the stacked result differs from the single query %s on %s"
                                % (r, Q[r].tolist(), V.tolist())))
        except Exception as e:  # noqa: BLE001
            out.append(("nearest/stack-is-map", "stacked/single comparison failed: %s" % (e,)))
    return dedupe(out)


def oracle_segfn(Qa, Aa, Va, Qk, Ak, Vk, eps, scale, ttol):
    from polliwog.segment import closest_point_of_line_segment, is_point_on_line_segment
    out = []
    tol = Fraction(1e-9) * Fraction(scale)
    k = len(Qa)
    if k:
        try:
            res, tv = closest_point_of_line_segment(shcopy(Qa), shcopy(Aa), shcopy(Va), ret_t_values=True)
            res0 = closest_point_of_line_segment(shcopy(Qa), shcopy(Aa), shcopy(Va))
        except Exception as e:  # noqa: BLE001
            return [("closest/raises", "closest_point_of_line_segment raised %s: %s" % (type(e).__name__, e))]
        res = np.asarray(res)
        tv = np.asarray(tv)
        if res.shape != (k, 3) or tv.shape != (k,) or np.asarray(res0).shape != (k, 3):
            return [("closest/outputs", "closest_point_of_line_segment returned shapes %s %s" % (res.shape, tv.shape))]
        if not np.array_equal(res, np.asarray(res0), equal_nan=True):
            out.append(("closest/outputs", "result differs with and without ret_t_values"))
        for i in range(k):
            q, a, v = Fv(Qa[i]), Fv(Aa[i]), Fv(Va[i])
            b = [x + y for x, y in zip(a, v)]
            desc = "closest_point_of_line_segment(%s, %s, %s)" % (Qa[i].tolist(), Aa[i].tolist(), Va[i].tolist())
            if not (np.all(np.isfinite(res[i])) and math.isfinite(float(tv[i]))):
                out.append(("closest/finite", "%s returned %s t=%r" % (desc, res[i].tolist(), float(tv[i]))))
                continue
            p = Fv(res[i])
            t = F(tv[i])
            if t < 0 or t > 1:
                out.append(("closest/t-range", "%s: t=%r" % (desc, float(t))))
            if any(abs(a[c] + t * v[c] - p[c]) > tol for c in range(3)):
                out.append(("closest/point-is-start-plus-t-vector", "%s: %s is not start + %r*vector" % (desc, res[i].tolist(), float(t))))
            if not any(v) and any(abs(p[c] - a[c]) > 0 for c in range(3)):
                out.append(("closest/zero-length", "%s: zero-length segment but result %s is not its start point" % (desc, res[i].tolist())))
            dmin2, s_ = seg_min(q, a, b)
            d2 = vdot(vsub(q, p), vsub(q, p))
            lim = fsqrt_hi(dmin2) + tol
            if d2 > lim * lim:
                out.append(("closest/optimal", "%s: result at distance %r, the segment has a point (s=%r) at distance %r"
                            % (desc, fsqrt(d2), float(s_), fsqrt(dmin2))))
            if seg_min(p, a, b)[0] > tol * tol:
                out.append(("closest/on-segment", "%s: result %s is not on the segment" % (desc, res[i].tolist())))
    if len(Qk):
        try:
            on = np.asarray(is_point_on_line_segment(shcopy(Qk), shcopy(Ak), shcopy(Vk), eps))
        except Exception as e:  # noqa: BLE001
            return out + [("ison/raises", "is_point_on_line_segment raised %s: %s" % (type(e).__name__, e))]
        if on.shape != (len(Qk),) or on.dtype != np.bool_:
            return out + [("ison/outputs", "is_point_on_line_segment returned shape %s dtype %s" % (on.shape, on.dtype))]
        e2 = F(eps) * F(eps)
        for i in range(len(Qk)):
            a = Fv(Ak[i])
            b = [x + y for x, y in zip(a, Fv(Vk[i]))]
            d2 = seg_min(Fv(Qk[i]), a, b)[0]
            if bool(on[i]) != (d2 <= e2):
                out.append(("ison/def", "is_point_on_line_segment(%s, %s, %s, %r) = %s but the squared distance is %r (epsilon^2 = %r)"
                            % (Qk[i].tolist(), Ak[i].tolist(), Vk[i].tolist(), eps, bool(on[i]), float(d2), float(e2))))
    return dedupe(out)


def oracle_subpath(V, closed, a, b, ea, eb, scale):
    from polliwog import Polyline
    out = []
    pl = Polyline(shcopy(V), is_closed=closed)
    tol = Fraction(1e-9) * Fraction(scale)
    (ia, sa, pa), (ib, sb, pb) = ea, eb
    desc = "%s polyline %s, a=%s, b=%s" % ("closed" if closed else "open", V.tolist(), a.tolist(), b.tolist())

    def same(P, E):
        return len(P) == len(E) and all(abs(F(x) - y) <= tol for p, e in zip(P, E) for x, y in zip(p, e))

    exp = expected_subpath(V, closed, ia, sa, pa, ib, sb, pb)
    if exp is not None:
        try:
            r = pl.sliced_at_points(shcopy(a), shcopy(b))
            if r.is_closed:
                out.append(("sliced/open-result", "sliced_at_points returned a closed polyline (%s)" % desc))
            if not same(r.v.tolist(), exp):
                out.append(("sliced/subpath", "sliced_at_points on %s returned %s, expected the sub-path %s"
                            % (desc, r.v.tolist(), [[float(x) for x in p] for p in exp])))
        except Exception as e:  # noqa: BLE001
            out.append(("sliced/raises", "sliced_at_points on %s raised %s: %s" % (desc, type(e).__name__, e)))
    # aligned_along_subsegment
    try:
        al = pl.aligned_along_subsegment(shcopy(a), shcopy(b))
    except Exception as e:  # noqa: BLE001
        out.append(("aligned/raises", "aligned_along_subsegment on %s raised %s: %s" % (desc, type(e).__name__, e)))
        return dedupe(out)
    W = al.v
    is_same = W.shape == V.shape and np.array_equal(W, V)
    is_flip = W.shape == V.shape and np.array_equal(W, V[::-1])
    if bool(al.is_closed) != closed or not (is_same or is_flip):
        out.append(("aligned/same-polyline", "aligned_along_subsegment on %s returned neither the polyline nor its flip: %s"
                    % (desc, W.tolist())))
        return dedupe(out)
    oka, ja, ta, qa = determined(W, closed, a, scale, False)
    okb, jb, tb, qb = determined(W, closed, b, scale, False)
    if oka and okb:
        if not closed:
            if (ja, ta) > (jb, tb):
                out.append(("aligned/forward", "aligned_along_subsegment on %s: in the result the point nearest a (segment %d, t=%r) "
                            "comes after the point nearest b (segment %d, t=%r)" % (desc, ja, float(ta), jb, float(tb))))
            else:
                # ... and there the sub-path runs forward: sliced_at_points on the returned polyline yields it
                expw = expected_subpath(W, False, ja, ta, qa, jb, tb, qb)
                try:
                    rw = al.sliced_at_points(shcopy(a), shcopy(b))
                    if rw.is_closed or not same(rw.v.tolist(), expw):
                        out.append(("aligned/forward-subpath", "on the result of aligned_along_subsegment on %s sliced_at_points "
                                    "returned %s, expected the forward sub-path %s"
                                    % (desc, rw.v.tolist(), [[float(x) for x in p] for p in expw])))
                except Exception as e:  # noqa: BLE001
                    out.append(("aligned/forward-subpath", "on the result of aligned_along_subsegment on %s sliced_at_points "
                                "raised %s: %s" % (desc, type(e).__name__, e)))
        else:
            fwd = expected_subpath(W, True, ja, ta, qa, jb, tb, qb)
            bwd = expected_subpath(W, True, jb, tb, qb, ja, ta, qa)
            lf, lb = path_length(fwd), path_length(bwd)
            if lf > lb + 1e-9 * scale * len(W):
                out.append(("aligned/shorter", "aligned_along_subsegment on %s: in the result the way from a to b has length %r, "
                            "the other way round %r" % (desc, lf, lb)))
    return dedupe(out)
