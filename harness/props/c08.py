"""C08 — arc-length queries and refinement preserve the polyline's path.

Correspondence: Polyline.segment_lengths / total_length / path_centroid / point_along_path /
subdivided_by_length / with_segments_bisected and polliwog.segment.path_centroid / subdivide_segment /
subdivide_segments against the Lean model PW.Model.ArcLength, executed at exact rationals (square roots exact on
perfect squares, 2^-128-relative otherwise) and at Float.
Oracle: the clauses of C08 evaluated on the implementation's own outputs by an independent walk along the
path in rational arithmetic (square roots to 1e-40 relative, exact on perfect squares).
"""
import math
import random
from fractions import Fraction

import numpy as np

from pwlib.share import shcopy

from pwlib import gens
from pwlib.canon import counted, counted_ints, flat
from pwlib.engine import Case
from pwlib.proto import Line

ID = "C08"
TARGETS = ["PW.Props.C08"]
RULE = ("polyline groups from two streams: lattice (integer/dyadic vertices, every edge axis-aligned or a Pythagorean "
        "vector so all lengths are rational and model/code arithmetic is exact; closed loops built from steps and their "
        "negations or Pythagorean triangles; zero-length edges inserted; fixed unit shapes) and float (magnitudes "
        "1e-3..1e3, random directions, exact duplicate vertices); each group runs lengths/total/centroid, point_along_path "
        "on stacked fractions (always containing 0 and 1, breakpoints cum_i/L, breakpoints +-1e-9) and on single "
        "fractions (float, int 0/1), subdivided_by_length for max_length at len_i/k exactly (lattice) and len_i/k*(1+-d) "
        "(both sides of every threshold, margin 1e-9 or the case is dropped as undetermined) with masks None/random/"
        "all-false/wrong-length and ret_indices on/off, with_segments_bisected for random index multisets (unsorted, "
        "repeated, negative, out of range, empty, not one-dimensional) with ret_new_indices on/off; separate streams for subdivide_segment "
        "(endpoint on/off, non-int and <2 num_points, endpoints of unequal / wrong shape), subdivide_segments (repeated vertices, num 0..7, non-2-d input, no points), "
        "segment.path_centroid on arbitrary segment soups; malformed fractions. non-trivial = polyline with >= 1 "
        "segment of positive total length; distinct = distinct spec")
TRUSTED = ["vg.euclidean_distance / vg.normalize / np.average / np.cumsum / np.argmax / np.linspace / np.insert / np.vsplit "
           "modelled by what they compute (sqrt of sum of squares, v/|v|, weighted mean with ZeroDivisionError on zero weight, "
           "prefix sums, first True or 0, arange*step with last=stop, stable insertion before index)",
           "IEEE rounding not modelled: numeric outputs compared with rtol 1e-9*scale, discrete outputs (counts, indices, "
           "closedness, exception class) exactly"]
ASSUMPTIONS = ["polylines with at least one vertex (the empty polyline is outside the property's quantifier)",
               "max_length > 0; cases where some len/max_length is within 1e-9 (relative) of an integer are dropped in the "
               "float stream (ceil undetermined under rounding)",
               "fractions are finite numbers (no NaN)"]
EXHAUSTIVE = {"quick": False, "thorough": False}


PYTH = [(1, 0, 0), (1, 0, 0), (2, 0, 0), (3, 0, 0), (3, 4, 0), (1, 2, 2), (2, 3, 6), (4, 4, 7), (1, 4, 8),
        (6, 8, 0), (5, 12, 0), (2, 6, 9), (8, 15, 0)]
FIXED = [
    ([[0, 0, 0], [1, 0, 0], [1, 1, 0], [0, 1, 0]], True),          # unit square, L = 4
    ([[0, 0, 0], [1, 0, 0], [1, 1, 0], [0, 1, 0]], False),
    ([[0, 0, 0], [3, 0, 0], [3, 4, 0]], True),                     # 3-4-5 triangle, L = 12
    ([[0, 0, 0], [2, 0, 0], [2, 0, 0], [2, 2, 0]], False),         # zero-length edge inside, L = 4
    ([[0, 0, 0], [0, 0, 0], [4, 0, 0]], False),                    # zero-length first edge
    ([[0, 0, 0], [4, 0, 0], [4, 0, 0]], False),                    # zero-length last edge
    ([[0, 0, 0], [4, 0, 0], [4, 4, 0], [0, 4, 0], [0, 0, 0]], True),   # closed, zero-length closing edge
    ([[0, 0, 0], [0, 0, 0], [0, 4, 0], [0, 0, 0]], True),          # closed with zero-length first and last edges
    ([[1, 1, 1], [1, 1, 9]], False),
    ([[1, 1, 1], [1, 1, 9]], True),
]


# ---------------------------------------------------------------------------------------------------
# generators

def lat_step(rng):
    b = list(rng.choice(PYTH))
    rng.shuffle(b)
    return [x * rng.choice([-1, 1]) for x in b]


def lat_chain(rng):
    """-> (vertices, closed) with every edge (incl. the closing one) of rational length"""
    r = rng.random()
    if r < 0.2:
        v, c = rng.choice(FIXED)
        v = [list(map(float, p)) for p in v]
    else:
        closed = rng.random() < 0.5
        k = rng.choice([1, 1, 2, 2, 3, 4, 5])
        steps = [lat_step(rng) for _ in range(k)]
        if closed:
            if rng.random() < 0.3:
                a, b = rng.choice([(3, 4), (5, 12), (6, 8), (8, 15)])
                ax = rng.sample([0, 1, 2], 2)
                s1 = [0, 0, 0]; s2 = [0, 0, 0]
                s1[ax[0]] = a * rng.choice([-1, 1]); s2[ax[1]] = b * rng.choice([-1, 1])
                steps = [s1, s2, [-(x + y) for x, y in zip(s1, s2)]]
            else:
                neg = [[-x for x in s] for s in steps]
                rng.shuffle(neg)
                steps = steps + neg
        # zero-length edges
        out = []
        for s in steps:
            if rng.random() < 0.2:
                out.append([0, 0, 0])
            out.append(s)
        if rng.random() < 0.15:
            out.append([0, 0, 0])
        steps = out
        p = [rng.randint(-3, 3) for _ in range(3)]
        v = [list(p)]
        # a closed chain's steps sum to zero: its last step is the closing edge, not a vertex
        for s in (steps[:-1] if closed else steps):
            p = [x + y for x, y in zip(p, s)]
            v.append(list(p))
        c = closed
        sc = rng.choice([1, 1, 0.5, 0.25, 2, 4])
        v = [[float(x) * sc for x in q] for q in v]
    return v, c


def flt_chain(rng):
    closed = rng.random() < 0.5
    n = rng.choice([1, 2, 2, 3, 4, 5, 6, 8, 11])
    s = 10.0 ** rng.uniform(-3, 3)
    off = [rng.uniform(-1, 1) * s * rng.choice([0, 1, 10]) for _ in range(3)]
    v = []
    for _ in range(n):
        if v and rng.random() < 0.15:
            v.append(list(v[-1]))          # exact duplicate -> zero-length edge
        else:
            v.append([o + rng.uniform(-1, 1) * s for o in off])
    if closed and len(v) > 1 and rng.random() < 0.1:
        v.append(list(v[0]))               # zero-length closing edge
    return v, closed


def isqrt_frac(q, digits=40):
    """sqrt of a non-negative Fraction: exact if a perfect square, else to `digits` decimal digits"""
    p, d = q.numerator, q.denominator
    m = p * d
    s = math.isqrt(m)
    if s * s == m:
        return Fraction(s, d)
    k = 10 ** digits
    return Fraction(math.isqrt(m * k * k), d * k)


def F(x):
    return Fraction(float(x))


def fv(p):
    return [F(x) for x in p]


def seg_pairs(v, closed):
    n = len(v)
    pr = [(v[i], v[i + 1]) for i in range(n - 1)]
    if closed and n > 0:
        pr.append((v[n - 1], v[0]))
    return pr


def elen(a, b):
    return isqrt_frac(sum((F(y) - F(x)) ** 2 for x, y in zip(a, b)))


def gen(rng, tier):
    n = 240 if tier == "quick" else 3000
    for i in range(n):
        stream = "lattice" if i % 2 == 0 else "float"
        v, closed = lat_chain(rng) if stream == "lattice" else flt_chain(rng)
        yield {"op": "polyline-group", "stream": stream, "v": v, "closed": closed, "sub": rng.randrange(1 << 30)}
    m = 100 if tier == "quick" else 1500
    for i in range(m):
        yield {"op": "subdivide-segment", "stream": "lattice" if i % 2 == 0 else "float", "sub": rng.randrange(1 << 30)}
    for i in range(m):
        yield {"op": "subdivide-segments", "stream": "lattice" if i % 2 == 0 else "float", "sub": rng.randrange(1 << 30)}
    for i in range(m // 2):
        yield {"op": "segment-centroid", "stream": "lattice" if i % 2 == 0 else "float", "sub": rng.randrange(1 << 30)}


# ---------------------------------------------------------------------------------------------------
# independent reference (exact rationals)

class Ref:
    def __init__(self, v, closed):
        self.v = [fv(p) for p in v]
        self.closed = closed
        self.segs = seg_pairs(self.v, closed)
        self.lens = [isqrt_frac(sum((y - x) ** 2 for x, y in zip(a, b))) for a, b in self.segs]
        self.total = sum(self.lens, Fraction(0))

    def at(self, s):
        """point reached after travelling s from the first vertex (s <= total)"""
        for (a, b), l in zip(self.segs, self.lens):
            if s < l:
                return [x + (s / l) * (y - x) for x, y in zip(a, b)]
            s -= l
        return list(self.segs[-1][1])

    def centroid(self):
        acc = [Fraction(0)] * 3
        for (a, b), l in zip(self.segs, self.lens):
            for j in range(3):
                acc[j] += l * (a[j] + b[j]) / 2
        return [x / self.total for x in acc]


def vclose(p, q, tol):
    return all((not math.isnan(float(x))) and abs(F(x) - (y if isinstance(y, Fraction) else F(y))) <= tol for x, y in zip(p, q))


def guarded(prefix):
    """an exception of the real code on an input inside the property's quantifier is a violation, not a harness crash"""
    def deco(fn):
        def g(*a, **k):
            try:
                return fn(*a, **k)
            except Exception as e:  # noqa: BLE001
                return [(prefix + "/unexpected-exception", "%s raised %s: %s" % (prefix, type(e).__name__, str(e)[:200]))]
        g.__name__ = fn.__name__
        return g
    return deco


def dedupe(out):
    seen = {}
    for k_, m in out:
        seen.setdefault(k_, m)
    return list(seen.items())


# ---------------------------------------------------------------------------------------------------
# cases

def polyline(v, closed):
    from polliwog import Polyline
    return Polyline(np.array(np.reshape(v, (-1, 3)), dtype=np.float64), is_closed=closed)


def pl_line(op, v, closed, *flags):
    ln = Line(op)
    for f in flags:
        ln.b(f)
    return ln.b(closed).vecs(np.array(np.reshape(v, (-1, 3)), dtype=np.float64))


def canon_polyline(q):
    a = np.asarray(q.v)
    if a.ndim != 2 or a.shape[1] != 3:
        raise RuntimeError("bad polyline shape %s" % (a.shape,))
    return [bool(q.is_closed)] + counted(a)


def make(spec):
    op = spec["op"]
    if op == "polyline-group":
        return make_group(spec)
    if op == "subdivide-segment":
        return make_subseg(spec)
    if op == "subdivide-segments":
        return make_subsegs(spec)
    if op == "segment-centroid":
        return make_segcentroid(spec)
    raise ValueError(op)


def frac_sets(rng, ref, stream):
    """stacked fraction arrays (always containing exactly 0 and 1) and single fractions"""
    L = ref.total
    fs = [0.0, 1.0]
    cum = Fraction(0)
    for l in ref.lens:
        cum += l
        if L > 0:
            f = float(cum / L)
            for g in (f, f - 1e-9, f + 1e-9, f * (1 - 2 ** -52)):
                if 0.0 <= g <= 1.0:
                    fs.append(g)
    fs += [rng.random() for _ in range(4)]
    fs += [rng.choice([0.25, 0.5, 0.75, 0.125, 0.999999, 1e-9, 1 - 1e-12])]
    rng.shuffle(fs)
    stacks = [fs, [0.0], [1.0], [rng.random()], []]
    singles = [("float", 0.0), ("float", 1.0), ("int", 0), ("int", 1), ("float", rng.random()), ("npfloat", rng.random())]
    return stacks, singles


def make_group(spec):
    rng = random.Random(spec["sub"])
    v = spec["v"]
    closed = bool(spec["closed"])
    stream = spec["stream"]
    V = np.array(np.reshape(v, (-1, 3)), dtype=np.float64)
    pl = polyline(v, closed)
    ref = Ref(v, closed)
    nE = len(ref.segs)
    scale = max(gens.maxabs(V), float(ref.total), 1e-300)
    trivial = nE == 0 or ref.total == 0
    kl = "%s/%s/%s" % (stream, "closed" if closed else "open",
                       "degenerate" if trivial else ("zero-edges" if any(l == 0 for l in ref.lens) else "plain"))
    cases = []

    def add(op, line, impl, oracle=None, mode="both", sub=""):
        cases.append(Case(spec, line, impl, mode=mode, klass=op + "/" + kl + sub, trivial=trivial, scale=scale, oracle=oracle))

    # --- lengths, total, centroid
    add("pl.lengths", pl_line("pl.lengths", v, closed), lambda: counted(polyline(v, closed).segment_lengths),
        oracle=lambda _r: oracle_measures(v, closed, ref, scale))
    add("pl.total", pl_line("pl.total", v, closed), lambda: [float(polyline(v, closed).total_length)])
    add("pl.centroid", pl_line("pl.centroid", v, closed), lambda: flat(np.asarray(polyline(v, closed).path_centroid).reshape(3)))

    # --- point_along_path
    if nE > 0:
        stacks, singles = frac_sets(rng, ref, stream)
        for fs in stacks:
            fa = np.array(fs, dtype=np.float64)

            def impl_stack(fa=fa):
                r = np.asarray(polyline(v, closed).point_along_path(shcopy(fa)))
                if r.shape != (len(fa), 3):
                    raise RuntimeError("bad shape %s" % (r.shape,))
                return counted(r)
            add("pl.along", pl_line("pl.along", v, closed, False).vecs(fa) if False else
                Line("pl.along").b(False).b(closed).vecs(V).i(len(fa)).f(*fa), impl_stack,
                oracle=(lambda _r, fa=fa: oracle_along(v, closed, ref, fa, scale)) if not trivial else None,
                sub="/stack%d" % min(len(fa), 3))
        for kind, f in singles:
            arg = {"float": float, "int": int, "npfloat": np.float64}[kind](f)

            def impl_single(arg=arg):
                r = np.asarray(polyline(v, closed).point_along_path(arg))
                if r.shape != (3,):
                    raise RuntimeError("bad shape %s" % (r.shape,))
                return ["single"] + flat(r)
            add("pl.along", Line("pl.along").b(True).b(closed).vecs(V).i(1).f(float(f)), impl_single,
                oracle=(lambda _r, f=f: oracle_along(v, closed, ref, np.array([float(f)]), scale, single=True)) if not trivial else None,
                sub="/single-" + kind)
        # malformed fractions
        for bad in ([-0.25], [1.5], [0.5, 1.0000000000000002], [-1e-300, 0.5]):
            fa = np.array(bad, dtype=np.float64)
            add("pl.along", Line("pl.along").b(False).b(closed).vecs(V).i(len(fa)).f(*fa),
                lambda fa=fa: counted(polyline(v, closed).point_along_path(shcopy(fa))), sub="/out-of-range")
    else:
        fa = np.array([0.5])
        add("pl.along", Line("pl.along").b(False).b(closed).vecs(V).i(1).f(0.5),
            lambda: counted(polyline(v, closed).point_along_path(shcopy(fa))), sub="/no-segment")

    # --- subdivided_by_length
    lens_f = [float(l) for l in ref.lens]
    pos = [l for l in ref.lens if l > 0]
    maxes = []
    if pos:
        for _ in range(4):
            l = rng.choice(pos)
            k = rng.choice([1, 1, 2, 3, 4, 5, 7])
            if stream == "lattice":
                r = rng.random()
                if r < 0.4:
                    maxes.append(float(l / k) if (l / k).denominator & ((l / k).denominator - 1) == 0 else float(l))
                elif r < 0.7:
                    maxes.append(rng.randint(1, 12) / rng.choice([1, 2, 4, 8]))
                else:
                    maxes.append(float(l / k) * (1 + rng.choice([-1, 1]) * rng.choice([1e-6, 1e-3, 0.3])))
            else:
                maxes.append(float(l) / k * (1 + rng.choice([-1, 1]) * rng.choice([1e-6, 1e-4, 1e-2, 0.3])))
        maxes.append(float(max(pos)) * 2.0)      # nothing to subdivide
    else:
        maxes.append(1.0)
    for mx in maxes:
        if not (mx > 0):
            continue
        ratios = [l / F(mx) for l in ref.lens]
        if any(r > 60 for r in ratios):
            continue
        exact = stream == "lattice" and all(isinstance(l, Fraction) and float(l) == l for l in ref.lens) and \
            all(abs(r - round(r)) == 0 or abs(r - round(r)) > Fraction(1, 10 ** 6) for r in ratios)
        determined = exact or all(abs(r - round(r)) > Fraction(1, 10 ** 9) * max(1, r) for r in ratios)
        if not determined:
            continue
        mk = rng.random()
        if mk < 0.35:
            mask = None
        elif mk < 0.8:
            mask = [rng.random() < 0.6 for _ in range(nE)]
        elif mk < 0.9:
            mask = [False] * nE
        else:
            mask = [True] * (nE + rng.choice([-1, 1, 2])) if nE + 1 > 0 else None
            if mask is not None and len(mask) == nE:
                mask = None
            if mask is not None and len(mask) < 0:
                mask = None
        for ret in (True, False):
            def impl_sub(mx=mx, mask=mask, ret=ret):
                p = polyline(v, closed)
                m = None if mask is None else np.array(mask, dtype=bool)
                r = p.subdivided_by_length(mx, edges_to_subdivide=m, ret_indices=ret)
                if ret:
                    q, idx = r
                    return canon_polyline(q) + counted_ints(idx)
                return canon_polyline(r)
            ln = Line("pl.subdiv").b(ret).b(closed).vecs(V).f(mx).b(mask is not None).bools(mask or [])
            wrong = mask is not None and len(mask) != nE
            add("pl.subdiv", ln, impl_sub,
                oracle=(lambda _r, mx=mx, mask=mask: oracle_subdiv(v, closed, ref, mx, mask, scale, exact)) if (ret and not wrong) else None,
                sub="/%s/%s" % ("wrong-mask" if wrong else ("nomask" if mask is None else "mask"), "ret" if ret else "noret"))

    # --- with_segments_bisected
    idx_sets = []
    if nE > 0:
        idx_sets.append([rng.randrange(nE)])
        idx_sets.append(list(range(nE)))
        idx_sets.append([rng.randrange(-nE, nE) for _ in range(rng.randint(1, nE + 2))])
        idx_sets.append([nE - 1, 0][: max(1, min(2, nE))])
        idx_sets.append([rng.choice([nE, -nE - 1, nE + 3])] + ([0] if rng.random() < 0.5 else []))
    idx_sets.append([])          # regression: fixed by "with_segments_bisected accepts an empty set of segments"
    for idx in idx_sets:
        for ret in (True, False):
            def impl_bis(idx=idx, ret=ret):
                p = polyline(v, closed)
                r = p.with_segments_bisected(np.array(idx, dtype=np.int64), ret_new_indices=ret)
                if ret:
                    q, orig, ins = r
                    return canon_polyline(q) + counted_ints(orig) + counted_ints(ins)
                return canon_polyline(r)
            ok = all(-nE <= i < nE for i in idx)
            add("pl.bisect", Line("pl.bisect").b(ret).b(True).b(closed).vecs(V).ints(idx), impl_bis,
                oracle=(lambda _r, idx=idx: oracle_bisect(v, closed, ref, idx, scale)) if (ret and ok) else None,
                sub="/%s/%s" % ("bad-index" if not ok else ("empty" if not idx else ("repeat" if len(set(i % nE for i in idx)) < len(idx) else "set")),
                                "ret" if ret else "noret"))
    # segment indices which are not one-dimensional: a single number, a 2-d array
    if nE > 0:
        for shape_kind in ("scalar", "npscalar", "2d"):
            e0 = rng.randrange(nE)
            arg = {"scalar": e0, "npscalar": np.int64(e0), "2d": np.array([[e0]], dtype=np.int64)}[shape_kind]
            for ret in (True, False):
                def impl_bad(arg=arg, ret=ret):
                    r = polyline(v, closed).with_segments_bisected(arg, ret_new_indices=ret)
                    return canon_polyline(r[0] if ret else r)
                add("pl.bisect", Line("pl.bisect").b(ret).b(False).b(closed).vecs(V).ints([e0]), impl_bad,
                    sub="/not-1d-" + shape_kind)
    return cases


# ---------------------------------------------------------------------------------------------------
# oracles for the polyline group

@guarded("measures")
def oracle_measures(v, closed, ref, scale):
    out = []
    tol = Fraction(1e-9) * Fraction(scale)
    p = polyline(v, closed)
    sl = np.asarray(p.segment_lengths)
    if sl.shape != (len(ref.lens),):
        return [("lengths/count", "segment_lengths has shape %s for %d segments" % (sl.shape, len(ref.lens)))]
    for i, l in enumerate(ref.lens):
        if not vclose([sl[i]], [l], tol):
            out.append(("lengths/euclidean", "segment_lengths[%d]=%r, Euclidean length %r" % (i, float(sl[i]), float(l))))
    if not vclose([p.total_length], [ref.total], tol * max(1, len(ref.lens))):
        out.append(("total/sum", "total_length=%r, sum of lengths %r" % (float(p.total_length), float(ref.total))))
    if ref.total > 0:
        c = np.asarray(p.path_centroid)
        if c.shape != (3,) or not vclose(c, ref.centroid(), tol * 4):
            out.append(("centroid/weighted-mean", "path_centroid=%s, length-weighted mean of midpoints %s" % (c.tolist(), [float(x) for x in ref.centroid()])))
        from polliwog.segment import path_centroid
        c2 = np.asarray(path_centroid(np.asarray(p.segments)))
        if not np.array_equal(c, c2):
            out.append(("centroid/function-agrees", "Polyline.path_centroid differs from segment.path_centroid(segments)"))
    return dedupe(out)


@guarded("along")
def oracle_along(v, closed, ref, fa, scale, single=False):
    out = []
    tol = Fraction(1e-9) * Fraction(scale)
    p = polyline(v, closed)
    L = ref.total
    if single:
        got = np.asarray(p.point_along_path(float(fa[0]))).reshape(1, 3)
    else:
        got = np.asarray(p.point_along_path(shcopy(fa)))
    first = ref.v[0]
    end = ref.segs[-1][1]
    for f, g in zip(fa, got):
        want = ref.at(F(f) * L)
        if not vclose(g, want, tol):
            out.append(("along/arc-length-point", "point_along_path(%r)=%s, point at arc length f*L is %s" % (float(f), g.tolist(), [float(x) for x in want])))
        if f == 0.0 and not vclose(g, first, tol):
            out.append(("along/f0-first-vertex", "point_along_path(0)=%s, first vertex %s" % (g.tolist(), [float(x) for x in first])))
        if f == 1.0 and not vclose(g, end, tol):
            out.append(("along/f1-end", "point_along_path(1)=%s, end of the path %s" % (g.tolist(), [float(x) for x in end])))
        # continuity sample: |P(f +- h) - P(f)| <= L*h (+ rounding)
        for h in (1e-9, -1e-9):
            f2 = min(1.0, max(0.0, float(f) + h))
            g2 = np.asarray(p.point_along_path(f2)).reshape(3)
            d = isqrt_frac(sum((F(a) - F(b)) ** 2 for a, b in zip(g, g2))) if not (np.isnan(g).any() or np.isnan(g2).any()) else None
            if d is None or d > L * abs(F(f2) - F(f)) + Fraction(1e-12) * Fraction(scale):
                out.append(("along/continuous", "point_along_path jumps: f=%r -> %s, f=%r -> %s" % (float(f), g.tolist(), f2, g2.tolist())))
    # stacked = map of single
    if not single and len(fa):
        k = len(fa) // 2
        g1 = np.asarray(p.point_along_path(float(fa[k]))).reshape(3)
        if not vclose(g1, got[k], tol):
            out.append(("along/stack-is-map", "stacked row %d differs from the single call" % k))
    return dedupe(out)


def split_by_indices(qv, idx, closed):
    """-> list of inserted runs per original vertex (run i = rows strictly between idx[i] and the next original)"""
    runs = []
    n = len(idx)
    for i in range(n):
        hi = idx[i + 1] if i + 1 < n else len(qv)
        runs.append(qv[idx[i] + 1:hi])
    return runs


def path_total(qv, closed):
    r = Ref([list(map(float, p)) for p in qv], closed)
    return r.total


@guarded("subdivided")
def oracle_subdiv(v, closed, ref, mx, mask, scale, exact):
    out = []
    tol = Fraction(1e-9) * Fraction(scale)
    p = polyline(v, closed)
    m = None if mask is None else np.array(mask, dtype=bool)
    q, idx = p.subdivided_by_length(mx, edges_to_subdivide=m, ret_indices=True)
    q2 = p.subdivided_by_length(mx, edges_to_subdivide=m, ret_indices=False)
    qv = np.asarray(q.v)
    idx = [int(i) for i in idx]
    nV = len(v)
    if not np.array_equal(qv, np.asarray(q2.v)) or q2.is_closed != q.is_closed:
        out.append(("subdivided/ret-indices-same-polyline", "ret_indices changes the returned polyline"))
    if mask is None:
        q3 = p.subdivided_by_length(mx, edges_to_subdivide=np.ones(len(ref.segs), dtype=bool))
        if not np.array_equal(qv, np.asarray(q3.v)):
            out.append(("subdivided/default-mask", "default mask differs from all-True"))
    if bool(q.is_closed) != closed:
        out.append(("subdivided/closedness", "closedness changed"))
    if len(idx) != nV or any(b <= a for a, b in zip(idx, idx[1:])) or (idx and (idx[0] != 0 or idx[-1] >= len(qv))):
        out.append(("subdivided/indices-in-order", "indices of original vertices %s are not increasing positions of %d rows" % (idx, len(qv))))
        return dedupe(out)
    for i in range(nV):
        if not np.array_equal(qv[idx[i]], np.asarray(v[i], dtype=np.float64)):
            out.append(("subdivided/original-at-index", "row %d is %s, original vertex %d is %s" % (idx[i], qv[idx[i]].tolist(), i, v[i])))
    runs = split_by_indices(qv, idx, closed)
    mxF = F(mx)
    slack = Fraction(0) if exact else Fraction(1, 10 ** 10)
    for i in range(nV):
        run = runs[i]
        if i >= len(ref.segs):
            if len(run):
                out.append(("subdivided/own-segment", "rows after the last vertex of an open polyline"))
            continue
        (a, b), l = ref.segs[i], ref.lens[i]
        sel = True if mask is None else bool(mask[i])
        if not sel or l <= mxF * (1 - slack):
            if len(run) and (not sel or l <= mxF * (1 - slack)):
                out.append(("subdivided/untouched", "edge %d (selected=%s, length %r <= max %r) received %d points" % (i, sel, float(l), mx, len(run))))
            continue
        n = len(run) + 1
        if l / n > mxF * (1 + slack):
            out.append(("subdivided/not-longer-than-max", "edge %d of length %r cut into %d parts of %r > max_length %r" % (i, float(l), n, float(l / n), mx)))
        if n > 1 and l / (n - 1) <= mxF * (1 - slack):
            out.append(("subdivided/smallest-number", "edge %d of length %r cut into %d parts, %d would do for max_length %r" % (i, float(l), n, n - 1, mx)))
        for k, row in enumerate(run, 1):
            want = [x + Fraction(k, n) * (y - x) for x, y in zip(a, b)]
            if not vclose(row, want, tol):
                out.append(("subdivided/evenly-spaced", "edge %d: inserted point %d/%d is %s, expected %s" % (i, k, n, row.tolist(), [float(x) for x in want])))
    t = path_total(qv, closed)
    if abs(t - ref.total) > tol * max(1, len(qv)):
        out.append(("subdivided/total-length", "total length %r became %r" % (float(ref.total), float(t))))
    return dedupe(out)


@guarded("bisected")
def oracle_bisect(v, closed, ref, idx, scale):
    out = []
    if not idx:
        try:
            q = polyline(v, closed).with_segments_bisected(np.array(idx, dtype=np.int64))
        except Exception as e:  # noqa: BLE001
            return [("bisected/empty-index-set", "with_segments_bisected([]) raised %s instead of returning the polyline" % type(e).__name__)]
        if not np.array_equal(np.asarray(q.v), np.asarray(v, dtype=np.float64).reshape(-1, 3)) or bool(q.is_closed) != closed:
            return [("bisected/empty-index-set", "with_segments_bisected([]) changed the polyline")]
        return []
    tol = Fraction(1e-9) * Fraction(scale)
    p = polyline(v, closed)
    ia = np.array(idx, dtype=np.int64)
    q, orig, ins = p.with_segments_bisected(ia, ret_new_indices=True)
    q2 = p.with_segments_bisected(ia, ret_new_indices=False)
    qv = np.asarray(q.v)
    orig = [int(i) for i in orig]
    ins = [int(i) for i in ins]
    nV, nE = len(v), len(ref.segs)
    if not np.array_equal(qv, np.asarray(q2.v)) or q2.is_closed != q.is_closed:
        out.append(("bisected/ret-indices-same-polyline", "ret_new_indices changes the returned polyline"))
    if bool(q.is_closed) != closed:
        out.append(("bisected/closedness", "closedness changed"))
    if len(qv) != nV + len(idx) or len(orig) != nV or len(ins) != len(idx) or \
            sorted(orig + ins) != list(range(len(qv))) or any(b <= a for a, b in zip(orig, orig[1:])):
        out.append(("bisected/indices-partition", "orig %s and inserted %s do not partition %d rows in order" % (orig, ins, len(qv))))
        return dedupe(out)
    for i in range(nV):
        if not np.array_equal(qv[orig[i]], np.asarray(v[i], dtype=np.float64)):
            out.append(("bisected/original-at-index", "row %d is not original vertex %d" % (orig[i], i)))
    for j, s in enumerate(idx):
        s = s % nE
        a, b = ref.segs[s]
        mid = [(x + y) / 2 for x, y in zip(a, b)]
        if not vclose(qv[ins[j]], mid, tol):
            out.append(("bisected/midpoint", "inserted row %d is %s, midpoint of segment %d is %s" % (ins[j], qv[ins[j]].tolist(), s, [float(x) for x in mid])))
        e1 = s + 1 if s + 1 < nV else 0
        if e1 != 0:
            ok = orig[s] < ins[j] < orig[e1]
        else:
            ok = ins[j] < orig[0] or ins[j] > orig[nV - 1]
        if not ok:
            out.append(("bisected/own-segment", "midpoint of segment %d placed at row %d, outside its segment (orig=%s)" % (s, ins[j], orig)))
    t = path_total(qv, closed)
    if abs(t - ref.total) > tol * max(1, len(qv)):
        out.append(("bisected/total-length", "total length %r became %r" % (float(ref.total), float(t))))
    return dedupe(out)


# ---------------------------------------------------------------------------------------------------
# subdivide_segment

def gen_point(rng, stream, s=1.0):
    if stream == "lattice":
        return [float(rng.randint(-4, 4)) / rng.choice([1, 2, 4]) for _ in range(3)]
    return [rng.uniform(-1, 1) * s for _ in range(3)]


def make_subseg(spec):
    from polliwog.segment import subdivide_segment
    rng = random.Random(spec["sub"])
    stream = spec["stream"]
    s = 10.0 ** rng.uniform(-3, 3)
    p1 = gen_point(rng, stream, s)
    p2 = list(p1) if rng.random() < 0.1 else gen_point(rng, stream, s)
    P1, P2 = np.array(p1), np.array(p2)
    scale = max(gens.maxabs(P1, P2), 1e-300)
    cases = []
    r = rng.random()
    if r < 0.7:
        kinds = [("int", rng.choice([2, 2, 3, 4, 5, 8, 9, 17, 33]))]
    elif r < 0.85:
        kinds = [("int", rng.choice([1, 0, -3])), ("bool", True)]
    else:
        kinds = [("float", float(rng.choice([2, 3, 5]))), ("npint", rng.choice([2, 4])), ("none", 0)]
    for kind, n in kinds:
        for endpoint in (True, False, None):
            arg = {"int": int, "bool": bool, "float": float, "npint": np.int64, "none": lambda _x: None}[kind](n)
            is_int = kind in ("int", "bool")

            def impl(arg=arg, endpoint=endpoint):
                if endpoint is None:
                    r_ = subdivide_segment(shcopy(P1), shcopy(P2), arg)
                else:
                    r_ = subdivide_segment(shcopy(P1), shcopy(P2), arg, endpoint=endpoint)
                r_ = np.asarray(r_)
                if r_.ndim != 2 or r_.shape[1] != 3:
                    raise RuntimeError("bad shape %s" % (r_.shape,))
                return counted(r_)
            ep = True if endpoint is None else endpoint
            ln = Line("seg.subdivide").b(is_int).i(int(n) if is_int or kind != "none" else 0).b(ep).b(True).vec(P1).vec(P2)
            good = is_int and int(n) >= 2
            cases.append(Case(spec, ln, impl, mode="both", scale=scale, trivial=not good,
                              klass="seg.subdivide/%s/%s/%s" % (stream, kind if not good or kind != "int" else "ok",
                                                                "default" if endpoint is None else ("endpoint" if ep else "open")),
                              oracle=(lambda _r, n=int(n), ep=ep, endpoint=endpoint: oracle_subseg(P1, P2, n, endpoint, ep, scale)) if good else
                              (lambda _r, arg=arg, is_int=is_int: oracle_subseg_err(P1, P2, arg, is_int))))
    return cases


@guarded("subdivide_segment")
def oracle_subseg(P1, P2, n, endpoint, ep, scale):
    from polliwog.segment import subdivide_segment
    out = []
    tol = Fraction(1e-9) * Fraction(scale)
    r = subdivide_segment(shcopy(P1), shcopy(P2), n) if endpoint is None else subdivide_segment(shcopy(P1), shcopy(P2), n, endpoint=endpoint)
    r = np.asarray(r)
    if r.shape != (n, 3):
        return [("subdivide_segment/count", "returned shape %s for num_points=%d" % (r.shape, n))]
    a, b = fv(P1), fv(P2)
    div = n - 1 if ep else n
    for k in range(n):
        want = [x + Fraction(k, div) * (y - x) for x, y in zip(a, b)]
        if not vclose(r[k], want, tol):
            out.append(("subdivide_segment/evenly-spaced", "point %d of %d (endpoint=%s) is %s, expected %s" % (k, n, ep, r[k].tolist(), [float(x) for x in want])))
    if not vclose(r[0], a, 0):
        out.append(("subdivide_segment/starts-at-p1", "first point %s is not p1" % (r[0].tolist(),)))
    if ep and not vclose(r[-1], b, tol):
        out.append(("subdivide_segment/ends-at-p2", "last point %s is not p2" % (r[-1].tolist(),)))
    return dedupe(out)


def oracle_subseg_err(P1, P2, arg, is_int):
    from polliwog.segment import subdivide_segment
    want = ValueError if is_int else TypeError
    try:
        subdivide_segment(shcopy(P1), shcopy(P2), arg)
    except want:
        return []
    except Exception as e:  # noqa: BLE001
        return [("subdivide_segment/raises", "num_points=%r raised %s, expected %s" % (arg, type(e).__name__, want.__name__))]
    return [("subdivide_segment/raises", "num_points=%r accepted, expected %s" % (arg, want.__name__))]


# ---------------------------------------------------------------------------------------------------
# subdivide_segments

def make_subsegs(spec):
    from polliwog.segment import subdivide_segments
    rng = random.Random(spec["sub"])
    stream = spec["stream"]
    s = 10.0 ** rng.uniform(-3, 3)
    k = rng.choice([1, 2, 2, 3, 4, 5, 7])
    v = []
    for _ in range(k):
        if v and rng.random() < 0.25:
            v.append(list(v[-1]))
        else:
            v.append(gen_point(rng, stream, s))
    V = np.array(np.reshape(v, (-1, 3)), dtype=np.float64)
    scale = max(gens.maxabs(V), 1e-300)
    n = rng.choice([0, 1, 2, 3, 5, 5, 7]) if rng.random() < 0.8 else None
    rep = any(v[i] == v[i + 1] for i in range(len(v) - 1))

    def impl():
        r = subdivide_segments(shcopy(V)) if n is None else subdivide_segments(shcopy(V), n)
        r = np.asarray(r)
        if r.ndim != 2 or r.shape[1] != 3:
            raise RuntimeError("bad shape %s" % (r.shape,))
        return counted(r)
    nn = 5 if n is None else n
    ln = Line("seg.subdivides").b(True).i(nn).vecs(V)
    cases = [Case(spec, ln, impl, mode="both", scale=scale, trivial=(k < 2 or nn == 0),
                  klass="seg.subdivides/%s/%s/%s" % (stream, "repeated" if rep else "distinct", "default" if n is None else ("n%d" % min(nn, 2))),
                  oracle=lambda _r: oracle_subsegs(V, n, nn, scale))]
    if rng.random() < 0.2:
        for bad, arg in (("1d", V[0].copy()), ("list", V.tolist()), ("3d", V.reshape(1, -1, 3).copy())):
            cases.append(Case(spec, Line("seg.subdivides").b(False).i(nn).vecs(V),
                              lambda arg=arg: counted(np.asarray(subdivide_segments(arg, nn)).reshape(-1, 3)),
                              mode="both", scale=scale, trivial=True, klass="seg.subdivides/%s/bad-shape-%s" % (stream, bad)))
        E0 = np.zeros((0, 3))
        cases.append(Case(spec, Line("seg.subdivides").b(True).i(nn).vecs(E0),
                          lambda: counted(np.asarray(subdivide_segments(shcopy(E0), nn)).reshape(-1, 3)),
                          mode="both", scale=1.0, trivial=True, klass="seg.subdivides/%s/no-points" % stream))
    return cases


@guarded("subdivide_segments")
def oracle_subsegs(V, n, nn, scale):
    from polliwog.segment import subdivide_segments
    out = []
    tol = Fraction(1e-9) * Fraction(scale)
    r = np.asarray(subdivide_segments(shcopy(V)) if n is None else subdivide_segments(shcopy(V), n))
    E = len(V) - 1
    if r.shape != (E * nn + 1, 3):
        return [("subdivide_segments/count", "returned shape %s for %d segments x %d" % (r.shape, E, nn))]
    for i in range(E):
        a, b = fv(V[i]), fv(V[i + 1])
        for k in range(nn):
            row = r[i * nn + k]
            want = [x + Fraction(k, nn) * (y - x) for x, y in zip(a, b)]
            if np.isnan(row).any() or not vclose(row, want, tol):
                out.append(("subdivide_segments/on-own-segment", "segment %d point %d/%d is %s, expected %s" % (i, k, nn, row.tolist(), [float(x) for x in want])))
    if not np.array_equal(r[-1], V[-1]):
        out.append(("subdivide_segments/endpoint-kept", "last row %s is not the last vertex" % (r[-1].tolist(),)))
    if nn > 0 and not np.isnan(r).any():
        t0 = path_total(V, False)
        t1 = path_total(r, False)
        if abs(t0 - t1) > tol * max(1, len(r)):
            out.append(("subdivide_segments/total-length", "total length %r became %r" % (float(t0), float(t1))))
    return dedupe(out)


# ---------------------------------------------------------------------------------------------------
# segment.path_centroid on arbitrary segments

def make_segcentroid(spec):
    from polliwog.segment import path_centroid
    rng = random.Random(spec["sub"])
    stream = spec["stream"]
    s = 10.0 ** rng.uniform(-3, 3)
    k = rng.choice([0, 1, 1, 2, 3, 5, 8])
    segs = []
    for _ in range(k):
        a = gen_point(rng, stream, s)
        if stream == "lattice":
            st = lat_step(rng)
            b = [x + y / 2 for x, y in zip(a, st)] if rng.random() < 0.85 else list(a)
        else:
            b = gen_point(rng, stream, s) if rng.random() < 0.85 else list(a)
        segs.append([a, b])
    S = np.array(np.reshape(segs, (-1, 2, 3)), dtype=np.float64)
    scale = max(gens.maxabs(S), 1e-300)
    lens = [elen(a, b) for a, b in segs]
    total = sum(lens, Fraction(0))
    ln = Line("seg.centroid").i(len(S)).vec(S)

    def oracle(_r):
        if total == 0:
            return []
        c = np.asarray(path_centroid(shcopy(S)))
        want = [sum(l * (F(a[j]) + F(b[j])) / 2 for (a, b), l in zip(segs, lens)) / total for j in range(3)]
        if c.shape != (3,) or not vclose(c, want, Fraction(4e-9) * Fraction(scale)):
            return [("centroid/weighted-mean", "path_centroid=%s, length-weighted mean of midpoints %s" % (c.tolist(), [float(x) for x in want]))]
        return []
    return Case(spec, ln, lambda: flat(np.asarray(path_centroid(shcopy(S))).reshape(3)), mode="both", scale=scale,
                trivial=total == 0, klass="seg.centroid/%s/%s" % (stream, "zero" if total == 0 else "k%d" % min(k, 3)), oracle=oracle)
