"""C11 — rotation and affine matrix builders act as documented and invert exactly.

Correspondence: euler / rotation_from_up_and_look (PW.Model.Rotation, Float and exact-with-approximated-sqrt runs),
transform_matrix_for_rotation/_translation/_uniform_scale/_non_uniform_scale, apply_transform, compose_transforms
(PW.Model.Affine, exact rationals and Float).
Oracle: the clauses of C11 evaluated on the implementation's outputs: exact `Fraction` arithmetic for the algebraic
clauses (last row, action on points, forward*inverse, composition order), float residuals for R^T R = I, det = 1.
"""
import itertools
import math
from fractions import Fraction

import numpy as np

from pwlib.share import shcopy

from pwlib import gens
from pwlib.canon import flat
from pwlib.engine import Case
from pwlib.proto import Line

ID = "C11"
TARGETS = ["PW.Props.C11"]
RULE = ("streams: lattice (integer/dyadic vectors, the 24 signed-permutation rotations, scale factors from {0, +-1/4..+-4} "
        "so the raise logic is exact), float (magnitudes 1e-6..1e6, rotations from random unit quaternions), malformed "
        "(wrong shapes, zero / negative factors, zero or collinear up/look). euler: every one of the 39 axis-order strings "
        "over x,y,z of length 1..3 with both units in every run (plus random angles 1e-6..1e6, length mismatches, a scalar "
        "angle); apply: builder outputs, products of builders and arbitrary 4x4 matrices on single points / stacks / empty "
        "stacks with both flags; compose: 0..4 matrices, about a third of the lists with a non-affine member (small integer / "
        "dyadic entries, last row != (0,0,0,1)) so that the unrestricted composition-order clause is exercised (known finding "
        "compose/order/non-affine; harness/corpus/C11 holds the minimal case). A case is non-trivial unless it is an empty stack or compose(); "
        "distinct = distinct spec")
TRUSTED = ["np.linalg.norm / np.dot / np.cross / np.radians / np.cos / np.sin modelled as sqrt(v.v), dot, cross, x*(pi/180), cos, sin",
           "np.pad / np.diag / np.eye / ndarray.T / np.delete modelled by the matrices they build",
           "IEEE rounding not modelled: numeric outputs compared with rtol 1e-9*scale, exception classes exactly",
           "transform_matrix_for_rotation(Rodrigues vector) is checked by the oracle only (its rotation is C10's model)"]
ASSUMPTIONS = ["up/look magnitudes within 1e-6..1e6 (squares neither underflow nor overflow) and directions at least 2e-6 rad apart",
               "scale factors are finite, non-NaN Python floats"]
EXHAUSTIVE = {"quick": False, "thorough": False}

ORDERS = ["".join(t) for n in (1, 2, 3) for t in itertools.product("xyz", repeat=n)]
assert len(ORDERS) == 39
AXIS_CODE = {"x": 0, "y": 1, "z": 2}

F = Fraction


def Fr(x):
    return Fraction(float(x))


def FM(M):
    return [[Fr(x) for x in row] for row in np.asarray(M, dtype=np.float64)]


def mmul(A, B):
    n, m, k = len(A), len(B), len(B[0])
    return [[sum(A[i][t] * B[t][j] for t in range(m)) for j in range(k)] for i in range(n)]


def mvec(A, v):
    return [sum(a * b for a, b in zip(row, v)) for row in A]


def transpose(A):
    return [list(r) for r in zip(*A)]


def ident_resid(A):
    n = len(A)
    return max(abs(A[i][j] - (1 if i == j else 0)) for i in range(n) for j in range(n))


def det3(A):
    return (A[0][0] * (A[1][1] * A[2][2] - A[1][2] * A[2][1]) - A[0][1] * (A[1][0] * A[2][2] - A[1][2] * A[2][0])
            + A[0][2] * (A[1][0] * A[2][1] - A[1][1] * A[2][0]))


def quat_rot(q):
    w, x, y, z = (np.array(q, dtype=np.float64) / np.linalg.norm(q)).tolist()
    return np.array([[1 - 2 * (y * y + z * z), 2 * (x * y - z * w), 2 * (x * z + y * w)],
                     [2 * (x * y + z * w), 1 - 2 * (x * x + z * z), 2 * (y * z - x * w)],
                     [2 * (x * z - y * w), 2 * (y * z + x * w), 1 - 2 * (x * x + y * y)]])


def cube_rot(rng):
    while True:
        perm = [0, 1, 2]
        rng.shuffle(perm)
        R = np.zeros((3, 3))
        for i, j in enumerate(perm):
            R[i, j] = rng.choice([-1.0, 1.0])
        if round(np.linalg.det(R)) == 1:
            return R.tolist()


def dedupe(out):
    seen = {}
    for k, m in out:
        seen.setdefault(k, m)
    return list(seen.items())


# ---------------------------------------------------------------------------------------------------
# generators

def gen_matrix(rng, kind=None):
    """a 4x4 matrix spec: built from the public builders or arbitrary"""
    kind = kind or rng.choice(["trans", "scale", "rot", "rotq", "trs", "any", "anyaffine", "lat", "proj", "nearid"])
    if kind == "nearid":
        # almost, but not, the identity: entries within 1e-12..1e-5.5 of it (an `allclose` to the identity must not skip it)
        d = lambda: rng.uniform(-1, 1) * 10.0 ** rng.uniform(-12, -5.5)
        c = rng.random()
        M = [[1.0 if i == j else 0.0 for j in range(4)] for i in range(4)]
        if c < 0.35:
            for i in range(3):
                M[i][3] = d() * 1e-3
        elif c < 0.7:
            f = d()
            for i in range(3):
                M[i][i] = 1.0 + f * rng.choice([1.0, 1.0, 0.5])
        else:
            a, b, e = d() * 1e-3, d() * 1e-3, d() * 1e-3
            M[0][1], M[1][0], M[0][2], M[2][0], M[1][2], M[2][1] = -e, e, b, -b, -a, a
        return {"k": "any", "M": M}
    if kind == "trans":
        return {"k": "trans", "v": gens.lat(rng, 4, rng.choice([1, 2, 4]))}
    if kind == "scale":
        return {"k": "scale", "f": [rng.choice([-2.0, -0.5, 0.25, 0.5, 1.0, 2.0, 3.0]) for _ in range(3)]}
    if kind == "rot":
        return {"k": "rot", "R": cube_rot(rng)}
    if kind == "rotq":
        return {"k": "rotq", "q": [rng.gauss(0, 1) for _ in range(4)]}
    if kind == "trs":
        s = gens.scale_of(rng, -3, 3)
        return {"k": "trs", "q": [rng.gauss(0, 1) for _ in range(4)], "v": gens.fvec(rng, s),
                "f": [10.0 ** rng.uniform(-2, 2) for _ in range(3)]}
    if kind == "lat":
        return {"k": "any", "M": [[float(rng.randint(-3, 3)) for _ in range(4)] for _ in range(4)]}
    if kind == "proj":
        # non-affine on purpose: small integer / dyadic entries, last row != (0, 0, 0, 1)
        M = [[rng.choice([-2.0, -1.0, 0.0, 0.0, 0.5, 1.0, 1.0, 2.0]) for _ in range(4)] for _ in range(3)]
        last = rng.choice([[0.0, 0.0, 0.0, 2.0], [0.0, 0.0, 0.0, 0.5], [0.0, 0.0, 1.0, 1.0], [1.0, 0.0, 0.0, 0.0],
                           [0.0, 0.5, 0.0, 1.0], [0.0, 0.0, 0.0, -1.0], [0.0, 0.0, 0.0, 0.0], [1.0, -1.0, 2.0, 3.0]])
        return {"k": "proj", "M": M + [last]}
    if kind == "anyaffine":
        s = gens.scale_of(rng, -3, 3)
        return {"k": "any", "M": [[rng.uniform(-1, 1) * s for _ in range(4)] for _ in range(3)] + [[0.0, 0.0, 0.0, 1.0]]}
    s = gens.scale_of(rng, -3, 3)
    return {"k": "any", "M": [[rng.uniform(-1, 1) * s for _ in range(4)] for _ in range(4)]}


def build_matrix(ms):
    """matrix spec -> 4x4 float array (built here, not with the builders under test, so that a broken builder
    cannot derail the apply / compose cases)"""
    def T(v):
        M = np.eye(4)
        M[:3, 3] = v
        return M

    def S(f):
        return np.diag([f[0], f[1], f[2], 1.0])

    def R(R3):
        M = np.eye(4)
        M[:3, :3] = R3
        return M
    k = ms["k"]
    if k == "trans":
        return T(ms["v"])
    if k == "scale":
        return S(ms["f"])
    if k == "rot":
        return R(np.array(ms["R"], dtype=np.float64))
    if k == "rotq":
        return R(quat_rot(ms["q"]))
    if k == "trs":
        return T(ms["v"]).dot(R(quat_rot(ms["q"]))).dot(S(ms["f"]))
    return np.array(ms["M"], dtype=np.float64)


def gen(rng, tier):
    q = tier == "quick"
    # ---- euler: every order string, both units, every run
    for order in ORDERS:
        for units in ("deg", "rad"):
            yield {"op": "euler", "order": order, "units": units, "stream": "lattice",
                   "angles": [rng.choice([0, 30, 45, 90, -90, 180, 270, 360, -135, 60]) * (1.0 if units == "deg" else math.pi / 180)
                              for _ in order]}
            for _ in range(2 if q else 12):
                mag = 10.0 ** rng.uniform(-6, 6) if rng.random() < 0.3 else (360.0 if units == "deg" else 2 * math.pi)
                yield {"op": "euler", "order": order, "units": units, "stream": "float",
                       "angles": [rng.uniform(-1, 1) * mag for _ in order]}
    for _ in range(40 if q else 400):
        order = rng.choice(ORDERS)
        r = rng.random()
        spec = {"op": "euler", "order": order, "units": rng.choice(["deg", "rad"]), "stream": "shape"}
        if r < 0.3:   # scalar angle
            spec["angles"] = rng.uniform(-400, 400)
        elif r < 0.6:  # fewer / more angles than axes: zip truncates
            spec["angles"] = [rng.uniform(-400, 400) for _ in range(rng.choice([0, 1, 2, 4]))]
        elif r < 0.8:  # a character that is not an axis consumes an angle and does nothing
            spec["order"] = "".join(rng.choice("xyzq") for _ in range(3))
            spec["angles"] = [rng.uniform(-400, 400) for _ in range(3)]
        else:
            spec["default_args"] = True  # order="xyz", units="deg" left to the defaults
            spec["order"], spec["units"] = "xyz", "deg"
            spec["angles"] = [rng.uniform(-400, 400) for _ in range(3)]
        yield spec
    # ---- rotation_from_up_and_look
    for i in range(400 if q else 3000):
        r = rng.random()
        if r < 0.25:
            ax = rng.randrange(3)
            up = [0.0, 0.0, 0.0]
            up[ax] = rng.choice([-4.0, -1.0, 0.5, 1.0, 2.0, 3.0])
            yield {"op": "uplook", "stream": "lattice", "up": up, "look": gens.lat(rng, 3, rng.choice([1, 2]))}
        elif r < 0.35:
            kind = rng.choice(["zero-up", "zero-look", "collinear", "both-zero"])
            ax = rng.randrange(3)
            e = [0.0, 0.0, 0.0]
            e[ax] = 1.0
            s = rng.choice([-3.0, 0.5, 2.0])
            if kind == "zero-up":
                yield {"op": "uplook", "stream": "malformed", "up": [0.0, 0.0, 0.0], "look": gens.lat_nonzero(rng, 3)}
            elif kind == "zero-look":
                yield {"op": "uplook", "stream": "malformed", "up": gens.lat_nonzero(rng, 3), "look": [0.0, -0.0, 0.0]}
            elif kind == "both-zero":
                yield {"op": "uplook", "stream": "malformed", "up": [0.0, 0.0, 0.0], "look": [0.0, 0.0, 0.0]}
            else:
                yield {"op": "uplook", "stream": "malformed", "up": [x * s for x in e], "look": [x * rng.choice([-2.0, 5.0]) for x in e]}
        elif r < 0.4:
            yield {"op": "uplook-shape", "stream": "malformed", "which": rng.choice(["up", "look"]),
                   "shape": rng.choice([[2], [4], [1, 3], [3, 1], [0]])}
        else:
            # float: independent magnitudes, angle between the directions log-uniform in [2e-6, pi-2e-6]
            yield {"op": "uplook", "stream": "float", "seed": rng.randrange(1 << 30)}
    # ---- affine builders
    for i in range(160 if q else 1500):
        r = rng.random()
        if r < 0.3:
            yield {"op": "rot", "stream": "lattice", "R": cube_rot(rng)}
        elif r < 0.6:
            yield {"op": "rot", "stream": "float", "q": [rng.gauss(0, 1) for _ in range(4)]}
        elif r < 0.7:
            s = gens.scale_of(rng, -3, 3)
            yield {"op": "rot", "stream": "any3x3", "R": [[rng.uniform(-1, 1) * s for _ in range(3)] for _ in range(3)]}
        elif r < 0.9:
            yield {"op": "rot-rodvec", "stream": "float", "r": gens.fvec(rng, 10.0 ** rng.uniform(-3, 0.6))}
        else:
            yield {"op": "rot-shape", "stream": "malformed", "shape": rng.choice([[4], [2], [2, 2], [3, 4], [4, 4], [1, 3]])}
    for i in range(160 if q else 1500):
        if i % 2 == 0:
            yield {"op": "trans", "stream": "lattice", "v": gens.lat(rng, 5, rng.choice([1, 2, 4, 8]))}
        else:
            yield {"op": "trans", "stream": "float", "v": gens.fvec(rng, gens.scale_of(rng))}
    for i in range(8 if q else 40):
        yield {"op": "trans-shape", "stream": "malformed", "shape": rng.choice([[2], [4], [1, 3], [3, 3]])}
    LAT_F = [0.0, 0.0, -0.0, -4.0, -2.0, -1.0, -0.5, -0.25, 0.25, 0.5, 1.0, 1.0, 2.0, 3.0, 4.0]
    for i in range(400 if q else 3000):
        allow = rng.random() < 0.5
        if i % 3 < 2:
            f = [rng.choice(LAT_F) if rng.random() < 0.45 else rng.choice(LAT_F[3:]) if rng.random() < 0.5 else rng.choice(LAT_F[8:])
                 for _ in range(3)]
            yield {"op": "nuscale", "stream": "lattice", "f": f, "allow": allow}
        else:
            f = [gens.scale_of(rng) * (rng.choice([-1, 1]) if rng.random() < 0.3 else 1) for _ in range(3)]
            yield {"op": "nuscale", "stream": "float", "f": f, "allow": allow}
    for i in range(200 if q else 1500):
        allow = rng.random() < 0.5
        if i % 2 == 0:
            yield {"op": "uscale", "stream": "lattice", "s": rng.choice(LAT_F), "allow": allow}
        else:
            yield {"op": "uscale", "stream": "float", "s": gens.scale_of(rng) * rng.choice([-1, 1, 1]), "allow": allow}
    # ---- apply
    for i in range(500 if q else 4000):
        k = rng.choice([0, 1, 1, 1, 2, 3, 5, 8]) if rng.random() < 0.95 else rng.randint(20, 50)
        stream = "lattice" if i % 2 == 0 else "float"
        yield {"op": "apply", "stream": stream, "M": gen_matrix(rng, rng.choice(["trans", "scale", "rot", "lat", "proj"]) if stream == "lattice" else None),
               "k": k, "single": k == 1 and rng.random() < 0.6, "dz": rng.random() < 0.3, "av": rng.random() < 0.4,
               "ptseed": rng.randrange(1 << 30)}
    for i in range(6 if q else 40):
        yield {"op": "apply-shape", "stream": "malformed", "what": rng.choice(["M33", "M34", "M16", "p2", "p4", "pk2", "pk4"])}
    # ---- compose
    for i in range(400 if q else 3000):
        n = rng.choice([0, 1, 2, 2, 2, 3, 3, 4])
        stream = "lattice" if i % 2 == 0 else "float"
        # about a third of the lists contain a non-affine matrix ("lat" / "proj" / "any": last row != (0,0,0,1)); the
        # composition-order clause is false for those on the real code (known finding compose/order/non-affine)
        kinds = (["trans", "scale", "rot", "trans", "scale", "rot", "lat", "proj"] if stream == "lattice"
                 else ["trans", "scale", "rotq", "trs", "anyaffine", "trans", "rotq", "any", "proj"])
        yield {"op": "compose", "stream": stream, "Ms": [gen_matrix(rng, rng.choice(kinds)) for _ in range(n)],
               "ptseed": rng.randrange(1 << 30)}
    for i in range(4 if q else 20):
        yield {"op": "compose-shape", "stream": "malformed", "pos": rng.randrange(3), "shape": rng.choice([[3, 3], [4], [3, 4], [4, 4, 1]])}


# ---------------------------------------------------------------------------------------------------
# cases

def make(spec):
    return MAKERS[spec["op"]](spec)


def expect_error(spec, thunk, klass, want="ValueError"):
    """oracle-only case: the call must raise `want`"""
    def oracle(r):
        if r[0] == "err" and r[1] == want:
            return []
        return [(klass + "/raises-" + want, "%s: expected %s, got %s" % (spec, want, r[1] if r[0] == "err" else "a value"))]
    return Case(spec, None, thunk, klass=klass + "/" + spec["stream"], oracle=oracle)


# ---- euler

def euler_args(spec):
    a = spec["angles"]
    return a if not isinstance(a, list) else list(a)


def elem(axis, th):
    c, s = math.cos(th), math.sin(th)
    if axis == "x":
        return np.array([[1, 0, 0], [0, c, -s], [0, s, c]])
    if axis == "y":
        return np.array([[c, 0, s], [0, 1, 0], [-s, 0, c]])
    if axis == "z":
        return np.array([[c, -s, 0], [s, c, 0], [0, 0, 1]])
    return np.eye(3)


def make_euler(spec):
    from polliwog.transform import euler
    order, units = spec["order"], spec["units"]
    a = spec["angles"]
    alist = a if isinstance(a, list) else [a]
    axes = [AXIS_CODE.get(ch, 3) for ch in order]

    def call(angles=a, units=units):
        if spec.get("default_args"):
            return euler(angles)
        return euler(angles, order=order, units=units)

    line = Line("c11.euler").b(units == "deg").ints(axes).vecs(np.array(alist, dtype=np.float64))
    n = min(len(alist), len(order))
    kl = "euler/%s/%s/n%d" % (spec["stream"], units, n)

    def oracle(_r):
        out = []
        R = np.asarray(call(), dtype=np.float64)
        if R.shape != (3, 3):
            return [("euler/shape", "euler returned shape %s" % (R.shape,))]
        amax = max([abs(x) for x in alist] + [1.0])
        tol = 1e-12 + 4e-16 * amax * (math.pi / 180 if units == "deg" else 1.0) * 8
        G = R.T.dot(R)
        if np.max(np.abs(G - np.eye(3))) > 1e-12:
            out.append(("euler/orthogonal", "R^T R differs from I by %g for %s" % (np.max(np.abs(G - np.eye(3))), spec)))
        if abs(np.linalg.det(R) - 1) > 1e-12:
            out.append(("euler/det", "det = %r for %s" % (float(np.linalg.det(R)), spec)))
        # product order: E_n ... E_1 (each elementary matrix independently rebuilt with math.cos/sin)
        rad = [x * math.pi / 180 for x in alist] if units == "deg" else list(alist)
        want = np.eye(3)
        for th, ax in zip(rad, order):
            want = elem(ax, th).dot(want)
        if np.max(np.abs(want - R)) > tol * 4:
            out.append(("euler/order", "euler(%s, %r, %r) is not the product of the listed axis rotations applied in order (diff %g)"
                        % (alist, order, units, np.max(np.abs(want - R)))))
        # the other unit gives the same rotation
        if not spec.get("default_args") and isinstance(a, list):
            other = [math.degrees(x) for x in alist] if units == "rad" else [math.radians(x) for x in alist]
            R2 = np.asarray(euler(other, order=order, units="deg" if units == "rad" else "rad"))
            if np.max(np.abs(R2 - R)) > tol * 8:
                out.append(("euler/units-agree", "degrees and radians disagree by %g for %s" % (np.max(np.abs(R2 - R)), spec)))
        # a single axis: right-handed rotation about that axis (axis fixed, next basis vector turns towards the third)
        if n == 1 and order[0] in "xyz":
            i = "xyz".index(order[0])
            th = rad[0]
            e = np.eye(3)
            if np.max(np.abs(R.dot(e[i]) - e[i])) > tol:
                out.append(("euler/axis-fixed", "single-axis rotation moves its axis: %s" % spec))
            j, k_ = (i + 1) % 3, (i + 2) % 3
            if np.max(np.abs(R.dot(e[j]) - (math.cos(th) * e[j] + math.sin(th) * e[k_]))) > tol * 4:
                out.append(("euler/right-handed", "single-axis rotation is not right-handed: %s" % spec))
        return dedupe(out)

    return [Case(spec, line, lambda: flat(call()), mode="both", klass=kl, scale=1.0, oracle=oracle)]


# ---- rotation_from_up_and_look

def uplook_vectors(spec):
    if "up" in spec:
        return spec["up"], spec["look"]
    import random
    rng = random.Random(spec["seed"])
    y = np.array(gens.unit(rng))
    t = np.array(gens.unit(rng))
    t = t - t.dot(y) * y
    t /= np.linalg.norm(t)
    lo, hi = math.log(2e-6), math.log(math.pi / 2)
    ang = math.exp(rng.uniform(lo, hi))
    if rng.random() < 0.5:
        ang = math.pi - ang
    look = math.cos(ang) * y + math.sin(ang) * t
    return (y * gens.scale_of(rng)).tolist(), (look * gens.scale_of(rng)).tolist()


def make_uplook(spec):
    from polliwog.transform import rotation_from_up_and_look
    up, look = uplook_vectors(spec)
    U, L = np.array(up, dtype=np.float64), np.array(look, dtype=np.float64)
    line = Line("c11.uplook").vec(U).vec(L)
    fu, fl = [Fr(x) for x in U], [Fr(x) for x in L]
    cr = gens.fcross(fu, fl)
    uu, ll = sum(x * x for x in fu), sum(x * x for x in fl)
    cc = sum(x * x for x in cr)
    degenerate = uu == 0 or ll == 0 or cc == 0
    kl = "uplook/%s/%s" % (spec["stream"], "zero-up" if uu == 0 else "zero-look" if ll == 0 else "collinear" if cc == 0 else "ok")

    def oracle(r):
        out = []
        if degenerate:
            if not (r[0] == "err" and r[1] == "ValueError"):
                out.append(("uplook/raises-ValueError", "up=%s look=%s: expected ValueError, got %s" % (up, look, r)))
            return out
        if r[0] == "err":
            return [("uplook/no-raise", "up=%s look=%s raised %s" % (up, look, r[1]))]
        Rm = rotation_from_up_and_look(shcopy(U), shcopy(L))
        if Rm.shape != (3, 3) or Rm.dtype != np.float64:
            return [("uplook/float64", "result has shape %s dtype %s" % (Rm.shape, Rm.dtype))]
        if all(float(x).is_integer() for x in list(U) + list(L)):
            Ri = rotation_from_up_and_look(U.astype(np.int64), L.astype(np.int64))
            if Ri.dtype != np.float64 or not np.array_equal(Ri, Rm):
                out.append(("uplook/float64", "integer arrays give dtype %s / a different matrix" % Ri.dtype))
        sin_ang = math.sqrt(float(cc / (uu * ll)))
        tol = 1e-12 + 8e-16 / sin_ang
        R = FM(Rm)
        G = mmul(R, transpose(R))
        if ident_resid(G) > tol:
            out.append(("uplook/orthogonal", "R R^T differs from I by %g (up=%s look=%s)" % (float(ident_resid(G)), up, look)))
        if abs(det3(R) - 1) > tol:
            out.append(("uplook/det", "det = %r (up=%s look=%s)" % (float(det3(R)), up, look)))
        nu, nl = math.sqrt(float(uu)), math.sqrt(float(ll))
        ru = [float(x) for x in mvec(R, fu)]
        if abs(ru[0]) > tol * nu or abs(ru[2]) > tol * nu or abs(ru[1] - nu) > tol * nu + 1e-12 * nu:
            out.append(("uplook/up-to-y", "R.up = %s, expected (0, %r, 0)" % (ru, nu)))
        rl = [float(x) for x in mvec(R, fl)]
        if abs(rl[0]) > tol * nl or not rl[2] > 0:
            out.append(("uplook/look-to-yz", "R.look = %s, expected (0, *, z>0)" % (rl,)))
        return dedupe(out)

    mode = "both"
    return [Case(spec, line, lambda: flat(rotation_from_up_and_look(shcopy(U), shcopy(L))), mode=mode, klass=kl, scale=1.0,
                 oracle=oracle)]


def make_uplook_shape(spec):
    from polliwog.transform import rotation_from_up_and_look
    bad = np.ones(spec["shape"])
    good = np.array([0.0, 1.0, 0.0])
    args = (bad, good) if spec["which"] == "up" else (good, bad)
    return [expect_error(spec, lambda: flat(rotation_from_up_and_look(*args)), "uplook-shape")]


# ---- builders

def pair_impl(f):
    """forward, inverse (ret_inverse_matrix=True) and the ret_inverse_matrix=False result"""
    def g():
        Fw, Iv = f(True)
        F2 = f(False)
        for M in (Fw, Iv, F2):
            if np.asarray(M).shape != (4, 4):
                raise RuntimeError("shape %s" % (np.asarray(M).shape,))
        return flat(Fw) + flat(Iv) + flat(F2)
    return g


def affine_oracle(key, get, action, invertible=True, tol=F(1, 10 ** 12)):
    """last row, action on points, forward*inverse both ways, ret_inverse False = forward"""
    def oracle(r):
        if r[0] == "err":
            return [(key + "/no-raise", "raised %s" % r[1])]
        out = []
        Fw, Iv, F2 = get()
        A, B = FM(Fw), FM(Iv)
        if FM(F2) != A:
            out.append((key + "/ret-inverse-flag", "the matrix returned without ret_inverse_matrix differs from the forward matrix"))
        for nm, M in (("forward", A), ("inverse", B)):
            if M[3] != [0, 0, 0, 1]:
                out.append((key + "/last-row", "%s matrix has last row %s" % (nm, [float(x) for x in M[3]])))
        for p in ([0, 0, 0], [1, 0, 0], [0, 1, 0], [0, 0, 1], [F(3, 2), -2, F(5, 4)]):
            got = mvec(A, [F(x) for x in p] + [1])[:3]
            want = action([F(x) for x in p])
            sc = max([abs(x) for x in want] + [1])
            if any(abs(g - w) > tol * sc for g, w in zip(got, want)):
                out.append((key + "/action", "forward matrix sends %s to %s, documented action gives %s"
                            % (p, [float(x) for x in got], [float(x) for x in want])))
        if invertible:
            for nm, P in (("forward*inverse", mmul(A, B)), ("inverse*forward", mmul(B, A))):
                if ident_resid(P) > tol:
                    out.append((key + "/inverse", "%s differs from the identity by %g" % (nm, float(ident_resid(P)))))
        return dedupe(out)
    return oracle


def make_rot(spec):
    from polliwog.transform import transform_matrix_for_rotation
    R = quat_rot(spec["q"]) if "q" in spec else np.array(spec["R"], dtype=np.float64)
    f = lambda inv: transform_matrix_for_rotation(shcopy(R), ret_inverse_matrix=inv)
    is_rot = spec["stream"] != "any3x3"
    RF = FM(R)
    orc = affine_oracle("rotation", lambda: (*f(True), f(False)), lambda p: mvec(RF, p), invertible=is_rot)
    return [Case(spec, Line("c11.aff.rot").vec(R), pair_impl(f), mode="both", klass="aff.rot/" + spec["stream"],
                 scale=max(gens.maxabs(R), 1.0), oracle=orc)]


def make_rot_rodvec(spec):
    from polliwog.transform import rodrigues_vector_to_rotation_matrix, transform_matrix_for_rotation
    r = np.array(spec["r"], dtype=np.float64)
    f = lambda inv: transform_matrix_for_rotation(shcopy(r), ret_inverse_matrix=inv)

    def oracle(res):
        R3 = FM(rodrigues_vector_to_rotation_matrix(shcopy(r)))
        out = affine_oracle("rotation-rodvec", lambda: (*f(True), f(False)), lambda p: mvec(R3, p))(res)
        A = FM(f(False))
        blk = [row[:3] for row in A[:3]]
        if ident_resid(mmul(transpose(blk), blk)) > F(1, 10 ** 11) or abs(det3(blk) - 1) > F(1, 10 ** 11):
            out.append(("rotation-rodvec/proper", "3x3 block is not a proper rotation for r=%s" % spec["r"]))
        return dedupe(out)
    return [Case(spec, None, pair_impl(f), klass="aff.rot/rodvec", oracle=oracle)]


def make_rot_shape(spec):
    from polliwog.transform import transform_matrix_for_rotation
    return [expect_error(spec, lambda: flat(transform_matrix_for_rotation(np.ones(spec["shape"]))), "aff.rot-shape")]


def make_trans(spec):
    from polliwog.transform import transform_matrix_for_translation
    v = np.array(spec["v"], dtype=np.float64)
    f = lambda inv: transform_matrix_for_translation(shcopy(v), ret_inverse_matrix=inv)
    fv = [Fr(x) for x in v]
    orc = affine_oracle("translation", lambda: (*f(True), f(False)), lambda p: [a + b for a, b in zip(p, fv)], tol=F(0))
    return [Case(spec, Line("c11.aff.trans").vec(v), pair_impl(f), mode="both", klass="aff.trans/" + spec["stream"],
                 scale=max(gens.maxabs(v), 1.0), oracle=orc)]


def make_trans_shape(spec):
    from polliwog.transform import transform_matrix_for_translation
    return [expect_error(spec, lambda: flat(transform_matrix_for_translation(np.ones(spec["shape"]))), "aff.trans-shape")]


def scale_cases(spec, f, line, factors, allow, name):
    zero = any(x == 0 for x in factors)
    neg = any(x < 0 for x in factors)
    must_raise = zero or (neg and not allow)
    fx = [Fr(x) for x in factors]
    inner = affine_oracle(name, lambda: (*f(True), f(False)), lambda p: [a * b for a, b in zip(p, fx)])

    def oracle(r):
        if must_raise:
            out = []
            if not (r[0] == "err" and r[1] == "ValueError"):
                out.append((name + "/raises-ValueError", "factors %s allow_flipping=%s: expected ValueError, got %s"
                            % (factors, allow, r[1] if r[0] == "err" else "a value")))
            # the ret_inverse_matrix=False form must reject as well
            try:
                f(False)
                out.append((name + "/raises-ValueError", "factors %s allow_flipping=%s accepted without ret_inverse_matrix" % (factors, allow)))
            except ValueError:
                pass
            return dedupe(out)
        return inner(r)
    branch = "zero" if zero else ("neg-rejected" if neg and not allow else "neg-allowed" if neg else "pos")
    sc = max([abs(x) for x in factors] + [1.0 / abs(x) for x in factors if x != 0] + [1.0])
    return [Case(spec, line, pair_impl(f), mode="both", klass="%s/%s/%s" % (name, spec["stream"], branch), scale=sc,
                 oracle=oracle)]


def make_nuscale(spec):
    from polliwog.transform import transform_matrix_for_non_uniform_scale
    x, y, z = spec["f"]
    allow = spec["allow"]
    f = lambda inv: transform_matrix_for_non_uniform_scale(x, y, z, allow_flipping=allow, ret_inverse_matrix=inv)
    return scale_cases(spec, f, Line("c11.aff.nuscale").b(allow).f(x, y, z), [x, y, z], allow, "aff.nuscale")


def make_uscale(spec):
    from polliwog.transform import transform_matrix_for_uniform_scale
    s = spec["s"]
    allow = spec["allow"]
    f = lambda inv: transform_matrix_for_uniform_scale(s, allow_flipping=allow, ret_inverse_matrix=inv)
    return scale_cases(spec, f, Line("c11.aff.uscale").b(allow).f(s), [s, s, s], allow, "aff.uscale")


# ---- apply / compose

def points_of(spec, k):
    import random
    if "pts" in spec:
        return [list(p) for p in spec["pts"]][:k]
    rng = random.Random(spec["ptseed"])
    if spec["stream"] == "lattice":
        return [gens.lat(rng, 4, rng.choice([1, 2, 4])) for _ in range(k)]
    s = gens.scale_of(rng, -3, 3)
    return [gens.fvec(rng, s) for _ in range(k)]


def make_apply(spec):
    from polliwog.transform import apply_transform
    M = np.asarray(build_matrix(spec["M"]), dtype=np.float64)
    pts = points_of(spec, spec["k"])
    P = np.array(np.reshape(pts, (-1, 3)), dtype=np.float64)
    single = spec["single"] and len(pts) == 1
    dz, av = spec["dz"], spec["av"]
    width = 2 if dz else 3
    arg = (lambda: shcopy(P[0])) if single else (lambda: shcopy(P))

    def run():
        return apply_transform(shcopy(M))(arg(), discard_z_coord=dz, treat_input_as_vector=av)

    def impl():
        r = np.asarray(run())
        want = (width,) if single else (len(pts), width)
        if r.shape != want:
            raise RuntimeError("result shape %s, expected %s" % (r.shape, want))
        return [len(pts)] + flat(r)

    scale = max(gens.maxabs(M), 1.0) * max(gens.maxabs(P), 1.0)

    def oracle(r):
        if r[0] == "err":
            return [("apply/no-raise", "apply raised %s on %s" % (r[1], spec))]
        out = []
        A = FM(M)
        got = np.asarray(run(), dtype=np.float64).reshape(-1, width)
        tol = F(1, 10 ** 12) * Fr(scale)
        w = 0 if av else 1
        for i, p in enumerate(P):
            want = mvec(A, [Fr(x) for x in p] + [F(w)])[:width]
            if any(abs(Fr(g) - x) > tol for g, x in zip(got[i], want)):
                out.append(("apply/homogeneous-w%d" % w, "apply(%s) = %s, M.(p,%d) = %s" % (p.tolist(), got[i].tolist(), w, [float(x) for x in want])))
            # a stack is the single call row by row
            one = np.asarray(apply_transform(shcopy(M))(shcopy(p), discard_z_coord=dz, treat_input_as_vector=av))
            if one.shape != (width,) or any(abs(Fr(a) - Fr(b)) > tol for a, b in zip(one, got[i])):
                out.append(("apply/stack-is-map", "row %d of the stacked result differs from the single call" % i))
        return dedupe(out)

    line = Line("c11.apply").b(dz, av).vec(M).vecs(P)
    kl = "apply/%s/%s%s%s" % (spec["stream"], "single" if single else ("k0" if not pts else "stack"),
                            "/dz" if dz else "", "/vec" if av else "")
    return [Case(spec, line, impl, mode="both", klass=kl, trivial=len(pts) == 0, scale=scale, oracle=oracle)]


def make_apply_shape(spec):
    from polliwog.transform import apply_transform
    w = spec["what"]
    if w.startswith("M"):
        shp = {"M33": (3, 3), "M34": (3, 4), "M16": (16,)}[w]
        return [expect_error(spec, lambda: apply_transform(np.ones(shp)), "apply-shape")]
    shp = {"p2": (2,), "p4": (4,), "pk2": (5, 2), "pk4": (5, 4)}[w]
    return [expect_error(spec, lambda: flat(apply_transform(np.eye(4))(np.ones(shp))), "apply-shape")]


def make_compose(spec):
    from polliwog.transform import apply_transform, compose_transforms
    Ms = [np.asarray(build_matrix(m), dtype=np.float64) for m in spec["Ms"]]
    line = Line("c11.compose").i(len(Ms))
    for M in Ms:
        line.vec(M)
    scale = 1.0
    for M in Ms:
        scale *= 4 * max(gens.maxabs(M), 1.0)

    def impl():
        r = np.asarray(compose_transforms(*[M.copy() for M in Ms]))
        if r.shape != (4, 4):
            raise RuntimeError("shape %s" % (r.shape,))
        return flat(r)

    def oracle(r):
        if r[0] == "err":
            return [("compose/no-raise", "compose raised %s" % r[1])]
        out = []
        C = FM(compose_transforms(*[M.copy() for M in Ms]))
        tol = F(1, 10 ** 12) * Fr(scale)
        if not Ms:
            if ident_resid(C) != 0:
                out.append(("compose/nil-is-identity", "compose_transforms() is not the identity"))
            return out
        # matrix level: compose(t1..tn) = tn ... t1
        want = FM(Ms[0])
        for M in Ms[1:]:
            want = mmul(FM(M), want)
        if max(abs(a - b) for ra, rb in zip(C, want) for a, b in zip(ra, rb)) > tol:
            out.append(("compose/product", "compose_transforms differs from t_n ... t_1"))
        # point level, as the property states it for all 4x4 matrices: apply(compose(A, B, ..))(p) = apply(..)(apply(B)(apply(A)(p))).
        # apply_transform drops the 4th coordinate without dividing, so the clause can only fail when a matrix that is
        # not the last one is non-affine: that is the listed finding compose/order/non-affine; for affine prefixes a
        # difference is a new violation (compose/left-to-right).
        affine = [list(M[3]) == [0.0, 0.0, 0.0, 1.0] for M in Ms]
        pts = np.array(np.reshape(points_of(spec, 3), (-1, 3)), dtype=np.float64)
        got = apply_transform(compose_transforms(*[M.copy() for M in Ms]))(shcopy(pts))
        step = [[Fr(x) for x in p] for p in pts]
        seq = pts.copy()
        for M in Ms:
            A = FM(M)
            step = [mvec(A, p + [F(1)])[:3] for p in step]
            seq = apply_transform(shcopy(M))(seq)          # the real code, one transform after the other
        mag = max([abs(x) for p in step for x in p] + [Fr(scale) * max(Fr(gens.maxabs(pts)), 1)])
        key = "compose/left-to-right" if all(affine[:-1]) else "compose/order/non-affine"
        for g, s_, q, p in zip(got, step, seq, pts):
            if any(abs(Fr(a) - b) > F(1, 10 ** 11) * mag for a, b in zip(g, s_)) or \
                    any(abs(Fr(a) - Fr(b)) > F(1, 10 ** 11) * mag for a, b in zip(g, q)):
                out.append((key, "applying compose(A, B, ..) to %s gives %s, applying A, then B, .. gives %s (last rows %s)"
                            % (p.tolist(), g.tolist(), [float(x) for x in s_], [[float(x) for x in M[3]] for M in Ms])))
        return dedupe(out)

    kl = "compose/%s/n%d/%s" % (spec["stream"], len(Ms),
                                "affine" if all(list(M[3]) == [0.0, 0.0, 0.0, 1.0] for M in Ms) else "projective")
    return [Case(spec, line, impl, mode="both", klass=kl, trivial=len(Ms) == 0, scale=scale, oracle=oracle)]


def make_compose_shape(spec):
    from polliwog.transform import compose_transforms
    Ms = [np.eye(4) for _ in range(3)]
    Ms[spec["pos"]] = np.ones(spec["shape"])
    return [expect_error(spec, lambda: flat(compose_transforms(*Ms)), "compose-shape")]


MAKERS = {"euler": make_euler, "uplook": make_uplook, "uplook-shape": make_uplook_shape, "rot": make_rot,
          "rot-rodvec": make_rot_rodvec, "rot-shape": make_rot_shape, "trans": make_trans, "trans-shape": make_trans_shape,
          "nuscale": make_nuscale, "uscale": make_uscale, "apply": make_apply, "apply-shape": make_apply_shape,
          "compose": make_compose, "compose-shape": make_compose_shape}
