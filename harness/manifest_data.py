NOTES = ("Every check: regenerate PW/Gen from /repo, lake build of the property's theorems, #print axioms audit "
         "(propext, Classical.choice, Quot.sound only), forbidden-construct grep, correspondence of the Lean model "
         "(compiled driver, exact rationals + IEEE doubles) against the real polliwog on seeded structured inputs, "
         "property oracle for failing-input search, known_findings.json. See DESIGN.md.")

NOT_APPLICABLE = {}

COMMON_NOTE = ("Trusted: Lean kernel; axioms propext/Classical.choice/Quot.sound; the translator and the correspondence "
               "check (strength bounded by its generators; coverage printed in the evidence). Theorems are over exact ordered "
               "fields: IEEE rounding is not modelled and is bridged by tolerance 1e-9*scale in the correspondence. ")

CHECKS = {
    "C05": {
        "text": "25 theorems over every linearly ordered field: signed_distance = (p-ref).n, sign/in-front/on-or-in-front "
                "classification and the two partitions for every point list, projection/mirror/flip laws (general normal and unit normal), "
                "equation/canonical point, module-level functions = methods, stacked = row-wise. The model is tied to the code by "
                "executing it (exact rationals and doubles) against the real Plane methods and module functions on lattice and float streams.",
        "note": COMMON_NOTE + "Modelled, not verified: vg.dot/np.sign/np.flatnonzero as list functions; Plane constructors only provide (reference_point, normal).",
    },
}
