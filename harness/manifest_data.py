NOTES = ("Every check: regenerate PW/Gen from /repo, lake build of the property's theorems, #print axioms audit "
         "(propext, Classical.choice, Quot.sound only), forbidden-construct grep, correspondence of the Lean model "
         "(compiled driver, exact rationals + IEEE doubles) against the real polliwog on seeded structured inputs, "
         "property oracle for failing-input search, known_findings.json. See DESIGN.md.")

NOT_APPLICABLE = {}

COMMON_NOTE = ("Trusted: Lean kernel; axioms propext/Classical.choice/Quot.sound; the translator and the correspondence "
               "check (strength bounded by its generators; coverage printed in the evidence). Theorems are over exact ordered "
               "fields: IEEE rounding is not modelled and is bridged by tolerance 1e-9*scale in the correspondence. ")

CHECKS = {
    "C05": {
        "text": "25 theorems over every linearly ordered field: signed_distance = (p-ref).n, sign/in-front/on-or-in-front "
                "classification and the two partitions for every point list, projection/mirror/flip laws (general normal and unit normal), "
                "equation/canonical point, module-level functions = methods, stacked = row-wise. The model is tied to the code by "
                "executing it (exact rationals and doubles) against the real Plane methods and module functions on lattice and float streams.",
        "note": COMMON_NOTE + "Modelled, not verified: vg.dot/np.sign/np.flatnonzero as list functions; Plane constructors only provide (reference_point, normal).",
    },
    "C13": {
        "text": "21 theorems (all in full): constructor accepts iff | |n|-1 | <= 0.1^d else ValueError (NaN normal always refused); "
                "from_point_and_normal gives n/|n|; from_points passes through the three points with the normalised cross product on the "
                "counter-clockwise side, collinear -> ValueError; from_points_and_vector contains both points and is parallel to the vector; "
                "plane_normal/equation_from_points and normal_and_offset agree with from_points (single and stacked); fit_from_points passes "
                "through the centroid and minimises the sum of squared distances (complete Rayleigh argument from an orthonormal eigenbasis); "
                "tilted contains both points; xy/xz/yz and the default decimals are regenerated from the source. Model tied by correspondence "
                "(Float and exact rational runs) over every constructor.",
        "note": COMMON_NOTE + "np.linalg.eigh is a parameter of the model (its eigenpairs are passed as data; orthonormality/eigen-equation residuals "
                "are checked by the oracle); dtype/read-only/fresh-copy are observed tags; np.cov, libm sin/cos/acos in the Float run are not verified.",
    },
}
