NOTES = ("Every check: regenerate PW/Gen from /repo, lake build of the property's theorems, #print axioms audit "
         "(propext, Classical.choice, Quot.sound only), forbidden-construct grep, correspondence of the Lean model "
         "(compiled driver, exact rationals + IEEE doubles) against the real polliwog on seeded structured inputs, "
         "property oracle for failing-input search, known_findings.json. See DESIGN.md.")

NOT_APPLICABLE = {}

COMMON_NOTE = ("Trusted: Lean kernel; axioms propext/Classical.choice/Quot.sound; the translator and the correspondence "
               "check (strength bounded by its generators; coverage printed in the evidence). Theorems are over exact ordered "
               "fields: IEEE rounding is not modelled and is bridged by tolerance 1e-9*scale in the correspondence. ")

CHECKS = {
    "C05": {
        "text": "25 theorems over every linearly ordered field: signed_distance = (p-ref).n, sign/in-front/on-or-in-front "
                "classification and the two partitions for every point list, projection/mirror/flip laws (general normal and unit normal), "
                "equation/canonical point, module-level functions = methods, stacked = row-wise. The model is tied to the code by "
                "executing it (exact rationals and doubles) against the real Plane methods and module functions on lattice and float streams.",
        "note": COMMON_NOTE + "Modelled, not verified: vg.dot/np.sign/np.flatnonzero as list functions; Plane constructors only provide (reference_point, normal).",
    },
    "C13": {
        "text": "21 theorems (all in full): constructor accepts iff | |n|-1 | <= 0.1^d else ValueError (NaN normal always refused); "
                "from_point_and_normal gives n/|n|; from_points passes through the three points with the normalised cross product on the "
                "counter-clockwise side, collinear -> ValueError; from_points_and_vector contains both points and is parallel to the vector; "
                "plane_normal/equation_from_points and normal_and_offset agree with from_points (single and stacked); fit_from_points passes "
                "through the centroid and minimises the sum of squared distances (complete Rayleigh argument from an orthonormal eigenbasis); "
                "tilted contains both points; xy/xz/yz and the default decimals are regenerated from the source. Model tied by correspondence "
                "(Float and exact rational runs) over every constructor.",
        "note": COMMON_NOTE + "np.linalg.eigh is a parameter of the model (its eigenpairs are passed as data; orthonormality/eigen-equation residuals "
                "are checked by the oracle); dtype/read-only/fresh-copy are observed tags; np.cov, libm sin/cos/acos in the Float run are not verified.",
    },
    "C01": {
        "text": "14 theorems over every linearly ordered field about the per-face kernel: the translated constants/tables (tol=1e-8, sign convention, %3 offsets, "
                "quads_to_tris columns, case predicates, clamp expression) are what the model uses; the complete 27-pattern case table (kept / dropped / quad / triangle); "
                "every output corner is a convex combination of its source face's corners (for every input); no output corner of a selected face is behind the plane by "
                "more than tol, new corners have offset in [0,tol]; each output triangle's area vector is a non-negative multiple of the face's and the multiples sum to <= 1; "
                "pointwise tiling: the cut triangle / the two quad triangles are exactly {x in face | capped offset >= 0}, hence {d>tol} within outputs within {d>=-tol}, with equality "
                "to {d>=0} when on-corners are not in front. C02_mesh_lift carries these to the returned arrays. Model tied to the code by correspondence of assembly and kernel "
                "(exact rationals + doubles), incl. the exhaustive 343 corner-offset patterns.",
        "note": COMMON_NOTE + "np.einsum/fancy indexing/np.append/np.roll are modelled as list functions. Offsets within 1e-3*tol of the +-1e-8 threshold are not generated.",
    },
    "C02": {
        "text": "14 theorems: the unique_bincount renumbering is correct for every valid indexed mesh (indices valid, no orphans, positions preserved, increasing old index); "
                "the assembly sliceMesh (all three return paths) returns, paired with its face mapping, exactly the kernel's triangles of the kept faces, then quads, then triangles, "
                "each tagged with its source face (mesh lift: induction over the face list, appended vertex pairs, renumbering); provenance and completeness; empty inputs; "
                "idempotence of re-slicing; the output is a function of the positional faces only (vertex numbering independence) and permuting faces permutes the output. "
                "Complementarity with the flipped plane is corr-only (exact area comparison in the oracle) - partial. dtypes are observed tags.",
        "note": COMMON_NOTE + "np.bincount/cumsum/where modelled as list functions; complementarity clause and dtypes rest on the correspondence/oracle only.",
    },
    "C06": {
        "text": "37 theorems (all in full, incl. the code-shaped runs/vsplit slicer = span-shaped slicer = declarative unique-run spec, cyclic for closed polylines via the roll+append "
                "reduction, for every vertex list over every ordered field): result = entry ++ run ++ exit with on-plane neighbour or strict-interior crossing, interior vertices are an "
                "infix of the input, no row behind the plane, rows finite, result open, ValueError exactly when no unique run exists. Tie: exhaustive enumeration of all front/on/behind "
                "sign sequences (len 0..6 quick, 0..9 thorough, open and closed) at exact rationals + float stream.",
        "note": COMMON_NOTE + "np.roll/vsplit/nan_to_num modelled as list functions with explicit branches.",
    },
    "C15": {
        "text": "56 theorems (all in full): translated tables/constants (quad picks, edge columns, cross rows, searchsorted side, reflect test, seed) equal the model's; normals = cross product, "
                "cyclic/translation invariance, negation under swap; area = half norm; barycentric weights sum to 1 and reconstruct the orthogonal projection (guard branch separately); "
                "containment iff all weights >= 0; sampling with the RNG draws as data: count, inside the named triangle, choice interval [cum_{i-1}, cum_i), never a zero-weight face for "
                "every draw in [0,1), determinism; quads_to_tris winding and edges_of_faces once-each by decide on generated tables. Tie: lattice/float/sampling streams with cloned generators.",
        "note": COMMON_NOTE + "np.searchsorted modelled as 'number of leading entries <= x' on non-decreasing cumulative weights; rng.random values are passed to the model as data.",
    },
    "C07": {
        "text": "44 theorems: closest_point_of_line_segment is optimal over the whole segment with 0<=t<=1 (zero-length branch explicit); is_point_on_line_segment iff squared distance <= eps^2; "
                "nearest: valid index, point = start + t*vector, first-minimal index, distance minimal over every point of every segment (ordered field for squared distances, R for distances), "
                "stacked = map; flag logic: every requested output returned for all flag sets except ret_t_values alone (known finding: defect witness proved, full statement kept as a def and proved false of the model); "
                "sub-path selection (sliced_at_points, aligned_along_subsegment) proved under explicit landing-segment hypotheses - partial. Tie: lattice/float/degenerate chains, all 8 flag subsets, exact-Fraction optimum oracle.",
        "note": COMMON_NOTE + "Sub-path clause is partial (that a non-self-touching polyline implies the index hypotheses is not formalised; closing-edge/wrap original-index versions missing). np.argmin first-index rule modelled.",
    },
    "C09": {
        "text": "37 theorems (all in full): edges/num_e/segments, flipped involution, rolled for any integer index incl. its edge mapping, sliced_at_indices (wrap / reversed -> ValueError), sectioned, join, "
                "NumPy-insert semantics with a declarative characterisation and the repaired index maps for every index list in -num_v..num_v with repeats (new[orig_idx[j]] = old[j], new[ins_idx[m]] = points[m]), "
                "index_of_vertex lowest match, apex first arg-max, bounding_box, aligned_with, and the error classes. Tie: random operation programs (each op applied to earlier results) with the whole "
                "program replayed in the model; immutability / read-only flags / no aliasing observed after every op; exhaustive insertion multisets n<=4,k<=3.",
        "note": COMMON_NOTE + "read-only flags, fresh-copy and aliasing observations are runtime tags, not theorems. Insertion indices below -num_v are outside the property and not generated.",
    },
    "C14": {
        "text": "29 theorems (all in full, any ordered field, no unit-normal hypothesis): the coordinate-wise bounds test rejects iff the line parameter is outside [0,1] (axis-parallel equal coordinates included); "
                "for endpoints strictly on opposite sides all four routines return a + (d_a/(d_a-d_b))(b-a), the unique point of the segment with signed distance 0, polyline entries one per crossing edge with ascending "
                "edge indices; same side -> None / NaN row / no entry; exactly one endpoint on the plane -> that endpoint from the three segment routines; line form unique point / None for parallel; stacked = map. "
                "Tie: exact lattice segments vs lattice planes (thorough: every ordered pair of {-2..2}^3 against 10 planes), float stream with margins.",
        "note": COMMON_NOTE + "nan_to_num(inf) value passed as a parameter `big`; behaviour with both endpoints on the plane (outside the property) is stated as separate theorems.",
    },
    "C19": {
        "text": "50 theorems (all in full): a Draft-7 interpreter for the subset used, run on the schema regenerated from schema.json: a document validates iff it is an object with exactly the two required keys, "
                "isClosed boolean, every vector exactly three numbers (bool/str/null/arr/obj are not numbers) - both directions, hence every single-fault corruption is refused; deserialize never constructs from refused data; "
                "round-half-even error <= half a unit of the last decimal; deserialize(serialize(p,d)) = rounded(p,d) for polylines (empty included) and planes; rounded/serialize succeed for every non-negative number of "
                "decimals on a unit normal (|norm(round n) - 1| <= (sqrt3/2) 10^-d). Tie: real jsonschema + json.dumps/loads, decimals 0..12, all single-fault corruptions.",
        "note": COMMON_NOTE + "json.dumps/loads and jsonschema are external (compared, not verified); np.around's float multiply/divide compared with tolerance, exact ties where the float product is inexact are dropped as undetermined.",
    },
    "C18": {
        "text": "38 theorems (all in full): projection onto a line lands on the line, residual perpendicular, norm-closest and unique (algebraic form over any ordered field, vg.normalize form over R), "
                "single / many-to-one / pairwise / one-to-many = row-wise; Line rejects almost-zero directions (model of vg.almost_zero); the faithful model of intersect_lines (|h|/|k|, sign of h.k, "
                "shortcuts incl. the dead duplicate) equals the sqrt-free closed form p0 - ((h.k)/(k.k)) e, which is sound (a returned point lies on both lines) and complete (a unique common point is "
                "returned for every incidence pattern of the four points; None for parallel/collinear/skew); 2-D: Cramer, None iff det = 0, sound and complete for any solver meeting the contract. "
                "Tie: exact classification oracle on lattice line pairs (thorough: all 27^4 quadruples of {-1..1}^3 and 25^4 of {-2..2}^2 plus samples of the larger boxes) + float lines.",
        "note": COMMON_NOTE + "np.linalg.solve is a parameter (contract: solves the system when det != 0; the executable model uses Cramer). Directions with |v|^2 overflowing/underflowing doubles are not generated. "
                "Known finding: non-zero directions with all components <= 1e-8 are rejected by Line (vg.almost_zero convention).",
    },
}
