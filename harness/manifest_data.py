NOTES = ("Every check: regenerate PW/Gen from /repo, lake build of the property's theorems, #print axioms audit "
         "(propext, Classical.choice, Quot.sound only), forbidden-construct grep, correspondence of the Lean model "
         "(compiled driver, exact rationals + IEEE doubles) against the real polliwog on seeded structured inputs, "
         "property oracle for failing-input search, known_findings.json. About one case in eight is also run as the second "
         "call of a history pair (the caller's argument objects reused / updated in place / results edited, pwlib/share.py), "
         "compared with the model's answer for that call alone; about one lattice case in six is also run with its whole-number "
         "arguments handed to the library as int64 arrays, and one case in twelve with its arguments as non-contiguous views, "
         "write-protected or column-major arrays, or with Python bools / floats as NumPy scalars (same mathematical input, same "
         "expected answer). 'Source ties' are gen_* theorems equating literals read from "
         "the Python source by the translator (operators, offsets, coefficients, refusal order, raised classes) with what the "
         "model uses. See DESIGN.md.")

NOT_APPLICABLE = {}

COMMON_NOTE = ("Trusted: Lean kernel; axioms propext/Classical.choice/Quot.sound; the translator and the correspondence "
               "check (strength bounded by its generators; coverage printed in the evidence). Theorems are over exact ordered "
               "fields: IEEE rounding is not modelled and is bridged by tolerance 1e-9*scale in the correspondence. ")

CHECKS = {
    "C05": {
        "text": "25 theorems + 7 source ties over every linearly ordered field: signed_distance = (p-ref).n, sign/in-front/on-or-in-front "
                "classification and the two partitions for every point list, projection/mirror/flip laws (general normal and unit normal), "
                "equation/canonical point, module-level functions = methods, stacked = row-wise. The model is tied to the code by "
                "executing it (exact rationals and doubles) against the real Plane methods and module functions on lattice and float streams.",
        "note": COMMON_NOTE + "Modelled, not verified: vg.dot/np.sign/np.flatnonzero as list functions; Plane constructors only provide (reference_point, normal).",
    },
    "C13": {
        "text": "21 theorems (all in full): constructor accepts iff | |n|-1 | <= 0.1^d else ValueError (NaN normal always refused); "
                "from_point_and_normal gives n/|n|; from_points passes through the three points with the normalised cross product on the "
                "counter-clockwise side, collinear -> ValueError; from_points_and_vector contains both points and is parallel to the vector; "
                "plane_normal/equation_from_points and normal_and_offset agree with from_points (single and stacked); fit_from_points passes "
                "through the centroid and minimises the sum of squared distances (complete Rayleigh argument from an orthonormal eigenbasis); "
                "tilted contains both points; xy/xz/yz and the default decimals are regenerated from the source. Model tied by correspondence "
                "(Float and exact rational runs) over every constructor.",
        "note": COMMON_NOTE + "np.linalg.eigh is a parameter of the model (its eigenpairs are passed as data; orthonormality/eigen-equation residuals "
                "are checked by the oracle); dtype/read-only/fresh-copy are observed tags; np.cov, libm sin/cos/acos in the Float run are not verified.",
    },
    "C01": {
        "text": "14 theorems over every linearly ordered field about the per-face kernel: the translated constants/tables (tol=1e-8, sign convention, %3 offsets, "
                "quads_to_tris columns, case predicates, clamp expression) are what the model uses; the complete 27-pattern case table (kept / dropped / quad / triangle); "
                "every output corner is a convex combination of its source face's corners (for every input); no output corner of a selected face is behind the plane by "
                "more than tol, new corners have offset in [0,tol]; each output triangle's area vector is a non-negative multiple of the face's and the multiples sum to <= 1; "
                "pointwise tiling: the cut triangle / the two quad triangles are exactly {x in face | capped offset >= 0}, hence {d>tol} within outputs within {d>=-tol}, with equality "
                "to {d>=0} when on-corners are not in front. C02_mesh_lift carries these to the returned arrays. Model tied to the code by correspondence of assembly and kernel "
                "(exact rationals + doubles), incl. the exhaustive 343 corner-offset patterns.",
        "note": COMMON_NOTE + "np.einsum/fancy indexing/np.append/np.roll are modelled as list functions. Offsets within 1e-3*tol of the +-1e-8 threshold are not generated.",
    },
    "C02": {
        "text": "21 theorems: the unique_bincount renumbering is correct for every valid indexed mesh (indices valid, no orphans, positions preserved, increasing old index); "
                "the assembly sliceMesh (all three return paths) returns, paired with its face mapping, exactly the kernel's triangles of the kept faces, then quads, then triangles, "
                "each tagged with its source face (mesh lift: induction over the face list, appended vertex pairs, renumbering); provenance and completeness; empty inputs; "
                "idempotence of re-slicing; the output is a function of the positional faces only (vertex numbering independence) and permuting faces permutes the output. "
                "a mesh wholly behind the plane yields empty arrays. Complementarity (over R, every face selected, on-plane corners exactly on the plane): area of the returned front mesh + area of the mesh "
                "returned for the flipped plane = input area + area of the faces lying in the plane (C02_area_complementary, via per-face area fractions lamOf and the mesh lift); with offsets strictly inside "
                "the tolerance band the identity is false of the code too (defect ~tol) and only the C01 sandwich holds. dtypes are observed tags.",
        "note": COMMON_NOTE + "np.bincount/cumsum/where modelled as list functions; idempotence needs every face selected (unselected faces behind the plane are kept by design and would be dropped by a full re-slice); dtypes are observed tags.",
    },
    "C06": {
        "text": "41 theorems + 10 source ties (all in full; the code-shaped runs/vsplit slicer = span-shaped slicer = declarative unique-run spec, cyclic for closed polylines via the roll+append reduction, for every vertex list over every ordered field; crossing computed from the same signed distances that decide the sides, as the repaired code does): result = entry ++ run ++ exit with on-plane neighbour or a crossing a+t(b-a), t in [0,1) resp. (0,1], on the plane; interior vertices are an infix of the input; no row behind the plane; result open; ValueError exactly when no unique run exists; the same kernel run on signs observed from the implementation refines the same spec. Tie: exhaustive enumeration of all front/on/behind sign sequences (len 0..6 quick, 0..9 thorough, open and closed) at exact rationals, float stream, and a near-plane stream (vertices within a few ulps of the plane, signs taken from the implementation) checking finiteness / on-segment / not-behind.",
        "note": COMMON_NOTE + "np.roll/vsplit/sign modelled as list functions. In the near-plane stream the side of a vertex is whatever plane.sign() says (not determined by exact arithmetic).",
    },
    "C15": {
        "text": "56 theorems (all in full): translated tables/constants (quad picks, edge columns, cross rows, searchsorted side, reflect test, seed) equal the model's; normals = cross product, "
                "cyclic/translation invariance, negation under swap; area = half norm; barycentric weights sum to 1 and reconstruct the orthogonal projection (guard branch separately); "
                "containment iff all weights >= 0; sampling with the RNG draws as data: count, inside the named triangle, choice interval [cum_{i-1}, cum_i), never a zero-weight face for "
                "every draw in [0,1), determinism; quads_to_tris winding and edges_of_faces once-each by decide on generated tables. Tie: lattice/float/sampling streams with cloned generators.",
        "note": COMMON_NOTE + "np.searchsorted modelled as 'number of leading entries <= x' on non-decreasing cumulative weights; rng.random values are passed to the model as data.",
    },
    "C07": {
        "text": "75 theorems: closest_point_of_line_segment optimal over the whole segment with 0<=t<=1 (zero-length branch explicit); is_point_on_line_segment iff squared distance <= eps^2; nearest: valid index, point = start + t*vector, first-minimal index, distance minimal over every point of every segment (squared distances over any ordered field, distances over R), stacked = map; flag logic: every requested output returned for all flag sets except ret_t_values alone (known finding: witness proved, full statement refuted for the model); sub-path clause: for every SIMPLE polyline (non-degenerate segments, non-adjacent disjoint, adjacent meeting only at the shared vertex) and two points on it, nearest finds each point on its own segment, sliced_at_points returns exactly [N_a] ++ vertices between ++ [N_b] in every configuration (forward, wrap, closing edge, same segment both orders, ValueError for backward on open), the two closed sub-paths cover the loop once, aligned_along_subsegment returns the orientation with the forward / shorter sub-path. Remaining hypothesis: the two points are not within atol (1e-8) of each other. Tie: lattice/float/degenerate chains, all 8 flag subsets, every sub-path configuration, exact-Fraction optimum oracle.",
        "note": COMMON_NOTE + "np.argmin first-index rule modelled. Two distinct query points closer than the 1e-8 vertex-matching tolerance are outside the proved sub-path theorem (the code returns a one-vertex polyline) and not generated.",
    },
    "C09": {
        "text": "37 theorems + 7 source ties (all in full): edges/num_e/segments, flipped involution, rolled for any integer index incl. its edge mapping, sliced_at_indices (wrap / reversed -> ValueError), sectioned, join, "
                "NumPy-insert semantics with a declarative characterisation and the repaired index maps for every index list in -num_v..num_v with repeats (new[orig_idx[j]] = old[j], new[ins_idx[m]] = points[m]), "
                "index_of_vertex lowest match, apex first arg-max, bounding_box, aligned_with, and the error classes. Tie: random operation programs (each op applied to earlier results) with the whole "
                "program replayed in the model; immutability / read-only flags / no aliasing observed after every op; exhaustive insertion multisets n<=4,k<=3.",
        "note": COMMON_NOTE + "read-only flags, fresh-copy and aliasing observations are runtime tags, not theorems. Insertion indices below -num_v are outside the property and not generated.",
    },
    "C14": {
        "text": "29 theorems + 7 source ties (all in full, any ordered field, no unit-normal hypothesis): the coordinate-wise bounds test rejects iff the line parameter is outside [0,1] (axis-parallel equal coordinates included); "
                "for endpoints strictly on opposite sides all four routines return a + (d_a/(d_a-d_b))(b-a), the unique point of the segment with signed distance 0, polyline entries one per crossing edge with ascending "
                "edge indices; same side -> None / NaN row / no entry; exactly one endpoint on the plane -> that endpoint from the three segment routines; line form unique point / None for parallel; stacked = map. "
                "Tie: exact lattice segments vs lattice planes (thorough: every ordered pair of {-2..2}^3 against 10 planes), float stream with margins.",
        "note": COMMON_NOTE + "nan_to_num(inf) value passed as a parameter `big`; behaviour with both endpoints on the plane (outside the property) is stated as separate theorems.",
    },
    "C19": {
        "text": "62 theorems (all in full): a Draft-7 interpreter for the subset used, run on the schema regenerated from schema.json: a document validates iff it is an object with exactly the two required keys, isClosed boolean, every vector exactly three numbers - both directions, hence every single-fault corruption is refused; deserialize never constructs from refused data; round-half-even error <= half a unit of the last decimal; deserialize(serialize(p,d)) = rounded(p,d) for polylines (empty included) and planes; rounded/serialize succeed for every non-negative number of decimals for normals that are unit up to a slack |n.n - 1| <= delta (explicit condition; instantiated at 4*2^-52, i.e. normalised in double precision, and d <= 12), exact-unit versions as corollaries. Tie: real jsonschema + json.dumps/loads, decimals 0..12 for every pair of decimals and octant, all single-fault corruptions.",
        "note": COMMON_NOTE + "json.dumps/loads and jsonschema are external (compared, not verified); np.around's float multiply/divide compared with tolerance, exact ties where the float product is inexact (e.g. 0.15 at 1 decimal) are dropped as undetermined.",
    },
    "C18": {
        "text": "38 theorems + 6 source ties + 2 defect witnesses (all in full): projection onto a line lands on the line, residual perpendicular, norm-closest and unique (algebraic form over any ordered field, vg.normalize form over R), "
                "single / many-to-one / pairwise / one-to-many = row-wise; Line rejects almost-zero directions (model of vg.almost_zero); the faithful model of intersect_lines (|h|/|k|, sign of h.k, "
                "shortcuts incl. the dead duplicate) equals the sqrt-free closed form p0 - ((h.k)/(k.k)) e, which is sound (a returned point lies on both lines) and complete (a unique common point is "
                "returned for every incidence pattern of the four points; None for parallel/collinear/skew); 2-D: Cramer, None iff det = 0, sound and complete for any solver meeting the contract. "
                "Tie: exact classification oracle on lattice line pairs (thorough: all 27^4 quadruples of {-1..1}^3 and 25^4 of {-2..2}^2 plus samples of the larger boxes) + float lines.",
        "note": COMMON_NOTE + "np.linalg.solve is a parameter (contract: solves the system when det != 0; the executable model uses Cramer). Directions with |v|^2 overflowing/underflowing doubles are not generated. "
                "Known finding: non-zero directions with all components <= 1e-8 are rejected by Line (vg.almost_zero convention).",
    },
    "C03": {
        "text": "38 theorems over any ordered field: applying a composed matrix = applying the steps one after another (affine steps; homogeneous form for arbitrary matrices; vector mode), every builder is affine, acts as documented and stores a two-sided inverse pair; for every history and every Python slice from_range the call equals the left fold of the step actions over steps[start:stop], reverse composes the stored inverses in reverse order, transform_matrix_for(reverse) * transform_matrix_for() = 1, round trip, vector mode ignores translations, stack = map, discard_z, each appending method returns the old length. The unrestricted clauses (explicit NON-affine matrices) are false of code and model: full statements kept as defs, defect witnesses proved, known finding roundtrip/non-affine-explicit-matrix. Call sites / delegation / returned index regenerated from the source. Tie: random histories of every method (incl. non-affine unimodular explicit matrices) replayed whole in the model.",
        "note": COMMON_NOTE + "Rotations enter the model as 3x3 data (their orthogonality is C10/C11's subject); np.linalg.inv, ounce factors, rotation_from_up_and_look and Rodrigues outputs are obtained from the real functions and passed as data, the oracle checks each stored pair is an inverse pair. Known finding: round trip / step-by-step action fail for non-affine explicit matrices (apply_transform drops w).",
    },
    "C04": {
        "text": "24 theorems: invariant (every tag index <= number of steps) by induction over scripts; do_transform = forward fold over steps[i:j] if i<j, inverse fold in reverse order if i>j, identity if equal; path independence, round trip (for well-formed = affine inverse-pair steps), appending transforms / new tags / re-tagging other names never changes conversions between existing tags, getattr/setattr specs, the three error classes. Unrestricted path independence / round trip are false for non-affine explicit matrices: defs kept, witnesses proved, known finding path-independent/non-affine-explicit-matrix. Tie: random interleavings (<= 6 tag names, equal positions, re-tagging, both read forms, every ordered tag pair, non-affine steps) replayed whole in the model.",
        "note": COMMON_NOTE + "Tag names that collide with attribute/method names of the class (e.g. 'flip', '_points') are not generated (recorded assumption).",
    },
    "C08": {
        "text": "45 theorems + 8 source ties (all in full): segment lengths / total / length-weighted centroid (R); point_along_path: lies on the first segment with cum_i <= fL < cum_{i+1}, equals an independent arc-length walk for every f in [0,1], f=0 first vertex, f=1 last vertex (first again if closed), junction matching and a global Lipschitz bound (continuity); subdivide_segment = linspace, subdivide_segments without NaN on zero-length segments, both length preserving; subdivided_by_length: original vertices at the returned indices, inserted points a+(k/n)(b-a) with n = ceil(len/max) least with len/n <= max, unselected/short edges untouched, closedness and total length kept; with_segments_bisected: positions, index maps, and total length unchanged (midpoint split, repeated indices as zero-length segments, rotation invariance of the closed length). Tie: Float + exact rationals on rational-length chains, thresholds, masks, stacked fractions incl. 0 and 1.",
        "note": COMMON_NOTE + "np.cumsum/argmax/ceil/linspace/insert modelled as list functions.",
    },
    "C10": {
        "text": "46 + 22 theorems: algebraic cores over any field (R^T R = R R^T = I, det = 1, axis fixed, right-handed turn, J_fwd J_inv = I3 via sympy certificates); over R for the actual model functions: forward is a proper rotation for every r with the stated axis/angle, identity at 0 and within eps under the theta<eps shortcut; inverse returns exactly theta*k for 0<theta<pi with sin theta >= 1e-5, both round trips, half-turns about every axis give +-pi*k mapping back to R, length <= pi in every branch; the 2.5e-5 snap bound proved in full (near 0: s+s^2; near pi: 2.5 sin theta, using the repaired symmetric-part sign tests, which are regenerated from the source and tied by gen_sign_tests); dispatch and ValueError; Jacobian composition outside the snap branch (the full clause is refuted at half-turns: known finding jacobian/composition/snap-branch). 'Jacobian = derivative' is proved (jacobian_is_derivative_holds: all 27 partial derivatives as HasDerivAt, plus the directional form) and still measured against central differences on the real code. Euler's rotation theorem is proved (euler_rotation: every M3 with R^T R = I, det = 1 is rot(k,theta), 0<=theta<=pi), so the inverse-conversion theorems hold for every proper rotation (roundtrip_mat_vec_mat_general_holds, inv_length_le_pi_general, snap_bound_general, roundtrip_total_general). Tie: Float correspondence incl. near-0/near-pi sweeps, near-pi rotations about axes with tiny components, all 26 lattice half-turns.",
        "note": COMMON_NOTE + "np.linalg.svd projection is a parameter (NumPy's u@vt is fed to the model, residual checked); libm sin/cos/acos in the Float run are not verified.",
    },
    "C11": {
        "text": "36 theorems: euler elementary matrices are proper right-handed rotations, euler = product in the listed order, degrees = radians*pi/180 (R); rotation_from_up_and_look raises exactly for zero up / zero look / collinear (exact arithmetic), otherwise a proper rotation with R*up = (0,|up|,0) and R*look in the y-z half-plane with positive z (R); rotation/translation/scale builders: 4x4 with last row 0001, documented action, forward*inverse = inverse*forward = 1, raise logic as an iff; apply w=1/w=0, stack = map; compose [] = 1 and apply (compose ts) = fold for AFFINE matrices; the unrestricted compose-order clause is refuted (witness; known finding compose/order/non-affine). Every literal of these functions is regenerated from the source and tied by ring/rfl. Tie: all 39 axis-order strings x both units every run; exact rationals for affine builders (incl. non-affine matrices for apply/compose), doubles for euler/up-look.",
        "note": COMMON_NOTE + "float64 dtype of rotation_from_up_and_look and the Rodrigues-vector form of transform_matrix_for_rotation are oracle/correspondence only. up/look pairs closer to collinear than 1e-6 rad, or with squared norm under/overflowing doubles, are not generated.",
    },
    "C12": {
        "text": "26 theorems (all in full): world_to_view has orthonormal rows and columns, is an isometry, sends position to 0, target to (0,0,dist), up to (0,y>0,.) (R); orthographic matrix maps the view box corners to the cube (near to -1) and "
                "box <-> cube; viewport maps x,y in [-1,1] to the rectangle and z to [0,1]; each inverse=True matrix is the two-sided inverse under the non-degeneracy hypotheses (ZeroDivisionError branches explicit); the canvas projection is the three stages composed "
                "in order with width/zoom, height/zoom, reversed for the inverse. All matrix entries, defaults, stage order and argument expressions are regenerated from the source and tied by ring. Tie: exact rationals for ortho/viewport/canvas, doubles for world_to_view.",
        "note": COMMON_NOTE + "The world_to_view rotation block has determinant -1 (left-handed view frame); the property only demands distance preservation.",
    },
    "C16": {
        "text": "36 theorems (all in full): vertex/quad/face tables regenerated from the source; closed and consistently oriented (every directed edge once and its reverse once, by decide on the generated tables: 12 resp. 8 faces, all indices valid, all vertices used); "
                "rectangular prism spans origin..origin+size with 8 distinct corners, signed volume = product of sizes, outward normals, area; cube = rectangular prism; triangular prism: first base is the given triangle, second shifted by -height*n, volume = base area*height, "
                "outward, area (R; collinear base rejected through the explicit NaN branch); flatten = vertices[faces]; non-float size/height -> ValueError. Tie: sizes over 12 orders of magnitude, all orientations, both return forms, exact measures of the implementation's mesh.",
        "note": COMMON_NOTE + "Plane.from_points normalisation in triangular_prism runs at Float/rational-sqrt; dtype tags observed.",
    },
    "C17": {
        "text": "26 + 17 theorems: Box.from_points is the tight bound (per-axis min/max attained, every input contained) by fold invariant; every accessor, the 8 corners, the six inward face planes and contains regenerated from the source and tied; contains iff all six signed "
                "distances >= -atol; negative size -> ValueError; bounding_box None for no vertices; extent returns the true maximum over all pairs, attained by the returned indices (R); percentile = reject(centroid, axis) + c*axis for axes that are not almost-zero "
                "(partial: known finding for tiny non-zero axes, with a proved witness); np.percentile's default linear method is modelled (percentileValue) and proved to be the order statistic: error iff empty or q outside [0,100], between min and max, q=0/100 give min/max, q=100k/(n-1) gives the k-th sorted value, monotone in q, invariant under permutation; percentile_with_numpy_value composes the two. Tie: lattice clouds with ties, zero-thickness boxes, percentiles 0..100 with NumPy's percentile value passed as data and re-derived by linear interpolation.",
        "note": COMMON_NOTE + "np.percentile itself is external: its return value is compared with the model's percentileValue on every case. A few ulps of rounding at the max faces are allowed in the float stream (atol = 4 ulp of the scale), exact on the lattice stream.",
    },
    "C20": {
        "text": "130 theorems. Shape strictness (proof via translator): every public callable's sequence of shape validations is regenerated from the source as data; for 81 callables a theorem states accepts(generated signature) <-> documented single/stacked forms for "
                "every argument value of any rank (2 partial, 2 known findings with proved witnesses for the Rodrigues element-count dispatch); a removed or loosened check breaks that callable's theorem. Elementwise: structural theorems that the stacked model is map/zipWith "
                "of the single one (empty stacks, length mismatch) + row-vs-stack comparison of all 37 stack-capable callables. Purity: partial proof on an alias abstraction generated from the source (Gen/Effects.lean: all 171 public callables and helpers as programs of bind / write / call statements; abstract interpreter proved sound for that language, PW.Effects.sound; gen_summaries_stable, gen_argument_writes: only the documented builders of CompositeTransform / CoordinateManager and the validator cache write through a parameter; public_callables_leave_arguments_unchanged; results: PW.Effects.sound_reach, gen_copying_constructors — objects built by Polyline / Plane keep no memory of their arguments —, results_share_memory_only_as_listed; every program has the module-level / closure state as an extra parameter, so memos and kept buffers are writes) + runtime monitor (write-protected arguments, byte comparison, self snapshots, determinism re-run, kept apply_transform closures). "
                "Tie: exhaustive shape sweep (thorough: all 1,555 shapes of rank <= 4, dims <= 5, every argument position of 123 callables) against the model's prediction.",
        "note": COMMON_NOTE + "Purity is proved for the generated alias programs only: that the Python source behaves like its alias program (which expressions return views, which NumPy calls work in place, loops unrolled a bounded number of times, no writes through module globals) is the translator's trusted abstraction, validated by the runtime monitor; determinism is monitored, not proved. Callables validated only inside vg (Polyline.apex) or without array arguments have no shape theorem and are judged by the oracle only.",
    },
}
