"""Translator: regenerates lean/PW/Gen/*.lean from /repo's current source (python `ast`, never by
importing).  Fails closed: an anchor that is no longer recognisable yields a definition that makes the
dependent theorems fail.  (Filled in by the per-fragment extractors in harness/translate/.)"""
import os

from .proto import LEAN_DIR

REPO = os.environ.get("PW_REPO", "/repo")
GEN_DIR = os.path.join(LEAN_DIR, "PW", "Gen")


def write_if_changed(path, content):
    old = None
    if os.path.exists(path):
        old = open(path).read()
    if old != content:
        os.makedirs(os.path.dirname(path), exist_ok=True)
        with open(path, "w") as f:
            f.write(content)
        return True
    return False


def regenerate():
    """returns {file: changed?} and per-anchor notes"""
    import importlib
    import sys
    here = os.path.dirname(os.path.dirname(os.path.abspath(__file__)))
    if here not in sys.path:
        sys.path.insert(0, here)
    out = {}
    tr = importlib.import_module("translate")     # a translator that cannot be imported is an infrastructure failure
    produced = set()
    for name, content, notes in tr.generate_all(REPO):
        changed = write_if_changed(os.path.join(GEN_DIR, name), content)
        out[name] = {"changed": changed, "notes": notes}
        produced.add(name)
    # a fragment that crashed in an earlier run leaves a Broken_*.lean behind: drop it once the fragment works again
    if os.path.isdir(GEN_DIR):
        for fn in os.listdir(GEN_DIR):
            if fn.startswith("Broken_") and fn not in produced:
                os.remove(os.path.join(GEN_DIR, fn))
    return out
