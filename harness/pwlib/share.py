"""Caller-side object sharing for history ("pair") cases.

A single correspondence case builds fresh input objects, calls the implementation once and compares with the model.
Code that keeps state between calls -- a memo keyed by the identity of an argument, a class-level cache, an input
overwritten in place -- gives the right answer on every such call and the wrong one only when a caller *reuses its
objects*: slices the same vertex array again after changing it in place, tests a second polyline against the same
Plane object, passes the same mask to a second call.  A pair case replays that usage:

    phase 0   build case A (a variant of B) and call the implementation on it, result discarded
    phase 1   build case B and call the implementation; its result is compared with the model's answer for B alone
              and judged by B's oracle

and inside the pair the adapters' `np.array(...)` / `np.asarray(...)` calls and constructor calls of the library's value
classes go through a pool, so that B's arguments are the *same Python objects* A was called with wherever a caller would
naturally have reused them:

  * an array built at the same adapter call site with the same values is the same object, untouched by the harness
    (whatever the library did to it in between is what the second call sees);
  * an array built at the same call site with the same shape but other values is the same object overwritten in place
    (`np.copyto`), as a caller updating its own buffer does -- only across the phase boundary, when A's call is over;
  * Plane / Polyline / Line / Box value objects built from byte-identical arguments are the same object;
  * the arrays the library's public *functions* returned to A (what `from polliwog.<pkg> import f` hands out) are
    overwritten after A's call is over, as a caller editing a matrix it was handed does -- unless they share memory with
    one of A's pooled arguments (a function may return a view of its argument; that argument may be reused by B).

The model is never told about A: every function of the library is specified as a function of its arguments, so the
answer for B must not depend on what was computed before.  Outside a pair nothing is pooled.
"""
import sys

import numpy as _np

_pool = None


class Pool:
    def __init__(self, intmode=None, np_sites=True, how="int"):
        self.how = how                    # how an argument is respelled in these runs: int | strided | readonly | fortran
        self.phase = 0
        self.np_sites = np_sites          # False: only the adapters' argument copies and value objects are pooled
        self.intmode = intmode            # None | "all" | int seed (per call site coin)
        self.arrays = {}     # key -> list of [obj, original_bytes, phase]
        self.objects = {}
        self.results = []
        self.keep = []
        self.stats = {"same_object_same_values": 0, "overwritten_in_place": 0, "fresh": 0, "objects_reused": 0,
                      "results_overwritten": 0, "built_as_integer_arrays": 0}

    def as_int(self, site, a):
        """another spelling of the same argument, as a caller might hand it over (the mathematical input is unchanged):
        int      integer dtype for a float64 array whose values are all whole numbers (what
                 `np.array([[0, 0, 0], [1, 0, 0]])` gives a caller who writes whole numbers)
        strided  a non-contiguous view (every other row / element of a larger buffer)
        readonly a write-protected array (a library function never writes into its arguments)
        fortran  column-major memory order"""
        if self.intmode is None or a.size == 0 or a.dtype == object or any(a is k for k in self.keep):
            return a
        if self.intmode != "all":
            import zlib
            if zlib.crc32(repr((self.intmode,) + tuple(site[1:])).encode()) % 3 == 0:
                return a
        if self.how in ("npscalar", "derived"):
            return a
        if self.how == "int":
            if a.dtype != _np.float64:
                return a
            if not (_np.all(_np.isfinite(a)) and _np.all(a == _np.round(a)) and _np.all(_np.abs(a) < 2.0 ** 52)):
                return a
            self.stats["built_as_integer_arrays"] += 1
            return a.astype(_np.int64)
        self.stats["respelled_" + self.how] = self.stats.get("respelled_" + self.how, 0) + 1
        if self.how == "strided":
            if a.ndim == 0:
                return a
            big = _np.zeros((2 * a.shape[0],) + a.shape[1:], dtype=a.dtype)
            big[1::2] = 77 if a.dtype != bool else True
            big[::2] = a
            return big[::2]
        if self.how == "readonly":
            b = a.copy()
            b.flags.writeable = False
            return b
        if self.how == "fortran":
            return _np.asfortranarray(a) if a.ndim >= 2 else a
        return a

    def note_result(self, r, depth=0):
        if isinstance(r, _np.ndarray):
            self.results.append(r)
        elif isinstance(r, (tuple, list)) and depth < 2:
            for x in r:
                self.note_result(x, depth + 1)

    def read_properties(self):
        """the caller looks at every public property of the value objects it built (and will edit what it is handed)"""
        for o in list(self.objects.values()):
            for name, attr in list(vars(type(o)).items()):
                if name.startswith("_") or not isinstance(attr, property):
                    continue
                try:
                    self.note_result(getattr(o, name))
                except Exception:
                    pass

    def scribble(self):
        """the caller edits what the first call handed it"""
        self.read_properties()
        mine = [e[0] for es in self.arrays.values() for e in es]
        # ... nor what is the object's own *public* array attribute (`line.reference_point`, `box.origin`): editing that is
        # editing the object, with or without a property that hands out the same array
        for o in self.objects.values():
            mine += [v for k, v in (vars(o).items() if hasattr(o, "__dict__") else []) if not k.startswith("_")
                     and isinstance(v, _np.ndarray)]
        for r in self.results:
            try:
                if not r.flags.writeable or r.size == 0 or r.dtype == object:
                    continue
                if any(_np.may_share_memory(r, a) for a in mine):
                    continue
                if r.dtype == bool:
                    r[...] = ~r
                else:
                    r[...] = 77
                self.stats["results_overwritten"] += 1
            except Exception:
                pass
        self.results = []

    def arr(self, site, a):
        if a.dtype == object or a.ndim == 0:
            return a
        if self.intmode is not None:
            # integer-dtype runs are single calls, nothing is pooled; only what is handed to the library is respelled: the
            # adapters' argument copies (`shcopy`) and constructor arguments -- never the arrays the adapter works on itself
            return self.as_int(site, a) if site[-1] == "cp" else a
        key = (site, a.dtype.str, a.shape)
        want = a.tobytes()
        # arrays the adapter built itself (`np.array(...)` sites) are handed out write-protected: an adapter that goes on to
        # edit one (to place a point on the plane, say) is stopped -- `AdapterWrite` -- and the pair is rebuilt without
        # pooling those sites; a library function that writes into its argument raises inside the library instead.
        protect = site[-1] != "cp"
        entries = self.arrays.setdefault(key, [])
        for e in entries:
            if e[1] == want:
                e[2] = self.phase
                self.stats["same_object_same_values"] += 1
                return e[0]
        for e in entries:
            if e[2] < self.phase:
                try:
                    e[0].flags.writeable = True
                    _np.copyto(e[0], a)
                except Exception:
                    continue
                finally:
                    if protect:
                        try:
                            e[0].flags.writeable = False
                        except Exception:
                            pass
                e[1] = want
                e[2] = self.phase
                self.stats["overwritten_in_place"] += 1
                return e[0]
        entries.append([a, want, self.phase])
        if protect:
            a.flags.writeable = False
        self.stats["fresh"] += 1
        return a

    def obj(self, key, ctor):
        if key in self.objects:
            self.stats["objects_reused"] += 1
            return self.objects[key]
        o = ctor()
        self.objects[key] = o
        return o


class _NpProxy:
    """stands in for the `np` global of an adapter module while a pair is running"""

    def __init__(self):
        self.__dict__["_np"] = _np

    def __getattr__(self, name):
        return getattr(_np, name)

    def __setattr__(self, name, value):          # adapters that patch numpy functions (recorders) patch the real module
        setattr(_np, name, value)

    def __delattr__(self, name):
        delattr(_np, name)

    @staticmethod
    def _site():
        f = sys._getframe(2)
        return (f.f_code.co_filename, f.f_lineno, f.f_lasti)

    def array(self, *a, **k):
        r = _np.array(*a, **k)
        if _pool is None or k.get("copy") is False or not _pool.np_sites:
            return r
        return _pool.arr(self._site(), r)

    def asarray(self, *a, **k):
        r = _np.asarray(*a, **k)
        if _pool is None or (a and isinstance(a[0], _np.ndarray)) or not _pool.np_sites:
            return r                    # a view of / the very object the adapter was handed: never pooled
        return _pool.arr(self._site(), r)


def np_scalar(x):
    """`npscalar` spelling: a Python bool / float handed over as the NumPy scalar a computation would have produced
    (`np.all(v[0] == v[-1])`, `len_ / 2`, an element of an index array) -- the same number"""
    if _pool is None or _pool.intmode is None or _pool.how != "npscalar":
        return x
    if isinstance(x, bool):
        _pool.stats["respelled_npscalar"] = _pool.stats.get("respelled_npscalar", 0) + 1
        return _np.bool_(x)
    if isinstance(x, float):
        _pool.stats["respelled_npscalar"] = _pool.stats.get("respelled_npscalar", 0) + 1
        return _np.float64(x)
    return x            # ints stay Python ints: counts (`num_points`, `num_samples`) are documented to be refused otherwise


def _from_adapter(depth=2):
    caller = sys._getframe(depth).f_code.co_filename
    return "harness" in caller and "pwlib" not in caller


def _recording(f):
    def w(*a, **k):
        if _pool is not None and _pool.intmode is not None and _pool.how == "npscalar" and _from_adapter():
            a = tuple(np_scalar(x) for x in a)
            k = {n: np_scalar(x) for n, x in k.items()}
        r = f(*a, **k)
        if _pool is not None and _pool.phase == 0:
            _pool.note_result(r)
        return r
    for attr in ("__name__", "__qualname__", "__doc__", "__module__"):
        try:
            setattr(w, attr, getattr(f, attr))
        except Exception:
            pass
    return w


def _recording_method(f):
    def w(*a, **k):
        if _pool is not None and _pool.intmode is not None and _pool.how == "npscalar" and _from_adapter():
            a = a[:1] + tuple(np_scalar(x) for x in a[1:])
            k = {n: np_scalar(x) for n, x in k.items()}
        r = f(*a, **k)
        if _pool is not None and _pool.phase == 0:
            caller = sys._getframe(1).f_code.co_filename
            if "harness" in caller and "pwlib" not in caller:
                _pool.note_result(r)
        return r
    for attr in ("__name__", "__qualname__", "__doc__", "__module__"):
        try:
            setattr(w, attr, getattr(f, attr))
        except Exception:
            pass
    return w


def _argkey(x):
    if isinstance(x, _np.ndarray):
        return ("nd", x.dtype.str, x.shape, x.tobytes())
    if isinstance(x, (list, tuple)):
        return tuple(_argkey(y) for y in x)
    if isinstance(x, (int, float, bool, str, type(None))):
        return (type(x).__name__, x)
    raise TypeError


class _ClassProxy:
    """stands in for a value class of the library: calling it constructs through the pool, everything else is the class"""

    def __init__(self, cls):
        self.__dict__["_cls"] = cls

    def __call__(self, *a, **k):
        cls = self._cls
        if _pool is None:
            return cls(*a, **k)
        if _pool.intmode is not None and _pool.how == "derived":
            return _derived(cls, a, k)
        if _pool.intmode is not None:
            f = sys._getframe(1)
            site = (f.f_code.co_filename, f.f_lineno, f.f_lasti, "cp")
            conv = lambda i, x: _pool.as_int(site + (i,), x) if isinstance(x, _np.ndarray) else np_scalar(x)
            return cls(*[conv(i, x) for i, x in enumerate(a)], **{n: conv(n, x) for n, x in k.items()})
        try:
            key = (cls.__module__, cls.__name__, _argkey(a), _argkey(sorted(k.items())))
        except TypeError:
            return cls(*a, **k)
        # built from private copies: a class that stores its arguments by reference (Line, Box) must not follow later
        # in-place updates of the pooled buffers, or the object would no longer be the value its key says
        # (Polyline and Plane copy what they are given -- that is part of what the pairs test: a constructor that kept a
        # write-protected argument by reference would follow the caller's later updates of its buffer)
        if cls.__name__ in BY_REFERENCE_CLASSES:
            priv = lambda x: _np.array(x) if isinstance(x, _np.ndarray) else x
            return _pool.obj(key, lambda: cls(*[priv(x) for x in a], **{n: priv(x) for n, x in k.items()}))

        def build():
            # the caller's buffer, handed over as a write-protected view, and reused by the caller for something else as
            # soon as the constructor has returned: an object that copies what it is given does not notice
            bufs = []

            def ro(x):
                if not isinstance(x, _np.ndarray) or x.size == 0:
                    return x
                b = _np.array(x)
                bufs.append(b)
                v = b.view()
                v.flags.writeable = False
                return v
            o = cls(*[ro(x) for x in a], **{n: ro(x) for n, x in k.items()})
            for b in bufs:
                b[...] = 77 if b.dtype != bool else True
            return o
        return _pool.obj(key, build)

    def __getattr__(self, name):
        return getattr(self._cls, name)

    def __instancecheck__(self, inst):
        return isinstance(inst, self._cls)


def _warm(o):
    """a caller that has already used the object: every public property read once, the cheap queries asked once"""
    for name in dir(type(o)):
        if name.startswith("_") or not isinstance(getattr(type(o), name, None), property):
            continue
        try:
            getattr(o, name)
        except Exception:
            pass
    probe = _np.array([[0.25, -0.5, 0.75], [1.0, 2.0, 3.0]])
    for name, args in (("signed_distance", (probe,)), ("sign", (probe,)), ("project_point", (probe,)),
                       ("nearest", (probe,)), ("index_of_vertex", (probe[0],)), ("intersect_plane", None)):
        f = getattr(o, name, None)
        if f is None or args is None:
            continue
        try:
            f(*args)
        except Exception:
            pass


def _derived(cls, a, k):
    """the same value, but obtained the way a long-lived program obtains it: from another object of the class that has
    been used before.  Plane / Polyline: the mirror image (negated normal / reversed vertex list) is built and used,
    and its `flipped()` is what the adapter gets (negating and reversing are exact, so it is the value the constructor
    call describes; the model's answer for the plain case applies).  Whatever the first object computed and kept
    must not reach the second one."""
    o = cls(*a, **k)
    if cls.__name__ not in ("Plane", "Polyline"):
        return o
    try:
        # the mirror-image value, built directly and used; the object handed to the adapter is its flipped()
        if cls.__name__ == "Plane":
            parent = cls(_np.array(o.reference_point), -_np.array(o.normal))
            _warm(parent)
            child = parent.flipped()
        elif o.is_closed and len(o.v) >= 3 and _np.asarray(o.v).tobytes()[:1] < b"\x80":
            # closed polylines, about half of them: the same loop stored from another start vertex, rolled back
            k = 1 + len(o.v) // 2
            parent = cls(_np.roll(_np.array(o.v), -k, axis=0), is_closed=True)
            _warm(parent)
            child = parent.rolled(len(o.v) - k)
        else:
            parent = cls(_np.array(o.v)[::-1].copy(), is_closed=o.is_closed)
            _warm(parent)
            child = parent.flipped()
    except Exception:
        return o
    same = (lambda x, y: _np.array_equal(_np.asarray(x), _np.asarray(y), equal_nan=True))
    try:
        if cls.__name__ == "Plane":
            ok = same(child.reference_point, o.reference_point) and same(child.normal, o.normal)
        else:
            ok = same(child.v, o.v) and child.is_closed == o.is_closed
    except Exception:
        ok = False
    if not ok:
        return o
    _pool.stats["derived_objects"] = _pool.stats.get("derived_objects", 0) + 1
    return child


def _pooled_class(cls):
    return _ClassProxy(cls)


VALUE_CLASSES = ("Plane", "Polyline", "Line", "Box")
BY_REFERENCE_CLASSES = ("Line", "Box")      # store their array arguments as they come (public, documented attributes)


class AdapterWrite(Exception):
    """an adapter tried to edit a pooled array it had built itself"""


def adapter_write(exc):
    """is `exc` numpy's refusal to write into a write-protected array, raised from adapter code (harness/props)?"""
    if not isinstance(exc, ValueError) or "read-only" not in str(exc):
        return False
    tb = exc.__traceback__
    last = None
    while tb is not None:
        last = tb.tb_frame.f_code.co_filename
        tb = tb.tb_next
    import os
    return last is not None and (os.sep + "props" + os.sep) in last and "polliwog" not in last


class scope:
    """with scope(modules) as pool:  pooled construction inside the adapter modules for the duration"""

    def __init__(self, modules, classes=VALUE_CLASSES, intmode=None, np_sites=True, how="int"):
        self.np_sites = np_sites
        self.how = how
        self.modules = [m for m in modules if m is not None]
        self.classes = tuple(classes) if intmode is None else VALUE_CLASSES
        self.intmode = intmode
        self.saved = []
        self.class_saved = []

    def __enter__(self):
        global _pool
        _pool = Pool(self.intmode, self.np_sites, self.how)
        proxy = _NpProxy()
        for m in self.modules:
            d = m.__dict__
            if d.get("np") is _np:
                self.saved.append((d, "np", _np))
                d["np"] = proxy
            for name in self.classes:
                c = d.get(name)
                if isinstance(c, type) and getattr(c, "__module__", "").startswith("polliwog"):
                    self.saved.append((d, name, c))
                    d[name] = _pooled_class(c)
        # adapters import the library's classes lazily (`from polliwog import Plane` inside the function): that reads the
        # attribute of the package, which the library's own modules never do (they import from their sub-modules)
        import types
        import polliwog
        for mname, m in list(sys.modules.items()):
            if self.intmode is not None and self.how != "npscalar":
                break
            if m is None or not (mname == "polliwog" or mname.startswith("polliwog.")):
                continue
            if any(part.startswith("_") or part.startswith("test") for part in mname.split(".")) or not hasattr(m, "__path__"):
                continue                                   # public package namespaces only
            for name, f in list(m.__dict__.items()):
                if callable(f) and not isinstance(f, (type, types.ModuleType)) and not name.startswith("_"):
                    self.saved.append((m.__dict__, name, f))
                    m.__dict__[name] = _recording(f)
        for name in self.classes:
            c = polliwog.__dict__.get(name)
            if isinstance(c, type):
                if self.intmode is None or self.how == "npscalar":
                    self._record_methods(c)
                elif self.how == "derived" and name in ("Plane", "Polyline"):
                    self._warm_before_methods(c)
                self.saved.append((polliwog.__dict__, name, c))
                polliwog.__dict__[name] = _pooled_class(c)
        return _pool

    def _record_methods(self, cls):
        """what the adapter (the caller) is handed by a public method or property of a value object is the caller's too:
        recorded during the first call of a pair and edited afterwards like the results of the public functions.  Calls made
        by the library itself are not recorded."""
        import types
        for name, attr in list(vars(cls).items()):
            if name.startswith("_"):
                continue
            if isinstance(attr, property) and attr.fget is not None:
                new = property(_recording_method(attr.fget), attr.fset, attr.fdel, attr.__doc__)
            elif isinstance(attr, types.FunctionType):
                new = _recording_method(attr)
            else:
                continue
            self.class_saved.append((cls, name, attr))
            setattr(cls, name, new)

    def _warm_before_methods(self, cls):
        """derived runs: before the first public method call on a Plane / Polyline, the object is *used* (every public
        property read, the cheap queries asked), as it would have been in a program that has had it for a while -- so a
        method that derives a new object (rounded, rolled, sliced_at_indices, tilted, ...) derives it from a used one"""
        import types
        warmed = set()
        busy = [False]

        def wrap(f):
            def w(self_, *a, **k):
                if not busy[0] and id(self_) not in warmed:
                    warmed.add(id(self_))
                    busy[0] = True
                    try:
                        _warm(self_)
                    finally:
                        busy[0] = False
                return f(self_, *a, **k)
            w.__name__ = getattr(f, "__name__", "w")
            w.__doc__ = f.__doc__
            return w
        for name, attr in list(vars(cls).items()):
            if name.startswith("_") or not isinstance(attr, types.FunctionType):
                continue
            self.class_saved.append((cls, name, attr))
            setattr(cls, name, wrap(attr))

    def __exit__(self, *exc):
        global _pool
        for d, name, val in self.saved:
            d[name] = val
        self.saved = []
        for cls, name, attr in self.class_saved:
            setattr(cls, name, attr)
        self.class_saved = []
        _pool = None
        return False


def shcopy(x, keep_dtype=False, keep_layout=False):
    """the adapters' defensive copy of an argument (`x.copy()`): private outside a pair; inside a pair it is the caller's
    buffer for that call site, pooled like the arrays the adapter builds; in an integer-dtype run it is respelled as an
    int64 array when all its values are whole numbers (unless `keep_dtype`: arguments documented as float arrays)"""
    r = x.copy()
    if _pool is None or not isinstance(r, _np.ndarray):
        return r
    if keep_dtype and _pool.intmode is not None and _pool.how == "int":
        _pool.keep.append(r)
        return r
    if keep_layout and _pool.intmode is not None and _pool.how != "int":
        _pool.keep.append(r)    # results that depend on the summation order (a degenerate eigenspace, signs of vertices a few
        return r                # ulps from a plane) are not comparable across memory layouts; constructors leave it alone too
    f = sys._getframe(1)
    return _pool.arr((f.f_code.co_filename, f.f_lineno, f.f_lasti, "cp"), r)
