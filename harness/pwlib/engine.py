"""Check engine: proof audit + correspondence check + failing-input search + verdict + evidence.

A property module (harness/props/cXX.py) provides

    ID            "C05"
    TARGETS       ["PW.Props.C05"]              lake targets holding the property's theorems
    gen(rng, tier) -> iterator of JSON-able *specs* (dicts with at least {"op": ...})
    make(spec)  -> Case
    RULE          text: how cases are generated / what is non-trivial
    TRUSTED       list of strings (trusted base specific to the property)
    ASSUMPTIONS   list of strings

Everything random derives from VERIF_SEED.  Cases are JSON specs so that every failure replays exactly.
"""
import collections
import hashlib
import json
import os
import random
import sys
import time
import traceback

from . import canon, leanside, proto

VERIF = os.path.dirname(os.path.dirname(os.path.dirname(os.path.abspath(__file__))))
EVID = os.path.join(VERIF, "evidence")
REPLAYS = os.path.join(VERIF, "replays")
CORPUS = os.path.join(VERIF, "harness", "corpus")
FINDINGS = os.path.join(VERIF, "known_findings.json")


class Case:
    """one correspondence case.

    line    : driver line (str) or None (oracle-only case)
    impl    : thunk -> list of canonical items (may raise)
    mode    : "rat" | "float" | "both"
    klass   : coverage class (op / branch / stream) for the distinct_nontrivial count
    trivial : True for empty / degenerate-by-construction cases
    oracle  : fn(impl_result) -> list of (key, message) property violations seen on the *implementation's*
              output (independent of the model); key is stable, used by known_findings.json
    compare : optional fn(impl_result, model_line, mode) -> None | message  (abstract-level comparison)
    scale   : magnitude of the inputs (absolute tolerance = rtol * max(scale, |a|, |b|))
    """

    def __init__(self, spec, line, impl, mode="rat", klass=None, trivial=False, oracle=None,
                 compare=None, scale=1.0, rtol=1e-9, model_only=False):
        self.spec = spec
        self.line = None if line is None else str(line)
        self.impl = impl
        self.mode = mode
        self.klass = klass or spec.get("op", "?")
        self.trivial = trivial
        self.oracle = oracle
        self.compare = compare
        self.scale = scale
        self.rtol = rtol
        self.model_only = model_only


def load_findings():
    if not os.path.exists(FINDINGS):
        return []
    return json.load(open(FINDINGS)).get("findings", [])


def known_for(prop_id):
    return [f for f in load_findings() if f.get("property") == prop_id and f.get("status") == "known"]


def match_known(prop_id, key, known):
    import fnmatch
    for f in known:
        if fnmatch.fnmatchcase(key, f["key"]):
            return f
    return None


def spec_hash(obj):
    return hashlib.sha1(json.dumps(obj, sort_keys=True, default=str).encode()).hexdigest()[:12]


def write_replay(prop_id, payload):
    os.makedirs(REPLAYS, exist_ok=True)
    h = spec_hash(payload)
    path = os.path.join(REPLAYS, "%s-%s.json" % (prop_id, h))
    with open(path, "w") as f:
        json.dump(payload, f, indent=1, default=str)
    return path


def load_corpus(prop_id):
    d = os.path.join(CORPUS, prop_id)
    specs = []
    if os.path.isdir(d):
        for fn in sorted(os.listdir(d)):
            if fn.endswith(".json"):
                obj = json.load(open(os.path.join(d, fn)))
                if isinstance(obj, list):
                    specs.extend(obj)
                else:
                    specs.append(obj)
    return specs


def jsonable(x):
    import numpy as np
    if isinstance(x, (np.floating, np.integer)):
        return x.item()
    if isinstance(x, np.ndarray):
        return x.tolist()
    if isinstance(x, (list, tuple)):
        return [jsonable(y) for y in x]
    if isinstance(x, dict):
        return {k: jsonable(v) for k, v in x.items()}
    return x


PAIR_STATS = collections.Counter()


def _adapter_modules(mod):
    mods = [mod]
    for name, m in list(sys.modules.items()):
        if name.startswith("props.") and m is not None and m is not mod:
            mods.append(m)
    return mods


def _as_list(c):
    if c is None:
        return []
    if isinstance(c, (list, tuple)):
        return [x for x in c if x is not None]
    return [c]


def make_pair(mod, spec):
    """history case (see pwlib/share.py): the implementation is called on `first`, then on `second` with the caller's
    objects reused; the result of the second call is compared with the model's answer for `second` alone."""
    from . import share
    first, second = spec["first"], spec["second"]
    fresh = _as_list(mod.make(second))
    out = []
    for k, b0 in enumerate(fresh):
        if b0.model_only:
            continue

        seen = []

        def impl(k=k, seen=seen):
            # both calls *and* both oracle evaluations run inside the scope: several oracles call the library again
            # on their own copies of the inputs, and those copies are pooled per call site like the adapter's
            classes = getattr(mod, "SHARE_VALUE_CLASSES", share.VALUE_CLASSES)
            for np_sites in (True, False):
                del seen[:]
                try:
                    with share.scope(_adapter_modules(mod), classes, np_sites=np_sites) as pool:
                        try:
                            for a in _as_list(mod.make(first)):
                                if a.model_only:
                                    continue
                                try:
                                    ra = ("ok", a.impl())
                                except Exception as e:
                                    if share.adapter_write(e):
                                        raise share.AdapterWrite()
                                    ra = None
                                if a.oracle is not None and ra is not None:
                                    a.oracle(ra)
                        except share.AdapterWrite:
                            raise
                        except Exception as e:
                            if share.adapter_write(e):
                                raise share.AdapterWrite()
                        pool.scribble()
                        pool.phase = 1
                        try:
                            b = _as_list(mod.make(second))[k]
                            rb = b.impl()
                        except Exception as e:
                            if share.adapter_write(e):
                                raise share.AdapterWrite()
                            raise
                        finally:
                            PAIR_STATS.update(pool.stats)
                        if b.oracle is not None:
                            try:
                                seen.extend(b.oracle(("ok", rb)) or [])
                            except Exception as e:
                                if share.adapter_write(e):
                                    raise share.AdapterWrite()
                        return rb
                except share.AdapterWrite:
                    if not np_sites:
                        raise
                    PAIR_STATS.update({"rebuilt_without_adapter_arrays": 1})
                    continue

        def oracle(r, b0=b0, seen=seen):
            out = list(seen)
            if b0.oracle is not None:
                out += [v for v in (b0.oracle(r) or []) if v not in out]
            return out
        pspec = dict(spec)
        if len(fresh) > 1:
            pspec["index"] = k
        out.append(Case(pspec, b0.line, impl, mode=b0.mode, klass="pair:" + b0.klass, trivial=b0.trivial,
                        oracle=oracle, compare=b0.compare, scale=b0.scale, rtol=b0.rtol))
    if "index" in spec:
        out = [c for c in out if c.spec.get("index") == spec["index"]]
    return out


def make_asint(mod, spec):
    """integer-dtype case (pwlib/share.py, `intmode`): the same call with every float64 array the adapter builds from
    whole numbers built as an int64 array instead ("all"), or about two thirds of them chosen per call site; the
    mathematical input is unchanged, so the result is compared with the model's answer for the plain case."""
    from . import share
    inner = spec["spec"]
    fresh = _as_list(mod.make(inner))
    out = []
    for k, b0 in enumerate(fresh):
        if b0.model_only:
            continue
        seen = []

        def impl(k=k, seen=seen):
            del seen[:]
            with share.scope(_adapter_modules(mod), intmode=spec.get("mode", "all"), how=spec.get("how", "int")) as pool:
                b = _as_list(mod.make(inner))[k]
                try:
                    rb = b.impl()
                    if b.oracle is not None:
                        try:
                            seen.extend(b.oracle(("ok", rb)) or [])
                        except Exception:
                            pass
                    return rb
                finally:
                    PAIR_STATS.update({k_: v_ for k_, v_ in pool.stats.items()
                                       if k_ in ("built_as_integer_arrays", "derived_objects") or k_.startswith("respelled_")})

        def oracle(r, b0=b0, seen=seen):
            if spec.get("how") == "npscalar" and (r is None or r[0] != "ok"):
                return []
            out = list(seen)
            if b0.oracle is not None:
                out += [v for v in (b0.oracle(r) or []) if v not in out]
            return out
        def compare(r, a, mode, b0=b0):
            if spec.get("how") == "npscalar" and not str(a).startswith("ok"):
                # the plain call is refused (or divides by zero): with NumPy scalars the refusal may legitimately be another
                # one (`isinstance(n, int)` fails for np.bool_) or none (np.float64 division gives inf) -- not compared
                return None
            base = b0.compare if b0.compare is not None else \
                (lambda r_, a_, m_: canon.compare(r_, a_, scale=b0.scale, rtol=b0.rtol))
            msg = base(r, a, mode)
            if msg and r is not None and r[0] == "ok" and isinstance(r[1], list):
                # observed dtype tags: an integer argument that is stored or returned as it came is integer-typed, the
                # model's constant there is the float spelling.  Values are what is compared.
                r2 = ("ok", ["dt:f8" if isinstance(x, str) and x in ("dt:i8", "dt:i4", "dt:u8") else x for x in r[1]])
                if r2[1] != r[1]:
                    return base(r2, a, mode)
            return msg
        pspec = dict(spec)
        if len(fresh) > 1:
            pspec["index"] = k
        out.append(Case(pspec, b0.line, impl, mode=b0.mode, klass=("int:" if spec.get("how", "int") == "int" else "arg:") + b0.klass,
                        trivial=b0.trivial,
                        oracle=oracle, compare=compare, scale=b0.scale, rtol=b0.rtol))
    if "index" in spec:
        out = [c for c in out if c.spec.get("index") == spec["index"]]
    return out


def _has_whole_array(x):
    if isinstance(x, dict):
        return any(_has_whole_array(v) for k, v in x.items() if k != "op")
    if _is_num_array(x) and isinstance(x, list):
        flat = []

        def walk(y):
            if isinstance(y, list):
                for z in y:
                    walk(z)
            else:
                flat.append(y)
        walk(x)
        return len(flat) >= 3 and all(float(v) == int(v) for v in flat if v == v and abs(v) != float("inf")) \
            and all(v == v and abs(v) != float("inf") for v in flat)
    if isinstance(x, list):
        return any(_has_whole_array(y) for y in x)
    return False


def asint_specs(specs, rng, tier):
    """integer-dtype cases derived from the generated specs that contain an all-whole-number array"""
    def lattice_like(s):
        return _has_whole_array(s) or any(isinstance(v, str) and ("lattice" in v or "pattern" in v or "exact" in v)
                                          for v in s.values())
    pool = [s for s in specs if isinstance(s, dict) and s.get("op") not in ("pair", "asint") and lattice_like(s)]
    out = []
    if pool:
        cap = 300 if tier == "quick" else 1500
        n = min(cap, max(20, len(pool) // 6), len(pool))
        out += [{"op": "asint", "mode": "all" if rng.random() < 0.5 else rng.randrange(1 << 16), "spec": s}
                for s in rng.sample(pool, n)]
    # the other spellings of an argument (non-contiguous view, write-protected, column-major) apply to every stream
    anyspec = [s for s in specs if isinstance(s, dict) and s.get("op") not in ("pair", "asint")]
    if anyspec:
        cap = 150 if tier == "quick" else 900
        n = min(cap, max(15, len(anyspec) // 12), len(anyspec))
        # (all arguments at once: results of the same computation in two memory layouts may differ in the last bit, which
        # oracles that compare two calls of the library exactly would see if only one of them were respelled)
        out += [{"op": "asint", "how": rng.choice(["strided", "readonly", "fortran", "npscalar"]), "mode": "all", "spec": s}
                for s in rng.sample(anyspec, n)]
        # the same value objects, but derived (flipped twice) from objects that have been used before: what an earlier
        # object computed and kept (a lazily filled cache, a precomputed constant) must not reach the derived one
        rng2 = random.Random(rng.random())
        out += [{"op": "asint", "how": "derived", "mode": "all", "spec": s} for s in rng2.sample(anyspec, n)]
    return out


def _shape_sig(x):
    if isinstance(x, list):
        return ("L", len(x), _shape_sig(x[0]) if x else None)
    if isinstance(x, dict):
        return ("D",) + tuple(sorted(x))
    return type(x).__name__


def _is_num_array(x):
    if isinstance(x, bool):
        return False
    if isinstance(x, (int, float)):
        return True
    return isinstance(x, list) and len(x) > 0 and all(_is_num_array(y) for y in x)


def _num_paths(x, path=()):
    """paths of the maximal number-only sub-arrays of a spec"""
    if _is_num_array(x):
        return [path]
    out = []
    if isinstance(x, dict):
        for k in sorted(x):
            if k != "op":
                out += _num_paths(x[k], path + (k,))
    elif isinstance(x, list):
        for i, y in enumerate(x):
            out += _num_paths(y, path + (i,))
    return out


def _get(x, path):
    for k in path:
        if isinstance(x, dict):
            if k not in x:
                return None
        elif isinstance(x, list):
            if not isinstance(k, int) or k >= len(x):
                return None
        else:
            return None
        x = x[k]
    return x


def _set(x, path, v):
    for k in path[:-1]:
        x = x[k]
    x[path[-1]] = v


def _shift(x, rng, k):
    """same shape, other numbers: floats moved by a multiple of their own size, small ints in coordinate lists by k"""
    if isinstance(x, bool) or not isinstance(x, (int, float, list)):
        return x
    if isinstance(x, float):
        return x + k * (abs(x) if x != 0 else 1.0) * 0.5 if x == x and abs(x) != float("inf") else x
    if isinstance(x, int):
        return x + k
    return [_shift(y, rng, k) for y in x]


def _square(x):
    return isinstance(x, list) and len(x) in (3, 4) and all(isinstance(r, list) and len(r) == len(x) and
                                                           all(isinstance(v, (int, float)) and not isinstance(v, bool) for v in r)
                                                           for r in x)


def variant_of(spec, other, rng):
    """case A of a pair: B with some of its number arrays replaced -- by the same entry of another spec of the same op
    when the shapes agree, else by shifted numbers of the same shape.  Validity of A is not required."""
    a = json.loads(json.dumps(spec))
    paths = _num_paths(a)
    if not paths or rng.random() < 0.2:
        return a                                    # the very same call twice
    rng.shuffle(paths)
    n = rng.randint(1, max(1, len(paths) - 1))
    for p in paths[:n]:
        cur = _get(a, p)
        alt = _get(other, p) if other is not None else None
        if _square(cur) and rng.random() < 0.4:
            _set(a, p, [list(r) for r in zip(*cur)])          # the transposed matrix (same bytes in the other memory order)
        elif alt is not None and _shape_sig(alt) == _shape_sig(cur) and alt != cur and rng.random() < 0.6:
            _set(a, p, json.loads(json.dumps(alt)))
        else:
            _set(a, p, _shift(cur, rng, rng.choice([1, -1, 2, 3])))
    return a


def pair_specs(specs, rng, tier):
    """history cases derived from the generated specs: about one in eight, at most 400 (quick) / 2000 (thorough)"""
    by_op = collections.defaultdict(list)
    for s in specs:
        if isinstance(s, dict) and s.get("op") not in ("pair", "asint"):
            by_op[s.get("op")].append(s)
    cap = 400 if tier == "quick" else 2000
    pool = [s for s in specs if isinstance(s, dict) and s.get("op") not in ("pair", "asint")]
    if not pool:
        return []
    n = min(cap, max(20, len(pool) // 8), len(pool))
    out = []
    for s in rng.sample(pool, n):
        peers = by_op[s.get("op")]
        other = rng.choice(peers) if len(peers) > 1 else None
        out.append({"op": "pair", "first": variant_of(s, other, rng), "second": s})
    return out


def evaluate(mod, specs, stats, collect_samples=3):
    """run impl + model on specs -> (mismatches, oracle_violations, samples)"""
    cases = []
    adapter_failures = []
    for s in specs:
        try:
            if s.get("op") == "pair" and "second" in s:
                c = make_pair(mod, s)
            elif s.get("op") == "asint" and "spec" in s:
                c = make_asint(mod, s)
            else:
                c = mod.make(s)
        except Exception:
            # On the unchanged tree every spec builds (checked by the clean runs); an adapter that fails now fails
            # because the code under test behaves differently while the case is being set up (constructors raising /
            # returning unusable values).  That is a broken correspondence, reported with the spec as the replay.
            adapter_failures.append({"spec": s, "mode": "-", "line": None, "impl": None, "model": None,
                                     "message": "building the case raised: " + traceback.format_exc()[-600:],
                                     "klass": s.get("op", "?")})
            continue
        if c is None:
            continue
        if isinstance(c, (list, tuple)):
            cases.extend(x for x in c if x is not None)
        else:
            cases.append(c)
    impl_res = []
    intern = bool(getattr(mod, "INTERN_WITHIN_CASE", False))
    for c in cases:
        if c.model_only:
            impl_res.append(None)
        elif intern and not c.klass.startswith(("pair:", "int:", "arg:")):
            # operation programs: arguments with equal values built at the same adapter call site are one object, as for
            # a caller that passes its `look` vector to two steps (pwlib/share.py, single phase: nothing is overwritten)
            from . import share

            def guarded(c=c):
                try:
                    with share.scope(_adapter_modules(mod), getattr(mod, "SHARE_VALUE_CLASSES", share.VALUE_CLASSES)):
                        return c.impl()
                except Exception as e:
                    if share.adapter_write(e):      # the adapter edits an array it built: run this case unpooled
                        return c.impl()
                    raise
            impl_res.append(canon.call(guarded))
        else:
            impl_res.append(canon.call(c.impl))
    # model runs
    answers = {}
    for mode in ("rat", "float"):
        idx = [i for i, c in enumerate(cases) if c.line is not None and c.mode in (mode, "both")]
        outs = proto.run_driver_sharded(mode, [cases[i].line for i in idx])
        for i, o in zip(idx, outs):
            answers[(i, mode)] = o
    mismatches = list(adapter_failures)
    violations = []
    samples = []
    for i, c in enumerate(cases):
        r = impl_res[i]
        stats["evaluations"] += 1
        stats["classes"][c.klass] += 1
        if not c.trivial:
            stats["nontrivial_classes"].add(c.klass)
            stats["nontrivial_specs"].add(spec_hash(c.spec))
        if r is not None:
            stats["outcomes"][r[0] if r[0] == "ok" else "err:" + r[1]] += 1
        for mode in ("rat", "float"):
            a = answers.get((i, mode))
            if a is None:
                continue
            stats["traces"] += 1
            if c.model_only:
                msg = c.compare(None, a, mode) if c.compare else None
            elif c.compare is not None:
                msg = c.compare(r, a, mode)
            else:
                msg = canon.compare(r, a, scale=c.scale, rtol=c.rtol)
            if msg:
                mismatches.append({"spec": c.spec, "mode": mode, "line": c.line, "impl": jsonable(r),
                                   "model": a[:2000], "message": msg, "klass": c.klass})
        if c.oracle is not None and r is not None:
            try:
                vs = c.oracle(r) or []
            except Exception:
                # the oracle evaluates the property's clauses on the implementation's outputs; it runs cleanly on the
                # unchanged tree, so a crash means the outputs are no longer of the expected kind (NaN, wrong shape …)
                vs = []
                mismatches.append({"spec": c.spec, "mode": "-", "line": c.line, "impl": jsonable(r), "model": None,
                                   "message": "property oracle could not evaluate the implementation's output: "
                                              + traceback.format_exc()[-600:], "klass": c.klass})
            for key, message in vs:
                violations.append({"spec": c.spec, "key": key, "message": message, "impl": jsonable(r),
                                   "line": c.line, "klass": c.klass})
        if len(samples) < collect_samples and not c.trivial and c.line is not None:
            samples.append({"spec": c.spec, "line": c.line[:400], "impl": jsonable(r) if r is None or len(str(r)) < 600 else str(r)[:600],
                            "model": {m: answers[(i, m)][:400] for m in ("rat", "float") if (i, m) in answers}})
    return mismatches, violations, samples


def run_check(mod, tier, seed, replay=None):
    t0 = time.time()
    prop = mod.ID
    print("[%s] tier=%s seed=%d" % (prop, tier, seed), flush=True)
    lean = leanside.prepare(prop, mod.TARGETS, tier=tier)
    obligations = lean["obligations"]
    n_obl = len(obligations)
    n_ok = sum(1 for o in obligations if o["ok"])
    lc = lean.get("leanchecker")
    # a translator fragment that raised has not regenerated its files: whatever they still say is stale, so every tie to the
    # source counts as broken (the fragments are written not to raise; this is the backstop)
    crashed = sorted(n for n, v in (lean.get("gen") or {}).items() if v.get("notes") == "crashed" or n.startswith("Broken_"))
    if crashed:
        lean["failing"] = list(lean.get("failing") or []) + ["translator fragment crashed: " + n for n in crashed]
    proof_broken = (not lean["build_ok"]) or n_ok != n_obl or bool(lean["forbidden"]) or (lc is not None and not lc["ok"]) \
        or bool(crashed)
    print("[%s] lean build_ok=%s obligations=%d discharged=%d forbidden=%d (%.1fs)" % (
        prop, lean["build_ok"], n_obl, n_ok, len(lean["forbidden"]), lean["wall"]), flush=True)
    if not lean.get("driver_ok", False):
        print("[%s] model driver does not build:\n%s" % (prop, lean["build_log"][-3000:]))
        # the hand-written model never depends on generated files in a way that a source change could break;
        # if it still fails, that is an infrastructure failure
        return 2

    stats = {"evaluations": 0, "classes": collections.Counter(), "nontrivial_classes": set(),
             "nontrivial_specs": set(), "outcomes": collections.Counter(), "traces": 0}
    rng = random.Random(seed * 1000003 + int(hashlib.sha1(prop.encode()).hexdigest()[:6], 16))
    if replay:
        payload = json.load(open(replay))
        specs = [payload["spec"]] if "spec" in payload and payload["spec"] else payload.get("specs", [])
        corpus = []
    else:
        corpus = load_corpus(prop)
        specs = list(mod.gen(rng, tier))
        base = corpus + specs
        if getattr(mod, "PAIRS", True):
            specs = specs + pair_specs(base, random.Random(rng.random()), tier)
        if getattr(mod, "ASINT", True):
            specs = specs + asint_specs(base, random.Random(rng.random()), tier)
    all_specs = corpus + specs
    mismatches, violations, samples = evaluate(mod, all_specs, stats)

    known = known_for(prop)
    known_hit = collections.OrderedDict()
    new_violations = []
    for v in violations:
        f = match_known(prop, v["key"], known)
        if f is not None:
            known_hit.setdefault(f["key"], (f, v))
        else:
            new_violations.append(v)

    exit_code = 0
    lines = []
    # 1. property violations found on the real code, not listed
    if new_violations:
        by_key = collections.OrderedDict()
        for v in new_violations:
            by_key.setdefault(v["key"], []).append(v)
        for key, vs in by_key.items():
            v = min(vs, key=lambda x: len(json.dumps(x["spec"], default=str)))
            path = write_replay(prop, {"property": prop, "kind": "property-violation-on-implementation",
                                       "key": key, "message": v["message"], "spec": v["spec"],
                                       "impl": v["impl"], "line": v["line"], "seed": seed, "count": len(vs)})
            lines.append("VIOLATION property=%s replay=%s" % (prop, path))
            print("[%s] violation key=%s: %s" % (prop, key, v["message"]))
        exit_code = 1
    # 2. broken correspondence / proof without a failing input
    if exit_code == 0 and (mismatches or proof_broken):
        payload = {"property": prop, "kind": "no-failing-input-found", "seed": seed,
                   "broken_obligations": [o for o in obligations if not o["ok"]],
                   "failing_declarations": lean["failing"], "forbidden_constructs": lean["forbidden"],
                   "lean_log_tail": lean["build_log"][-4000:] if not lean["build_ok"] else "",
                   "correspondence_mismatches": mismatches[:20], "n_mismatches": len(mismatches),
                   "spec": mismatches[0]["spec"] if mismatches else None}
        path = write_replay(prop, payload)
        what = []
        if proof_broken:
            what.append("proof obligations broken: %s" % (lean["failing"] or [o["name"] for o in obligations if not o["ok"]] or lean["forbidden"]))
        if mismatches:
            what.append("%d correspondence mismatches, first: %s" % (len(mismatches), mismatches[0]["message"]))
        print("[%s] %s" % (prop, "; ".join(what)))
        lines.append("VIOLATION property=%s replay=%s no-failing-input-found" % (prop, path))
        exit_code = 1
    elif exit_code == 1 and (mismatches or proof_broken):
        print("[%s] also: proof_broken=%s mismatches=%d (first: %s)" % (
            prop, proof_broken, len(mismatches), mismatches[0]["message"] if mismatches else ""))

    for key, (f, v) in known_hit.items():
        print("KNOWN-FINDING: property=%s %s [key=%s]" % (prop, f.get("what", ""), key))
    # listed findings that did not reproduce: the model mirrors them, so nothing to do here; say so
    for f in known:
        if f["key"] not in known_hit and not replay:
            print("[%s] note: listed finding key=%s did not reproduce in this run" % (prop, f["key"]))

    wall = time.time() - t0
    if not replay:
        ev = {
            "property_id": prop, "tier": tier, "seed": seed, "level": "proof",
            "coverage": {
                "obligations": n_obl, "discharged": n_ok,
                "checker_cmd": lean.get("checker_cmd", ""),
                "trusted_base": ["Lean 4.33 kernel", "axioms: propext, Classical.choice, Quot.sound (audited per theorem by #print axioms)",
                                 "translator harness/translate (regenerates PW/Gen from /repo on every run)",
                                 "correspondence check harness/props/%s.py (model driver vs real polliwog)" % prop.lower()] + list(getattr(mod, "TRUSTED", [])),
                "obligation_names": [o["name"] for o in obligations],
                "undischarged": [o for o in obligations if not o["ok"]],
                "generated_files": lean["gen"],
                "leanchecker": ({"modules": len(lc["modules"]), "ok": lc["ok"]} if lc else "not run (quick tier)"),
                "evaluations": stats["evaluations"],
                "distinct_nontrivial": len(stats["nontrivial_specs"]),
                "distinct_nontrivial_classes": len(stats["nontrivial_classes"]),
                "rule": getattr(mod, "RULE", ""),
                "samples": samples or [{"note": "no correspondence cases"}],
                "traces_validated_against_impl": stats["traces"],
                "class_histogram": dict(stats["classes"].most_common()),
                "outcome_histogram": dict(stats["outcomes"]),
                "corpus_cases": len(corpus),
                "correspondence_mismatches": len(mismatches),
                "oracle_violations": len(violations),
                "known_findings_replayed": list(known_hit.keys()),
                "exhaustive": bool(getattr(mod, "EXHAUSTIVE", {}).get(tier, False)),
                "history_pairs": dict(PAIR_STATS, cases=sum(v for k, v in stats["classes"].items() if k.startswith("pair:")),
                                      integer_dtype_cases=sum(v for k, v in stats["classes"].items() if k.startswith("int:")),
                                      other_argument_spellings=sum(v for k, v in stats["classes"].items() if k.startswith("arg:"))),
            },
            "assumptions": list(getattr(mod, "ASSUMPTIONS", [])),
            "wall_s": round(wall, 2),
            "violations": len(lines),
        }
        extra = getattr(mod, "extra_coverage", None)
        if callable(extra):
            try:
                ev["coverage"].update(jsonable(extra()))
            except Exception:
                ev["coverage"]["extra_coverage_error"] = traceback.format_exc()[-500:]
        os.makedirs(EVID, exist_ok=True)
        with open(os.path.join(EVID, prop + ".json"), "w") as f:
            json.dump(ev, f, indent=1, default=str)
    for l in lines:
        print(l)
    print("[%s] done exit=%d evaluations=%d distinct_nontrivial=%d traces=%d mismatches=%d oracle_violations=%d known=%d wall=%.1fs" % (
        prop, exit_code, stats["evaluations"], len(stats["nontrivial_specs"]), stats["traces"], len(mismatches),
        len(violations), len(known_hit), wall), flush=True)
    return exit_code
