"""Shared input generators.  Three streams:
  lattice : small integers / dyadics -> all arithmetic exact, coincidences and ties occur exactly
  float   : random magnitudes 1e-6..1e6, random orientation
  special : zeros, repeated points, axis-aligned
"""
import math
from fractions import Fraction

import numpy as np


def lat(rng, r=3, denom=1):
    return [rng.randint(-r, r) / denom for _ in range(3)]


def lat_nonzero(rng, r=3, denom=1):
    while True:
        v = lat(rng, r, denom)
        if any(v):
            return v


def scale_of(rng, lo=-6, hi=6):
    return 10.0 ** rng.uniform(lo, hi)


def fvec(rng, scale=1.0):
    return [rng.uniform(-1, 1) * scale for _ in range(3)]


def unit(rng):
    while True:
        v = np.array([rng.gauss(0, 1) for _ in range(3)])
        n = np.linalg.norm(v)
        if n > 1e-3:
            return (v / n).tolist()


AXES = [[1.0, 0.0, 0.0], [0.0, 1.0, 0.0], [0.0, 0.0, 1.0], [-1.0, 0.0, 0.0], [0.0, -1.0, 0.0], [0.0, 0.0, -1.0]]


def points(rng, stream, k, scale=1.0):
    if stream == "lattice":
        d = rng.choice([1, 1, 2, 4])
        return [lat(rng, 3, d) for _ in range(k)]
    return [fvec(rng, scale) for _ in range(k)]


def F(x):
    return Fraction(float(x))


def fdot(a, b):
    return sum(F(x) * F(y) for x, y in zip(a, b))


def fsub(a, b):
    return [F(x) - F(y) for x, y in zip(a, b)]


def fcross(a, b):
    a = [F(x) if not isinstance(x, Fraction) else x for x in a]
    b = [F(x) if not isinstance(x, Fraction) else x for x in b]
    return [a[1] * b[2] - a[2] * b[1], a[2] * b[0] - a[0] * b[2], a[0] * b[1] - a[1] * b[0]]


def maxabs(*arrs):
    m = 0.0
    for a in arrs:
        a = np.asarray(a, dtype=np.float64)
        if a.size:
            m = max(m, float(np.max(np.abs(a[np.isfinite(a)]))) if np.isfinite(a).any() else 0.0)
    return m
