"""Line protocol between the harness and the Lean model driver (pwdriver).

input line :  <op> <tok> ...   doubles = 16 hex digits (IEEE bit pattern), ints decimal, bools 0/1
output line:  ok <tok> ... | err <PythonExceptionClass> | bad <message>
model numbers: rationals `p/q` (rat mode), `x<16 hex>` (float mode), `nan`, `inf`, `-inf`
"""
import math
import os
import struct
import subprocess
from fractions import Fraction

LEAN_DIR = os.path.join(os.path.dirname(os.path.dirname(os.path.dirname(os.path.abspath(__file__)))), "lean")
DRIVER = os.path.join(LEAN_DIR, ".lake", "build", "bin", "pwdriver")


def fhex(x):
    return struct.pack(">d", float(x)).hex()


def unhex(s):
    return struct.unpack(">d", bytes.fromhex(s))[0]


class Line:
    """builder for one driver line"""

    def __init__(self, op):
        self.t = [op]

    def i(self, *xs):
        self.t.extend(str(int(x)) for x in xs)
        return self

    def b(self, *xs):
        self.t.extend("1" if x else "0" for x in xs)
        return self

    def f(self, *xs):
        self.t.extend(fhex(x) for x in xs)
        return self

    def vec(self, v):
        """flat float vector / matrix, no count"""
        import numpy as np
        self.t.extend(fhex(x) for x in np.asarray(v, dtype=np.float64).ravel())
        return self

    def vecs(self, vs):
        """count + rows"""
        import numpy as np
        a = np.asarray(vs, dtype=np.float64)
        self.t.append(str(len(a)))
        self.t.extend(fhex(x) for x in a.ravel())
        return self

    def ints(self, xs):
        xs = list(xs)
        self.t.append(str(len(xs)))
        self.t.extend(str(int(x)) for x in xs)
        return self

    def bools(self, xs):
        xs = list(xs)
        self.t.append(str(len(xs)))
        self.t.extend("1" if x else "0" for x in xs)
        return self

    def tok(self, *xs):
        self.t.extend(str(x) for x in xs)
        return self

    def __str__(self):
        return " ".join(self.t)


def parse_num(tok):
    """model number token -> Fraction | float | None (nan)"""
    if tok == "nan":
        return None
    if tok == "inf":
        return math.inf
    if tok == "-inf":
        return -math.inf
    if tok.startswith("x") and len(tok) == 17:
        return unhex(tok[1:])
    if "/" in tok:
        p, q = tok.split("/")
        return Fraction(int(p), int(q))
    return Fraction(int(tok))


def run_driver(mode, lines, timeout=900):
    """run all lines through the model driver in one process; returns list of answer lines"""
    if not lines:
        return []
    if not os.path.exists(DRIVER):
        raise RuntimeError("pwdriver not built: " + DRIVER)
    inp = "\n".join(lines) + "\n"
    p = subprocess.run([DRIVER, mode], input=inp, capture_output=True, text=True, timeout=timeout)
    if p.returncode != 0:
        raise RuntimeError("pwdriver failed rc=%s: %s" % (p.returncode, p.stderr[-2000:]))
    out = p.stdout.split("\n")
    if out and out[-1] == "":
        out.pop()
    if len(out) != len(lines):
        raise RuntimeError("pwdriver answered %d lines for %d ops; stderr=%s" % (len(out), len(lines), p.stderr[-2000:]))
    return out


def run_driver_sharded(mode, lines, shards=8):
    """same, split over several processes"""
    from concurrent.futures import ThreadPoolExecutor
    n = len(lines)
    if n < 2000 or shards <= 1:
        return run_driver(mode, lines)
    size = (n + shards - 1) // shards
    chunks = [lines[i:i + size] for i in range(0, n, size)]
    with ThreadPoolExecutor(max_workers=shards) as ex:
        outs = list(ex.map(lambda c: run_driver(mode, c), chunks))
    res = []
    for o in outs:
        res.extend(o)
    return res
