"""Lean side of a check: regenerate the generated model fragment from /repo, build the property's
target, audit the proofs (axioms, forbidden constructs)."""
import fcntl
import os
import re
import subprocess
import time

from .proto import LEAN_DIR

ALLOWED_AXIOMS = {"propext", "Classical.choice", "Quot.sound"}
FORBIDDEN = re.compile(r"\bsorry\b|\badmit\b|^\s*axiom\s|native_decide|bv_decide|implemented_by|\bunsafe\s|maxHeartbeats\s+0\b")
LAKE_ENV = dict(os.environ)


class Lock:
    def __init__(self):
        self.path = os.path.join(LEAN_DIR, ".build.lock")

    def __enter__(self):
        self.f = open(self.path, "w")
        fcntl.flock(self.f, fcntl.LOCK_EX)
        return self

    def __exit__(self, *a):
        fcntl.flock(self.f, fcntl.LOCK_UN)
        self.f.close()


def strip_comments(src):
    # remove /- ... -/ (nested not handled beyond one level, good enough for a grep audit) and -- comments
    out = []
    depth = 0
    i = 0
    n = len(src)
    while i < n:
        if src.startswith("/-", i):
            depth += 1
            i += 2
        elif src.startswith("-/", i) and depth > 0:
            depth -= 1
            i += 2
        elif depth > 0:
            if src[i] == "\n":
                out.append("\n")
            i += 1
        elif src.startswith("--", i):
            while i < n and src[i] != "\n":
                i += 1
        else:
            out.append(src[i])
            i += 1
    return "".join(out)


def grep_forbidden():
    hits = []
    for root, dirs, files in os.walk(LEAN_DIR):
        dirs[:] = [d for d in dirs if d not in (".lake",)]
        for fn in files:
            if not fn.endswith(".lean"):
                continue
            p = os.path.join(root, fn)
            src = strip_comments(open(p).read())
            for ln, line in enumerate(src.split("\n"), 1):
                if FORBIDDEN.search(line):
                    hits.append("%s:%d: %s" % (os.path.relpath(p, LEAN_DIR), ln, line.strip()[:120]))
    return hits


def read_obligations(prop_id):
    p = os.path.join(LEAN_DIR, "obligations", prop_id + ".txt")
    names = []
    if os.path.exists(p):
        for line in open(p):
            line = line.split("#")[0].strip()
            if line:
                names.append(line)
    return names


def failing_decls(log):
    """map `error: file:line:col` of a lake log to the enclosing theorem/def names"""
    decls = []
    for m in re.finditer(r"error: ([^\s:]+\.lean):(\d+):(\d+)", log):
        path, line = m.group(1), int(m.group(2))
        full = path if os.path.isabs(path) else os.path.join(LEAN_DIR, path)
        try:
            src = open(full).read().split("\n")
        except OSError:
            continue
        name = None
        for k in range(min(line, len(src)) - 1, -1, -1):
            mm = re.match(r"\s*(?:private\s+|protected\s+|noncomputable\s+)*(theorem|lemma|def|example|instance|abbrev)\s+([^\s:({\[]+)?", src[k])
            if mm:
                name = (mm.group(2) or "example") + " (%s:%d)" % (os.path.relpath(full, LEAN_DIR), k + 1)
                break
        decls.append(name or "%s:%d" % (path, line))
    seen = []
    for d in decls:
        if d not in seen:
            seen.append(d)
    return seen


def pw_import_closure(targets):
    """modules of the PW library that the targets import, transitively (for leanchecker)"""
    seen, todo = [], list(targets)
    while todo:
        m = todo.pop()
        if m in seen or not m.startswith("PW"):
            continue
        path = os.path.join(LEAN_DIR, *m.split(".")) + ".lean"
        if not os.path.exists(path):
            continue
        seen.append(m)
        for line in open(path):
            mm = re.match(r"\s*import\s+(\S+)", line)
            if mm:
                todo.append(mm.group(1))
    return sorted(seen)


def leancheck(targets):
    """independent re-check of the compiled .olean files of the property's cone (thorough tier)"""
    mods = pw_import_closure(targets)
    p = subprocess.run(["lake", "env", "leanchecker"] + mods, cwd=LEAN_DIR, capture_output=True, text=True, env=LAKE_ENV)
    out = p.stdout + p.stderr
    ok = p.returncode == 0 and "uncaught exception" not in out and "error" not in out.lower()
    return {"modules": mods, "ok": ok, "log": out[-2000:]}


def prepare(prop_id, targets, regenerate=True, want_driver=True, tier="quick"):
    """returns dict(build_ok, build_log, failing, obligations=[{name, ok, axioms, note}], forbidden, checker_cmd, wall)"""
    t0 = time.time()
    res = {"build_ok": False, "build_log": "", "failing": [], "obligations": [], "forbidden": [], "gen": {}}
    with Lock():
        if regenerate:
            from . import translate
            res["gen"] = translate.regenerate()
            subprocess.run(["python3", os.path.join(os.path.dirname(LEAN_DIR), "harness", "genroots.py")],
                           capture_output=True, text=True)
        tg = list(targets) + (["pwdriver"] if want_driver else [])
        cmd = ["lake", "build"] + tg
        res["checker_cmd"] = "cd /verif/lean && " + " ".join(cmd) + " && lake env lean obligations/Audit_%s.lean" % prop_id
        p = subprocess.run(cmd, cwd=LEAN_DIR, capture_output=True, text=True, env=LAKE_ENV)
        res["build_log"] = (p.stdout + p.stderr)[-20000:]
        res["build_ok"] = p.returncode == 0
        if not res["build_ok"]:
            res["failing"] = failing_decls(p.stdout + p.stderr)
            # the driver alone may still build (model unchanged, only a proof broke)
            if want_driver:
                p2 = subprocess.run(["lake", "build", "pwdriver"], cwd=LEAN_DIR, capture_output=True, text=True, env=LAKE_ENV)
                res["driver_ok"] = p2.returncode == 0
                if p2.returncode != 0:
                    res["build_log"] += "\n--- driver build ---\n" + (p2.stdout + p2.stderr)[-5000:]
        else:
            res["driver_ok"] = True
        names = read_obligations(prop_id)
        if res["build_ok"] and names:
            audit = os.path.join(LEAN_DIR, "obligations", "Audit_%s.lean" % prop_id)
            with open(audit, "w") as f:
                for t in targets:
                    f.write("import %s\n" % t)
                for n in names:
                    f.write("#print axioms %s\n" % n)
            p = subprocess.run(["lake", "env", "lean", audit], cwd=LEAN_DIR, capture_output=True, text=True, env=LAKE_ENV)
            out = p.stdout + p.stderr
            res["audit_log"] = out[-10000:]
            for n in names:
                m = re.search(r"'%s' depends on axioms: \[([^\]]*)\]" % re.escape(n), out)
                if m:
                    ax = [a.strip() for a in m.group(1).replace("\n", " ").split(",") if a.strip()]
                    bad = [a for a in ax if a not in ALLOWED_AXIOMS]
                    res["obligations"].append({"name": n, "ok": not bad, "axioms": ax,
                                               "note": ("forbidden axioms: %s" % bad) if bad else ""})
                elif re.search(r"'%s' does not depend on any axioms" % re.escape(n), out):
                    res["obligations"].append({"name": n, "ok": True, "axioms": [], "note": ""})
                else:
                    res["obligations"].append({"name": n, "ok": False, "axioms": [], "note": "not found by #print axioms"})
        else:
            for n in names:
                res["obligations"].append({"name": n, "ok": False, "axioms": [], "note": "build failed"})
        res["forbidden"] = grep_forbidden()
        if tier == "thorough" and res["build_ok"]:
            res["leanchecker"] = leancheck(targets)
    res["wall"] = time.time() - t0
    return res
