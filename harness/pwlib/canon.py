"""Canonical form of implementation results and comparison with model answers.

An implementation result is ("ok", [items]) or ("err", "<ExceptionClass>").
items: int (exact), bool (T/F), str (tag, exact), float (numeric, tolerance), None (NaN / missing number).
Arrays are flattened by the adapters with explicit counts where the model prints counts.
"""
import math
from fractions import Fraction

import numpy as np

KNOWN_ERRS = {
    "ValueError", "IndexError", "KeyError", "AttributeError", "TypeError", "NotImplementedError",
    "AssertionError", "LinAlgError", "ZeroDivisionError",
}


def err_name(e):
    n = type(e).__name__
    if n in KNOWN_ERRS:
        return n
    # subclasses (e.g. jsonschema.ValidationError is not a ValueError; AxisError is ValueError+IndexError)
    for base in type(e).__mro__:
        if base.__name__ in KNOWN_ERRS:
            return base.__name__
    return "Other:" + n


def call(fn):
    """run an implementation thunk -> canonical result"""
    try:
        r = fn()
    except Exception as e:  # noqa: BLE001 - every exception class is an observable outcome
        return ("err", err_name(e))
    return ("ok", r)


def flat(a):
    """float array -> list of python floats (NaN -> None)"""
    out = []
    for x in np.asarray(a, dtype=np.float64).ravel():
        x = float(x)
        out.append(None if math.isnan(x) else x)
    return out


def counted(a):
    """[len] + flattened rows"""
    a = np.asarray(a)
    return [int(a.shape[0])] + flat(a)


def ints(a):
    return [int(x) for x in np.asarray(a).ravel()]


def counted_ints(a):
    a = np.asarray(a)
    return [int(a.shape[0])] + ints(a)


def dtype_tag(a):
    return "dt:" + np.asarray(a).dtype.str.lstrip("<>|=")


def num_close(a, b, tol):
    """a: impl float or None; b: model Fraction/float/None"""
    if a is None or b is None:
        return a is None and b is None
    if isinstance(b, float) and (math.isinf(b) or math.isinf(a)):
        return a == b
    if math.isinf(a):
        return False
    try:
        d = abs(Fraction(a) - Fraction(b))
    except (OverflowError, ValueError):
        return False
    return d <= tol


def compare(impl, model_line, scale=1.0, rtol=1e-9):
    """-> None if they agree, else a short description"""
    from .proto import parse_num
    toks = model_line.split(" ")
    if toks[0] == "bad":
        return "model-protocol-error: " + model_line[:200]
    if impl[0] == "err":
        if toks[0] == "err" and toks[1] == impl[1]:
            return None
        return "impl raised %s, model answered %s" % (impl[1], " ".join(toks[:6]))
    if toks[0] == "err":
        return "model raised %s, impl returned a value" % toks[1]
    items = impl[1]
    mt = toks[1:]
    if len(items) != len(mt):
        return "length differs: impl %d items, model %d" % (len(items), len(mt))
    for k, (a, t) in enumerate(zip(items, mt)):
        if isinstance(a, bool):
            if t != ("T" if a else "F"):
                return "item %d: impl %s model %s" % (k, a, t)
        elif isinstance(a, int):
            if t != str(a):
                return "item %d: impl int %s model %s" % (k, a, t)
        elif isinstance(a, str):
            if t != a:
                return "item %d: impl tag %s model %s" % (k, a, t)
        else:
            try:
                b = parse_num(t)
            except Exception:
                return "item %d: impl number %r, model token %s" % (k, a, t)
            mag = max(abs(scale), abs(a) if a is not None and not math.isinf(a) else 0.0,
                      abs(float(b)) if b is not None and not (isinstance(b, float) and math.isinf(b)) else 0.0)
            tol = Fraction(rtol) * Fraction(mag if mag > 0 else 1.0)
            if not num_close(a, b, tol):
                return "item %d: impl %r model %s" % (k, a, (float(b) if b is not None else None))
    return None
