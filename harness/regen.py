#!/venv/bin/python
"""regenerate lean/PW/Gen from /repo's working tree (also done by every check run)"""
import os, sys
sys.path.insert(0, os.path.dirname(os.path.abspath(__file__)))
from pwlib import translate
r = translate.regenerate()
for k, v in r.items():
    print(k, "changed" if v["changed"] else "unchanged")
