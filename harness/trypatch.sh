#!/bin/sh
# trypatch.sh <patch.diff> <Cxx> [more check.py args]: run one check against a scratch worktree of /repo with the patch applied
# (nothing is applied to /repo itself; evidence of the affected property is restored afterwards)
set -u
patch=$(readlink -f "$1"); prop=$2; shift 2
here=$(dirname "$(readlink -f "$0")"); verif=$(dirname "$here")
wt=$(mktemp -d /tmp/wt_try.XXXXXX); rmdir "$wt"
git -C /repo worktree add -q --detach "$wt" HEAD || exit 2
cp "$verif/evidence/$prop.json" "$wt/.evidence.bak" 2>/dev/null
if git -C "$wt" apply "$patch"; then
  (cd "$verif" && PW_REPO="$wt" /venv/bin/python harness/check.py "$prop" "$@" 2>&1 | grep -v "^\[$prop\] note" | tail -8)
else
  echo "patch does not apply"
fi
cp "$wt/.evidence.bak" "$verif/evidence/$prop.json" 2>/dev/null
git -C /repo worktree remove --force "$wt"
(cd "$verif" && /venv/bin/python harness/regen.py >/dev/null 2>&1)
