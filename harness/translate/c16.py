"""Translator fragment for C16: polliwog/shapes/_shapes.py and polliwog/tri/quad_faces.py
-> lean/PW/Gen/ShapeTables.lean.

Extracted (by symbolic evaluation of the function bodies, see _sym_c16c17.py):
  rectVertices o s        the 8 x 3 vertex table of rectangular_prism as expressions in origin / size
  rectQuads               the 6 x 4 quad table passed to quads_to_tris
  quadsToTrisPicks        (start, step, columns) of every `tris[start::step, :] = quads[:, [..]]` of quads_to_tris
  cubeVertices o sz / cubeQuads   what cube() computes through its call of rectangular_prism
  triPrismVertices p1 p2 p3 n h   the 6 x 3 vertex table of triangular_prism (n = Plane.from_points(p1,p2,p3).normal)
  triPrismFaces           its 8 x 3 face table
  guards                  the `if not isinstance(x, float): raise ValueError` statements of cube / triangular_prism
  maybeFlattenOk          _maybe_flatten is `(vertices, faces)` if the flag else `vertices[faces]`
Fail closed: whatever cannot be recognised becomes an empty table / `false`, which breaks the theorems of
PW/Props/C16.lean that mention it.
"""
import ast
import os

from . import _sym_c16c17 as S

SRC = "polliwog/shapes/_shapes.py"
QSRC = "polliwog/tri/quad_faces.py"


def _attempt(notes, key, thunk, fallback):
    try:
        v = thunk()
        notes[key] = "ok"
        return v
    except Exception as e:  # noqa: BLE001 - fail closed
        notes[key] = "FAILED: %s: %s" % (type(e).__name__, str(e)[:200])
        return fallback


def quads_to_tris_picks(mod):
    fn = S.find_function(mod, "quads_to_tris")
    if fn is None:
        raise S.Unsupported("quads_to_tris not found")
    picks = []
    rows_factor = None
    for st in fn.body:
        if isinstance(st, ast.Assign) and len(st.targets) == 1:
            t = st.targets[0]
            # tris = np.empty((2 * len(quads), 3), dtype=...)
            if isinstance(t, ast.Name) and t.id == "tris":
                v = st.value
                if not (isinstance(v, ast.Call) and S.dotted(v.func) == "np.empty"):
                    raise S.Unsupported("tris is not np.empty(...)")
                shp = v.args[0]
                if not (isinstance(shp, ast.Tuple) and len(shp.elts) == 2 and isinstance(shp.elts[0], ast.BinOp)
                        and isinstance(shp.elts[0].op, ast.Mult) and isinstance(shp.elts[0].left, ast.Constant)
                        and ast.dump(shp.elts[0].right) == ast.dump(ast.parse("len(quads)", mode="eval").body)
                        and isinstance(shp.elts[1], ast.Constant)):
                    raise S.Unsupported("shape of tris")
                rows_factor = (shp.elts[0].left.value, shp.elts[1].value)
            # tris[a::b, :] = quads[:, [i, j, k]]
            if isinstance(t, ast.Subscript) and S.dotted(t.value) == "tris":
                sl = t.slice
                if not (isinstance(sl, ast.Tuple) and len(sl.elts) == 2 and isinstance(sl.elts[0], ast.Slice)
                        and isinstance(sl.elts[1], ast.Slice) and sl.elts[1].lower is None and sl.elts[1].upper is None
                        and sl.elts[1].step is None):
                    raise S.Unsupported("tris[...] target")
                s0 = sl.elts[0]
                if s0.upper is not None or not isinstance(s0.lower, ast.Constant) or not isinstance(s0.step, ast.Constant):
                    raise S.Unsupported("tris[a::b] slice")
                v = st.value
                if not (isinstance(v, ast.Subscript) and S.dotted(v.value) == "quads" and isinstance(v.slice, ast.Tuple)
                        and len(v.slice.elts) == 2 and isinstance(v.slice.elts[0], ast.Slice)
                        and v.slice.elts[0].lower is None and v.slice.elts[0].upper is None and v.slice.elts[0].step is None
                        and isinstance(v.slice.elts[1], ast.List)):
                    raise S.Unsupported("quads[:, [...]] source")
                cols = [c.value for c in v.slice.elts[1].elts if isinstance(c, ast.Constant) and isinstance(c.value, int)]
                if len(cols) != 3 or len(v.slice.elts[1].elts) != 3:
                    raise S.Unsupported("column pick")
                picks.append((int(s0.lower.value), int(s0.step.value), tuple(cols)))
    if rows_factor != (2, 3):
        raise S.Unsupported("tris is not (2 * len(quads), 3)")
    if not picks:
        raise S.Unsupported("no column picks found")
    # the non-mapping return must be `tris`
    rets = [n for n in ast.walk(fn) if isinstance(n, ast.Return)]
    if not any(isinstance(r.value, ast.Name) and r.value.id == "tris" for r in rets):
        raise S.Unsupported("quads_to_tris does not return tris")
    return picks


def guards_of(fn):
    ev = S.Evaluator()
    out = []
    for st in fn.body:
        if isinstance(st, ast.If) and len(st.body) == 1 and isinstance(st.body[0], ast.Raise):
            g = ev.guard(st.test, {})
            exc = st.body[0].exc
            cls = S.dotted(exc.func) if isinstance(exc, ast.Call) else S.dotted(exc)
            if g[0] == "not-isinstance":
                out.append([g[1], g[2], cls])
            else:
                out.append(["?", "?", str(cls)])
    return out


def maybe_flatten_ok(mod):
    fn = S.find_function(mod, "_maybe_flatten")
    if fn is None:
        return False
    want = ast.parse(
        "def _maybe_flatten(vertices, faces, ret_unique_vertices_and_faces):\n"
        "    if ret_unique_vertices_and_faces:\n"
        "        return vertices, faces\n"
        "    else:\n"
        "        return vertices[faces]\n").body[0]
    return ast.dump(fn) == ast.dump(want)


def str_list(xs):
    return "[" + ", ".join('"%s"' % x for x in xs) + "]"


def generate(repo):
    notes = {}
    try:
        mod = ast.parse(open(os.path.join(repo, SRC)).read())
    except Exception as e:  # noqa: BLE001
        mod = ast.parse("")
        notes["source"] = "FAILED to parse %s: %s" % (SRC, e)
    try:
        qmod = ast.parse(open(os.path.join(repo, QSRC)).read())
    except Exception as e:  # noqa: BLE001
        qmod = ast.parse("")
        notes["source-quads"] = "FAILED to parse %s: %s" % (QSRC, e)

    fns = {n.name: n for n in mod.body if isinstance(n, ast.FunctionDef)}

    def rect():
        ev = S.Evaluator()
        r = ev.run_function(fns["rectangular_prism"], {"origin": S.sym_vec("o"), "size": S.sym_vec("s"),
                                                       "ret_unique_vertices_and_faces": S.BoolE("u")})
        if not isinstance(r, S.Flattened) or not isinstance(r.faces, S.QuadsToTris):
            raise S.Unsupported("rectangular_prism does not return _maybe_flatten(vertices, quads_to_tris(...), flag)")
        if not (isinstance(r.flag, S.BoolE) and r.flag.lean == "u"):
            raise S.Unsupported("flag is not passed on")
        return S.rows_v3_lean(r.vertices, 8), S.tuples_lean(r.faces.quads)

    rect_v, rect_q = _attempt(notes, "rectangular_prism", rect, ("[]", "[]"))

    def cube():
        ev = S.Evaluator(functions={"rectangular_prism": fns["rectangular_prism"]})
        r = ev.run_function(fns["cube"], {"origin": S.sym_vec("o"), "size": S.Sc("sz"),
                                          "ret_unique_vertices_and_faces": S.BoolE("u")})
        if not isinstance(r, S.Flattened) or not isinstance(r.faces, S.QuadsToTris):
            raise S.Unsupported("cube does not end in rectangular_prism(...)")
        if not (isinstance(r.flag, S.BoolE) and r.flag.lean == "u"):
            raise S.Unsupported("flag is not passed on")
        return S.rows_v3_lean(r.vertices), S.tuples_lean(r.faces.quads)

    cube_v, cube_q = _attempt(notes, "cube", cube, ("[]", "[]"))

    def tri():
        ev = S.Evaluator()
        r = ev.run_function(fns["triangular_prism"], {"p1": S.sym_vec("p1"), "p2": S.sym_vec("p2"), "p3": S.sym_vec("p3"),
                                                      "height": S.Sc("h"), "ret_unique_vertices_and_faces": S.BoolE("u")})
        if not isinstance(r, S.Flattened):
            raise S.Unsupported("triangular_prism does not return _maybe_flatten(...)")
        if not (isinstance(r.flag, S.BoolE) and r.flag.lean == "u"):
            raise S.Unsupported("flag is not passed on")
        return S.rows_v3_lean(r.vertices), S.tuples_lean(S.int_rows(r.faces, 3))

    tri_v, tri_f = _attempt(notes, "triangular_prism", tri, ("[]", "[]"))
    picks = _attempt(notes, "quads_to_tris", lambda: quads_to_tris_picks(qmod), [])
    picks_lean = "[" + ", ".join("(%d, %d, (%d, %d, %d))" % (a, b, c[0], c[1], c[2]) for a, b, c in picks) + "]"
    cube_guards = _attempt(notes, "cube guards", lambda: guards_of(fns["cube"]), [])
    tri_guards = _attempt(notes, "triangular_prism guards", lambda: guards_of(fns["triangular_prism"]), [])
    mf = _attempt(notes, "_maybe_flatten", lambda: maybe_flatten_ok(mod), False)

    out = S.HEADER % ("c16.py", SRC + ", " + QSRC, "PW/Props/C16.lean", "ShapeT")
    out += "/-- `rectangular_prism`: `vertices` -/\n"
    out += "def rectVertices (o s : V3 K) : List (V3 K) :=\n  %s\n\n" % rect_v
    out += "/-- `rectangular_prism`: the quads handed to `quads_to_tris` -/\n"
    out += "def rectQuads : List (Nat × Nat × Nat × Nat) :=\n  %s\n\n" % rect_q
    out += "/-- `quads_to_tris`: `tris[start::step, :] = quads[:, [c0, c1, c2]]` as `(start, step, (c0, c1, c2))` -/\n"
    out += "def quadsToTrisPicks : List (Nat × Nat × (Nat × Nat × Nat)) :=\n  %s\n\n" % picks_lean
    out += "/-- `cube(origin, sz)` evaluated through its call of `rectangular_prism` -/\n"
    out += "def cubeVertices (o : V3 K) (sz : K) : List (V3 K) :=\n  %s\n\n" % cube_v
    out += "def cubeQuads : List (Nat × Nat × Nat × Nat) :=\n  %s\n\n" % cube_q
    out += "/-- `triangular_prism`: `vertices`, with `n` standing for `Plane.from_points(p1, p2, p3).normal` -/\n"
    out += "def triPrismVertices (p1 p2 p3 n : V3 K) (h : K) : List (V3 K) :=\n  %s\n\n" % tri_v
    out += "def triPrismFaces : List (Nat × Nat × Nat) :=\n  %s\n\n" % tri_f
    out += "/-- `if not isinstance(<arg>, <type>): raise <class>` statements, as `[arg, type, class]` -/\n"
    out += "def cubeGuards : List (List String) := [%s]\n" % ", ".join(str_list(g) for g in cube_guards)
    out += "def triPrismGuards : List (List String) := [%s]\n\n" % ", ".join(str_list(g) for g in tri_guards)
    out += "/-- `_maybe_flatten` is `(vertices, faces) if flag else vertices[faces]` -/\n"
    out += "def maybeFlattenOk : Bool := %s\n\n" % ("true" if mf else "false")
    out += "end PW.Gen.ShapeT\n"
    return [("ShapeTables.lean", out, notes)]
