"""Translator fragment for C15: literal tables / constants of polliwog/tri/functions.py,
polliwog/tri/quad_faces.py and polliwog/line/_line_functions.py -> lean/PW/Gen/TriTables.lean.

Extracted with python `ast` on the source text (polliwog is never imported here).  Fails closed: an anchor
that is not recognised yields an empty table / "?" string, which makes the `gen_*` theorems of
PW/Props/C15.lean false, i.e. a broken proof obligation.

  quadsToTrisPicks   [(row offset, row step, [column picks])]   tris[0::2, :] = quads[:, [0, 1, 2]] ...
  quadsMappingWidth  2                                          np.arange(len(tris)).reshape(-1, 2)
  edgeCols           [[0,1],[1,2],[2,0]]                        faces[:, 0:2], faces[:, 1:3], np.roll(faces, 1, axis=1)[:, 0:2]
  edgesInterleaved   true                                       np.swapaxes(interleaved_edges, 0, 1).reshape(-1, 2)
  edgesSortAxis      1                                          np.sort(flattened_edges, axis=1)
  normalCrossArgs    [(1,0),(2,0)]                              vg.cross(p2s - p1s, p3s - p1s)   (minuend, subtrahend) rows
  areaEdges          [(1,0),(2,0)]                              e1s = points[:,1]-points[:,0]; e2s = points[:,2]-points[:,0]
  areaCrossIdx       [(1,2,2,1),(2,0,0,2),(0,1,1,0)]            e1s[:, i]*e2s[:, j] - e1s[:, k]*e2s[:, l]
  areaFactor         (1, 2)                                     0.5 * np.sqrt(...)
  sameSideCmp        "GtE", sameSideRhs 0                       return vg.dot(...) >= 0
  sameSideArgs       along = b - a; cross(along, p1 - a), cross(along, p2 - a)
  containsCalls      sorted [["b","c","point","a"],["a","c","point","b"],["a","b","point","c"]]
  baryGuard          ("Eq", 0, 1)                               s[s == 0] = np.spacing(1)
  searchsortedSide   "left"                                     np.searchsorted(cum, x)  (no side keyword)
  reflectCmp         "Gt", reflectRhs 1                         coeffs.sum(axis=1).ravel() > 1
  randomSeed         1337
  faceDtype          "int64"
"""
import ast
import os


def _src(repo, rel):
    with open(os.path.join(repo, rel)) as f:
        return f.read()


def _func(tree, name):
    for n in tree.body:
        if isinstance(n, ast.FunctionDef) and n.name == name:
            return n
    return None


def _const_int(n):
    if isinstance(n, ast.Constant) and isinstance(n.value, int) and not isinstance(n.value, bool):
        return n.value
    if isinstance(n, ast.UnaryOp) and isinstance(n.op, ast.USub):
        v = _const_int(n.operand)
        return None if v is None else -v
    return None


def _name(n):
    return n.id if isinstance(n, ast.Name) else None


def _col_index(sub, base):
    """`base[:, i]` -> i"""
    if not (isinstance(sub, ast.Subscript) and _name(sub.value) == base):
        return None
    s = sub.slice
    if isinstance(s, ast.Tuple) and len(s.elts) == 2 and isinstance(s.elts[0], ast.Slice) \
            and s.elts[0].lower is None and s.elts[0].upper is None and s.elts[0].step is None:
        return _const_int(s.elts[1])
    return None


def _col_slice(sub, base):
    """`base[:, a:b]` -> (a, b)"""
    if not (isinstance(sub, ast.Subscript) and _name(sub.value) == base):
        return None
    s = sub.slice
    if isinstance(s, ast.Tuple) and len(s.elts) == 2 and isinstance(s.elts[0], ast.Slice) \
            and s.elts[0].lower is None and s.elts[0].upper is None and isinstance(s.elts[1], ast.Slice) \
            and s.elts[1].step is None:
        a, b = _const_int(s.elts[1].lower), _const_int(s.elts[1].upper)
        if a is not None and b is not None:
            return a, b
    return None


def _is_call(n, *path):
    """n is a call of dotted name path (np.stack ...)"""
    if not isinstance(n, ast.Call):
        return False
    f = n.func
    parts = []
    while isinstance(f, ast.Attribute):
        parts.append(f.attr)
        f = f.value
    if isinstance(f, ast.Name):
        parts.append(f.id)
    return tuple(reversed(parts)) == path


def _kw(call, name):
    for k in call.keywords:
        if k.arg == name:
            return k.value
    return None


def quads_picks(repo, notes):
    out = []
    width = 0
    try:
        fn = _func(ast.parse(_src(repo, "polliwog/tri/quad_faces.py")), "quads_to_tris")
        for st in ast.walk(fn):
            if isinstance(st, ast.Assign) and len(st.targets) == 1 and isinstance(st.targets[0], ast.Subscript) \
                    and _name(st.targets[0].value) == "tris":
                t = st.targets[0].slice
                v = st.value
                if not (isinstance(t, ast.Tuple) and len(t.elts) == 2 and isinstance(t.elts[0], ast.Slice)):
                    return [], 0
                off, step = _const_int(t.elts[0].lower), _const_int(t.elts[0].step)
                if t.elts[0].upper is not None or off is None or step is None:
                    return [], 0
                if not (isinstance(v, ast.Subscript) and _name(v.value) == "quads" and isinstance(v.slice, ast.Tuple)
                        and len(v.slice.elts) == 2 and isinstance(v.slice.elts[1], ast.List)):
                    return [], 0
                cols = [_const_int(e) for e in v.slice.elts[1].elts]
                if any(c is None or c < 0 for c in cols):
                    return [], 0
                out.append((off, step, cols))
            if _is_call(st, "reshape") or (isinstance(st, ast.Call) and isinstance(st.func, ast.Attribute) and st.func.attr == "reshape"):
                if len(st.args) == 2 and _const_int(st.args[0]) == -1 and _const_int(st.args[1]) is not None:
                    width = _const_int(st.args[1])
    except Exception as e:  # noqa: BLE001
        notes.append("quads_to_tris: %r" % (e,))
        return [], 0
    return out, width


def edge_cols(repo, notes):
    """-> (cols, interleaved, sort_axis)"""
    try:
        fn = _func(ast.parse(_src(repo, "polliwog/tri/functions.py")), "edges_of_faces")
        cols = []
        inter = False
        sort_axis = -99
        for st in ast.walk(fn):
            if _is_call(st, "np", "stack") and st.args and isinstance(st.args[0], ast.List):
                for e in st.args[0].elts:
                    sl = _col_slice(e, "faces")
                    if sl is not None:
                        cols.append(list(range(sl[0], sl[1])))
                        continue
                    # np.roll(faces, s, axis=1)[:, a:b]
                    if isinstance(e, ast.Subscript) and _is_call(e.value, "np", "roll"):
                        c = e.value
                        ax = _kw(c, "axis")
                        if len(c.args) == 2 and _name(c.args[0]) == "faces" and _const_int(c.args[1]) is not None \
                                and ax is not None and _const_int(ax) == 1:
                            s = _const_int(c.args[1])
                            fake = ast.Subscript(value=ast.Name(id="faces"), slice=e.slice)
                            sl = _col_slice(fake, "faces")
                            if sl is not None:
                                cols.append([(j - s) % 3 for j in range(sl[0], sl[1])])
                                continue
                    return [], False, -99
            if isinstance(st, ast.Call) and isinstance(st.func, ast.Attribute) and st.func.attr == "reshape" \
                    and _is_call(st.func.value, "np", "swapaxes"):
                sw = st.func.value
                if len(sw.args) == 3 and sorted([_const_int(sw.args[1]), _const_int(sw.args[2])]) == [0, 1] \
                        and [_const_int(a) for a in st.args] == [-1, 2]:
                    inter = True
            if _is_call(st, "np", "sort"):
                ax = _kw(st, "axis")
                if ax is not None and _const_int(ax) is not None:
                    sort_axis = _const_int(ax)
        return cols, inter, sort_axis
    except Exception as e:  # noqa: BLE001
        notes.append("edges_of_faces: %r" % (e,))
        return [], False, -99


def _assigns(fn):
    d = {}
    for st in fn.body:
        if isinstance(st, ast.Assign) and len(st.targets) == 1 and isinstance(st.targets[0], ast.Name):
            d[st.targets[0].id] = st.value
    return d


def _row_of(expr, env, base, depth=0):
    """resolve `points[:, i]` (possibly through names) -> i"""
    if depth > 4:
        return None
    i = _col_index(expr, base)
    if i is not None:
        return i
    if isinstance(expr, ast.Name) and expr.id in env:
        return _row_of(env[expr.id], env, base, depth + 1)
    return None


def _edge_of(expr, env, base, depth=0):
    """resolve `X - Y` with X, Y rows of base -> (i, j)"""
    if depth > 4:
        return None
    if isinstance(expr, ast.BinOp) and isinstance(expr.op, ast.Sub):
        a, b = _row_of(expr.left, env, base), _row_of(expr.right, env, base)
        if a is not None and b is not None:
            return (a, b)
        return None
    if isinstance(expr, ast.Name) and expr.id in env:
        return _edge_of(env[expr.id], env, base, depth + 1)
    return None


def normal_cross_args(repo, notes):
    try:
        fn = _func(ast.parse(_src(repo, "polliwog/tri/functions.py")), "surface_normals")
        env = _assigns(fn)
        c = env.get("normals")
        if not _is_call(c, "vg", "cross") or len(c.args) != 2:
            return []
        out = [_edge_of(a, env, "points") for a in c.args]
        return [] if any(o is None for o in out) else out
    except Exception as e:  # noqa: BLE001
        notes.append("surface_normals: %r" % (e,))
        return []


def area_tables(repo, notes):
    """-> (edges, crossIdx, factor)"""
    try:
        fn = _func(ast.parse(_src(repo, "polliwog/tri/functions.py")), "surface_area")
        env = _assigns(fn)
        edges = [_edge_of(env.get("e1s"), env, "points"), _edge_of(env.get("e2s"), env, "points")]
        if any(e is None for e in edges):
            return [], [], (0, 1)
        cp = env.get("cross_products")
        # np.array([...]).T
        if not (isinstance(cp, ast.Attribute) and cp.attr == "T" and _is_call(cp.value, "np", "array")
                and isinstance(cp.value.args[0], ast.List)):
            return [], [], (0, 1)
        idx = []
        for e in cp.value.args[0].elts:
            if not (isinstance(e, ast.BinOp) and isinstance(e.op, ast.Sub) and isinstance(e.left, ast.BinOp)
                    and isinstance(e.left.op, ast.Mult) and isinstance(e.right, ast.BinOp) and isinstance(e.right.op, ast.Mult)):
                return [], [], (0, 1)
            q = (_col_index(e.left.left, "e1s"), _col_index(e.left.right, "e2s"),
                 _col_index(e.right.left, "e1s"), _col_index(e.right.right, "e2s"))
            if any(x is None for x in q):
                return [], [], (0, 1)
            idx.append(q)
        ar = env.get("areas")
        factor = (0, 1)
        if isinstance(ar, ast.BinOp) and isinstance(ar.op, ast.Mult) and isinstance(ar.left, ast.Constant) \
                and isinstance(ar.left.value, float) and _is_call(ar.right, "np", "sqrt"):
            from fractions import Fraction
            fr = Fraction(ar.left.value)
            # ((cross_products ** 2).sum(axis=1))
            inner = ar.right.args[0]
            ok = isinstance(inner, ast.Call) and isinstance(inner.func, ast.Attribute) and inner.func.attr == "sum" \
                and isinstance(inner.func.value, ast.BinOp) and isinstance(inner.func.value.op, ast.Pow) \
                and _name(inner.func.value.left) == "cross_products" and _const_int(inner.func.value.right) == 2 \
                and _kw(inner, "axis") is not None and _const_int(_kw(inner, "axis")) == 1
            if ok:
                factor = (fr.numerator, fr.denominator)
        return edges, idx, factor
    except Exception as e:  # noqa: BLE001
        notes.append("surface_area: %r" % (e,))
        return [], [], (0, 1)


CMP = {ast.GtE: "GtE", ast.Gt: "Gt", ast.LtE: "LtE", ast.Lt: "Lt", ast.Eq: "Eq", ast.NotEq: "NotEq"}


def _cmp(n):
    if isinstance(n, ast.Compare) and len(n.ops) == 1 and type(n.ops[0]) in CMP:
        r = _const_int(n.comparators[0])
        if r is not None:
            return CMP[type(n.ops[0])], r, n.left
    return None


def same_side(repo, notes):
    """-> (cmp, rhs, args) ; args = [["b","a"], ["along_line", "p1","a"], ["along_line","p2","a"]] flattened as strings"""
    try:
        fn = _func(ast.parse(_src(repo, "polliwog/line/_line_functions.py")), "coplanar_points_are_on_same_side_of_line")
        env = _assigns(fn)
        ret = [s for s in fn.body if isinstance(s, ast.Return)][-1].value
        c = _cmp(ret)
        if c is None or not _is_call(c[2], "vg", "dot") or len(c[2].args) != 2:
            return "?", 0, []
        al = env.get("along_line")
        if not (isinstance(al, ast.BinOp) and isinstance(al.op, ast.Sub)):
            return "?", 0, []
        args = [_name(al.left) or "?", _name(al.right) or "?"]
        for cr in c[2].args:
            if not _is_call(cr, "vg", "cross") or len(cr.args) != 2 or _name(cr.args[0]) != "along_line":
                return "?", 0, []
            d = cr.args[1]
            if not (isinstance(d, ast.BinOp) and isinstance(d.op, ast.Sub)):
                return "?", 0, []
            args += [_name(d.left) or "?", _name(d.right) or "?"]
        params = [a.arg for a in fn.args.args]
        return c[0], c[1], ["/".join(params)] + args
    except Exception as e:  # noqa: BLE001
        notes.append("same_side: %r" % (e,))
        return "?", 0, []


def contains_calls(repo, notes):
    """the same-side calls of `tri_contains_coplanar_point`, read through the symbolic reader of `_symsrc` (an extracted
    temporary, `x & y` for `np.logical_and(x, y)` and the order of the conjuncts are immaterial)"""
    try:
        from ._symsrc import Sym
        fn = _func(ast.parse(_src(repo, "polliwog/tri/functions.py")), "tri_contains_coplanar_point")
        rets = Sym(fn).returns()
        if len(rets) != 1:
            return []
        calls = []

        def walk(n):
            if isinstance(n, ast.BoolOp) and isinstance(n.op, ast.And):
                return all(walk(v) for v in n.values)
            if _is_call(n, "np", "logical_and") and len(n.args) == 2:
                return walk(n.args[0]) and walk(n.args[1])
            if _is_call(n, "coplanar_points_are_on_same_side_of_line") and len(n.args) == 4 and not n.keywords:
                names = [_name(a) for a in n.args]
                if all(names):
                    calls.append(names)
                    return True
            return False
        if not walk(rets[0]):
            return []
        return sorted(calls)  # the order of the conjuncts is immaterial
    except Exception as e:  # noqa: BLE001
        notes.append("contains: %r" % (e,))
        return []


def sample_consts(repo, notes):
    """-> dict side, reflectCmp, reflectRhs, seed, faceDtype, guard"""
    d = {"side": "?", "rcmp": "?", "rrhs": 0, "seed": 0, "dtype": "?", "guard": ("?", 0, 0), "draws": []}
    try:
        tree = ast.parse(_src(repo, "polliwog/tri/functions.py"))
        for st in tree.body:
            if isinstance(st, ast.Assign) and len(st.targets) == 1:
                nm = _name(st.targets[0])
                if nm == "RANDOM_SEED" and _const_int(st.value) is not None:
                    d["seed"] = _const_int(st.value)
                if nm == "FACE_DTYPE" and isinstance(st.value, ast.Attribute) and _name(st.value.value) == "np":
                    d["dtype"] = st.value.attr
        fn = _func(tree, "sample")
        n_ss = 0
        for st in ast.walk(fn):
            if _is_call(st, "np", "searchsorted"):
                n_ss += 1
                side = _kw(st, "side")
                if side is None and len(st.args) == 2 and not st.keywords:
                    d["side"] = "left"
                elif side is not None and isinstance(side, ast.Constant) and isinstance(side.value, str):
                    d["side"] = side.value
            if isinstance(st, ast.Assign) and len(st.targets) == 1 and _name(st.targets[0]) == "coeffs_needing_reflection":
                c = _cmp(st.value)
                if c is not None:
                    d["rcmp"], d["rrhs"] = c[0], c[1]
        if n_ss != 1:
            d["side"] = "?"
        # order and sizes of the rng.random calls, in source order
        calls = sorted((n for n in ast.walk(fn) if _is_call(n, "rng", "random")), key=lambda n: (n.lineno, n.col_offset))
        for c in calls:
            if len(c.args) == 1 and _name(c.args[0]) == "num_samples":
                d["draws"].append([])
            elif len(c.args) == 1 and isinstance(c.args[0], ast.Tuple) and _name(c.args[0].elts[0]) == "num_samples":
                dims = [_const_int(e) for e in c.args[0].elts[1:]]
                d["draws"].append([0 if x is None else x for x in dims])
            else:
                d["draws"].append([0, 0, 0])
        # guard of barycentric_coordinates_of_points:  s[s == 0] = np.spacing(1)
        fb = _func(tree, "barycentric_coordinates_of_points")
        for st in fb.body:
            if isinstance(st, ast.Assign) and isinstance(st.targets[0], ast.Subscript) and _name(st.targets[0].value) == "s":
                c = _cmp(st.targets[0].slice)
                if c is not None and _name(c[2]) == "s" and _is_call(st.value, "np", "spacing") and _const_int(st.value.args[0]) is not None:
                    d["guard"] = (c[0], c[1], _const_int(st.value.args[0]))
    except Exception as e:  # noqa: BLE001
        notes.append("sample consts: %r" % (e,))
    return d


def lnat_list(xs):
    return "[" + ", ".join(str(x) for x in xs) + "]"


def lstr(s):
    return '"' + str(s).replace("\\", "\\\\").replace('"', '\\"') + '"'


def generate(repo):
    notes = []
    picks, width = quads_picks(repo, notes)
    cols, inter, sort_axis = edge_cols(repo, notes)
    ncross = normal_cross_args(repo, notes)
    aedges, aidx, afac = area_tables(repo, notes)
    scmp, srhs, sargs = same_side(repo, notes)
    ccalls = contains_calls(repo, notes)
    sc = sample_consts(repo, notes)
    L = []
    L.append("-- generated by harness/translate/c15.py from polliwog/tri/functions.py, tri/quad_faces.py, line/_line_functions.py")
    L.append("-- (do not edit; regenerated from the source on every check run)")
    L.append("namespace PW.Gen.TriTables")
    L.append("")
    L.append("/-- `tris[off::step, :] = quads[:, cols]` of quads_to_tris, in source order -/")
    L.append("def quadsToTrisPicks : List (Nat × Nat × List Nat) := [" +
             ", ".join("(%d, %d, %s)" % (o, s, lnat_list(c)) for o, s, c in picks) + "]")
    L.append("/-- second dimension of `f_old_to_new = np.arange(len(tris)).reshape(-1, w)` -/")
    L.append("def quadsMappingWidth : Nat := %d" % max(width, 0))
    L.append("/-- column selections stacked by edges_of_faces (slices and the rolled slice, resolved to original columns) -/")
    L.append("def edgeCols : List (List Nat) := [" + ", ".join(lnat_list(c) for c in cols) + "]")
    L.append("/-- `np.swapaxes(interleaved_edges, 0, 1).reshape(-1, 2)`: the three edges of a face are adjacent rows -/")
    L.append("def edgesInterleaved : Bool := %s" % ("true" if inter else "false"))
    L.append("/-- axis of the `np.sort` used when normalize=True (1 = within each edge) -/")
    L.append("def edgesSortAxis : Int := %d" % sort_axis)
    L.append("/-- surface_normals: `vg.cross(points[:,i]-points[:,j], points[:,k]-points[:,l])` as [(i,j),(k,l)] -/")
    L.append("def normalCrossArgs : List (Nat × Nat) := [" + ", ".join("(%d, %d)" % e for e in ncross) + "]")
    L.append("/-- surface_area: e1s, e2s as (minuend row, subtrahend row) -/")
    L.append("def areaEdges : List (Nat × Nat) := [" + ", ".join("(%d, %d)" % e for e in aedges) + "]")
    L.append("/-- surface_area: component `e1s[:,i]*e2s[:,j] - e1s[:,k]*e2s[:,l]` as (i,j,k,l) -/")
    L.append("def areaCrossIdx : List (Nat × Nat × Nat × Nat) := [" + ", ".join("(%d, %d, %d, %d)" % q for q in aidx) + "]")
    L.append("/-- the literal factor in `0.5 * np.sqrt((cross_products**2).sum(axis=1))` as numerator/denominator -/")
    L.append("def areaFactor : Nat × Nat := (%d, %d)" % afac)
    L.append("/-- coplanar_points_are_on_same_side_of_line: comparison of the final dot product -/")
    L.append("def sameSideCmp : String := %s" % lstr(scmp))
    L.append("def sameSideRhs : Int := %d" % srhs)
    L.append("/-- parameters; along_line = X - Y; cross(along_line, X - Y) twice -/")
    L.append("def sameSideArgs : List String := [" + ", ".join(lstr(a) for a in sargs) + "]")
    L.append("/-- tri_contains_coplanar_point: argument names of the same-side calls combined by logical_and -/")
    L.append("def containsCalls : List (List String) := [" + ", ".join("[" + ", ".join(lstr(a) for a in c) + "]" for c in ccalls) + "]")
    L.append("/-- barycentric zero-area guard `s[s == 0] = np.spacing(1)`: (comparison, rhs, spacing argument) -/")
    L.append("def baryGuard : String × Int × Int := (%s, %d, %d)" % (lstr(sc["guard"][0]), sc["guard"][1], sc["guard"][2]))
    L.append("/-- `side` of the np.searchsorted call in sample (default left) -/")
    L.append("def searchsortedSide : String := %s" % lstr(sc["side"]))
    L.append("/-- reflection test `coeffs.sum(axis=1).ravel() > 1` -/")
    L.append("def reflectCmp : String := %s" % lstr(sc["rcmp"]))
    L.append("def reflectRhs : Int := %d" % sc["rrhs"])
    L.append("/-- trailing dimensions of the rng.random calls of sample, in source order ([] = `rng.random(num_samples)`) -/")
    L.append("def sampleDraws : List (List Nat) := [" + ", ".join(lnat_list(x) for x in sc["draws"]) + "]")
    L.append("def randomSeed : Nat := %d" % max(sc["seed"], 0))
    L.append("def faceDtype : String := %s" % lstr(sc["dtype"]))
    L.append("")
    L.append("end PW.Gen.TriTables")
    return [("TriTables.lean", "\n".join(L) + "\n", "; ".join(notes) or "ok")]
