"""Translator fragment for C07: literal pieces of the closest-point code, re-read from the source on every run.

  polliwog/segment/_segment_functions.py  closest_point_of_line_segment:
        `np.clip(t, LO, HI)` bounds, whether the quotient is wrapped in `np.nan_to_num`
  polliwog/polyline/_polyline_object.py    index_of_vertex:  default `atol`
                                           nearest: the reduction (`np.argmin`), the condition of the tuple branch
                                           (`if ret_segment_indices or ret_distances:`) and the order in which the
                                           optional outputs are appended inside it

Writes lean/PW/Gen/C07Nearest.lean; PW.Props.C07.gen_* prove that these are what the model uses.  Fails closed:
an anchor that is not recognised yields a value that makes those theorems false.
"""
import ast
import os
from fractions import Fraction

FLAGS = ("ret_segment_indices", "ret_distances", "ret_t_values")


def _func(tree, name):
    for node in ast.walk(tree):
        if isinstance(node, ast.FunctionDef) and node.name == name:
            return node
    return None


def _is_np_call(node, attr):
    return (isinstance(node, ast.Call) and isinstance(node.func, ast.Attribute) and node.func.attr == attr
            and isinstance(node.func.value, ast.Name) and node.func.value.id == "np")


def _int_const(node):
    if isinstance(node, ast.Constant) and isinstance(node.value, (int, float)) and not isinstance(node.value, bool) \
            and float(node.value) == int(node.value):
        return int(node.value)
    if isinstance(node, ast.UnaryOp) and isinstance(node.op, ast.USub):
        v = _int_const(node.operand)
        return None if v is None else -v
    return None


def _bool_expr(node):
    """boolean expression over the three flags -> Lean text, or None"""
    if isinstance(node, ast.Name) and node.id in FLAGS:
        return {"ret_segment_indices": "si", "ret_distances": "sd", "ret_t_values": "st"}[node.id]
    if isinstance(node, ast.BoolOp):
        parts = [_bool_expr(v) for v in node.values]
        if any(p is None for p in parts):
            return None
        op = " || " if isinstance(node.op, ast.Or) else " && "
        return "(" + op.join(parts) + ")"
    if isinstance(node, ast.UnaryOp) and isinstance(node.op, ast.Not):
        p = _bool_expr(node.operand)
        return None if p is None else "(!" + p + ")"
    return None


def generate(repo):
    notes = []
    clip_lo, clip_hi, nan_to_num = 7, -7, False          # fail-closed defaults
    atol = Fraction(-1)
    cond = "false"
    order = []
    else_bare = False
    argfn = "?"
    try:
        src = open(os.path.join(repo, "polliwog", "segment", "_segment_functions.py")).read()
        fn = _func(ast.parse(src), "closest_point_of_line_segment")
        clips = [n for n in ast.walk(fn) if _is_np_call(n, "clip")] if fn else []
        if len(clips) == 1 and len(clips[0].args) == 3 and not clips[0].keywords:
            lo, hi = _int_const(clips[0].args[1]), _int_const(clips[0].args[2])
            if lo is not None and hi is not None:
                clip_lo, clip_hi = lo, hi
            else:
                notes.append("clip bounds are not integer literals")
        else:
            notes.append("np.clip(t, lo, hi) not found exactly once")
        n2n = [n for n in ast.walk(fn) if _is_np_call(n, "nan_to_num")] if fn else []
        nan_to_num = (len(n2n) == 1 and len(n2n[0].args) == 1 and not n2n[0].keywords
                      and isinstance(n2n[0].args[0], ast.BinOp) and isinstance(n2n[0].args[0].op, ast.Div))
        if not nan_to_num:
            notes.append("np.nan_to_num(<quotient>) not found")
    except Exception as e:  # noqa: BLE001
        notes.append("segment functions: %s" % e)
    try:
        src = open(os.path.join(repo, "polliwog", "polyline", "_polyline_object.py")).read()
        tree = ast.parse(src)
        iov = _func(tree, "index_of_vertex")
        if iov is not None:
            names = [a.arg for a in iov.args.args]
            defaults = iov.args.defaults
            if "atol" in names:
                k = names.index("atol") - (len(names) - len(defaults))
                if 0 <= k < len(defaults):
                    txt = ast.get_source_segment(src, defaults[k])
                    try:
                        atol = Fraction(txt)
                    except (ValueError, TypeError):
                        notes.append("index_of_vertex atol default is not a literal: %r" % txt)
        else:
            notes.append("index_of_vertex not found")
        nr = _func(tree, "nearest")
        if nr is not None:
            red = [n.func.attr for n in ast.walk(nr) if isinstance(n, ast.Call) and isinstance(n.func, ast.Attribute)
                   and n.func.attr in ("argmin", "argmax", "nanargmin", "nanargmax", "argsort")]
            argfn = red[0] if len(red) == 1 else "?" + ",".join(red)
            top_ifs = [n for n in nr.body if isinstance(n, ast.If)]
            if len(top_ifs) == 1:
                c = _bool_expr(top_ifs[0].test)
                if c is not None:
                    cond = c
                else:
                    notes.append("tuple-branch condition not a boolean expression of the flags")
                for st in top_ifs[0].body:
                    if isinstance(st, ast.If) and isinstance(st.test, ast.Name) and st.test.id in FLAGS and not st.orelse \
                            and len(st.body) == 1 and isinstance(st.body[0], ast.Expr) \
                            and isinstance(st.body[0].value, ast.Call) \
                            and isinstance(st.body[0].value.func, ast.Attribute) and st.body[0].value.func.attr == "append":
                        order.append(st.test.id)
                    elif isinstance(st, ast.If):
                        order.append("?")
                orelse = top_ifs[0].orelse
                else_bare = (len(orelse) == 1 and isinstance(orelse[0], ast.Return)
                             and isinstance(orelse[0].value, ast.Call) and isinstance(orelse[0].value.func, ast.Name)
                             and orelse[0].value.func.id == "transform_result")
            else:
                notes.append("nearest: expected exactly one top-level if")
        else:
            notes.append("nearest not found")
    except Exception as e:  # noqa: BLE001
        notes.append("polyline object: %s" % e)
    lean = """-- generated by harness/translate/c07.py from polliwog/segment/_segment_functions.py and
-- polliwog/polyline/_polyline_object.py -- do not edit
set_option linter.unusedVariables false

namespace PW.Gen

/-- `np.clip(t, lo, hi)` in closest_point_of_line_segment -/
def c07ClipLo : Int := %d
def c07ClipHi : Int := %d
/-- the quotient is wrapped in `np.nan_to_num` -/
def c07NanToNum : Bool := %s
/-- default `atol` of `index_of_vertex`, as the exact decimal of the source literal -/
def c07AtolNum : Int := %d
def c07AtolDen : Nat := %d
/-- the reduction `nearest` applies to the per-segment distances -/
def c07Reduction : String := "%s"
/-- `nearest`: condition of the branch that builds a tuple -/
def c07TupleCond (si sd st : Bool) : Bool := %s
/-- `nearest`: the optional outputs appended inside that branch, in order -/
def c07AppendOrder : List String := [%s]
/-- `nearest`: the else branch returns the bare points -/
def c07ElseBare : Bool := %s

end PW.Gen
""" % (clip_lo, clip_hi, "true" if nan_to_num else "false", atol.numerator, atol.denominator, argfn, cond,
       ", ".join('"%s"' % o for o in order), "true" if else_bare else "false")
    return [("C07Nearest.lean", lean, "; ".join(notes) or "ok")]
