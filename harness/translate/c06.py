"""Translator fragment for C06 (slicing a polyline by a plane): the sign tests, index offsets, NaN rules and refusal
conditions of
    polliwog/polyline/_slice_by_plane.py     slice_open_polyline_by_plane
    polliwog/polyline/_polyline_object.py    Polyline.sliced_by_plane      (the closed branch: the roll)
    polliwog/plane/_plane_intersect.py       intersect_segment_with_plane
-> lean/PW/Gen/PolySlice.lean (namespace PW.Gen.PolySlice), tied to PW/Model/SliceByPlane.lean by the `gen_*` theorems
at the end of PW/Props/C06.lean.

Everything is read from the source text through the symbolic reader of `_symsrc.py`: local names are replaced by what
they were assigned, so the anchors are found by *structure* (what is returned, under which conditions something is
raised) and a renamed / added temporary, reordered commutative operands or a mirrored comparison change nothing.
In the emitted strings the large sub-expressions are abbreviated by labels assigned by structure:
  SIGNS (np.sign of the signed distances), TP (transition points), COMPONENTS (np.vsplit …), CSIGNS (sign per
  component), CIF (components in front), C (the one component in front), FRONT (= COMPONENTS[C]); ROLL, ROLLED, WORKING,
  VIF / VNF (vertices in front / not in front) for `sliced_by_plane`; T for the parameter of the intersection.
Fails closed: an anchor that is not recognised is emitted as a value that falsifies its tying theorem.
"""
import ast

from ._symsrc import (SRCOPS_FILE, Out, Sym, affine, affine1, as_int, cmp_parts, exc_name, find, find_def, func_shape,
                      match, read_tree, safe, text)


def _open_slicer(o, tree):
    fn = find_def(tree, "slice_open_polyline_by_plane")
    s = safe(lambda: Sym(fn))
    ret = safe(lambda: [(c, e) for c, k, e in s.events if k == "return"])
    ret = ret[0] if ret and len(ret) == 1 else (None, None)
    conds, rexpr = ret

    # the refusal conditions: the `len(...) op n` tests on the way to the return, all of them not taken
    def refusals():
        out = []
        for c, pol in conds:
            m = match("len(_X)", cmp_parts(c)[1]) if cmp_parts(c) else None
            if m is not None:
                if pol is not False:
                    return None
                out.append((cmp_parts(c)[0], m["_X"], as_int(cmp_parts(c)[2])))
        return out if len(out) == 3 else None
    rf = safe(refusals) or [(None, None, None)] * 3

    def raised():
        """class raised under each of the three conditions (the event whose last condition is that test, taken)"""
        out = []
        for conds_r, e in s.raises():
            c, pol = conds_r[-1]
            if cmp_parts(c) and match("len(_X)", cmp_parts(c)[1]) is not None and pol is True:
                out.append(exc_name(e))
        return out if len(out) == 3 else None
    classes = safe(raised)

    def empty_check():
        c, pol = conds[0]
        op, lhs, rhs = cmp_parts(c)
        cls = [exc_name(e) for cr, e in s.raises() if len(cr) == 1 and cr[0][1] is True]
        return op, as_int(rhs), (cls[0] if len(cls) == 1 else None), pol is False
    ec = safe(empty_check, (None, None, None, None))

    cif, comps = rf[0][1], rf[2][1]
    same_cif = safe(lambda: text(rf[0][1]) == text(rf[1][1]), False)
    m_cif = safe(lambda: match("_only((_CS == _F).nonzero())", cif)) or {}
    csigns = m_cif.get("_CS")
    m_cs = safe(lambda: match("_S[np.concatenate([[_Z], _CUTS])]", csigns)) or {}
    signs = m_cs.get("_S")
    cuts1 = safe(lambda: affine1(m_cs["_CUTS"]), (None, None, None))
    m_comp = safe(lambda: match("np.vsplit(vertices, _CUTS)", comps)) or {}
    cuts2 = safe(lambda: affine1(m_comp["_CUTS"]), (None, None, None))
    tp = cuts2[1]
    same_tp = safe(lambda: text(cuts1[1]) == text(cuts2[1]), False)
    m_tp = safe(lambda: match("_only((_A != _B).nonzero())", tp)) or {}
    m_run = safe(lambda: match("np.vstack([_PRE, _RUN, _POST])", rexpr)) or {}
    front = m_run.get("_RUN")
    m_front = safe(lambda: match("_COMPS[_only(_CIF)]", front)) or {}
    c = safe(lambda: front.slice)
    abbr = [("FRONT", front), ("COMPONENTS", comps), ("C", c), ("CIF", cif), ("CSIGNS", csigns), ("TP", tp),
            ("SIGNS", signs)]

    o.cmp("emptyCmp", ec[0], "`slice_open_polyline_by_plane`: first refusal, `num_v op n` (no vertices)")
    o.int("emptyRhs", ec[1])
    o.str("emptyRaises", ec[2])
    o.blank()
    o.str("signsSrc", safe(lambda: text(signs)), "SIGNS: the sign of every vertex")
    o.cmp("transitionCmp", "ne" if m_tp else None, "TP = `(a op b).nonzero()` …")
    o.strs("transitionOperands", safe(lambda: sorted([text(m_tp["_A"], abbr), text(m_tp["_B"], abbr)])),
           "… between these two slices of SIGNS (sorted)")
    o.int("splitCoef", cuts2[0], "COMPONENTS = `np.vsplit(vertices, c * TP + d)`")
    o.int("splitOffset", cuts2[2])
    o.int("signIndexFirst", safe(lambda: as_int(m_cs["_Z"])), "CSIGNS = `SIGNS[np.concatenate([[z], c * TP + d])]`")
    o.int("signIndexCoef", cuts1[0])
    o.int("signIndexOffset", cuts1[2])
    o.bool("sameTransitionPoints", same_tp, "both use the same TP")
    o.cmp("frontCmp", "eq" if m_cif else None, "CIF = `(CSIGNS op s).nonzero()`")
    o.int("frontSign", safe(lambda: as_int(m_cif["_F"])))
    o.blank()
    for nm, i, what in (("noneInFront", 0, "CIF"), ("tooMany", 1, "CIF"), ("allInFront", 2, "COMPONENTS")):
        o.cmp(nm + "Cmp", rf[i][0], "refusal: `len(%s) op n` (in this order, each reached only if the earlier ones do not hold)" % what)
        o.int(nm + "Rhs", rf[i][2])
        o.str(nm + "Of", safe(lambda: text(rf[i][1], abbr)))
    o.bool("sameComponentsInFront", same_cif, "the first two refusals test the same CIF")
    o.strs("refusalRaises", classes, "the classes raised by the three refusals")
    o.blank()
    o.str("runSrc", safe(lambda: text(front, abbr[1:])), "FRONT: the kept run")
    o.bool("runIsTheOneInFront", safe(lambda: text(m_front["_COMPS"]) == text(comps) and text(m_front["_CIF"]) == text(cif), False),
           "FRONT = COMPONENTS[the single element of CIF]")
    o.blank()

    # the local helper that computes a crossing point (called in the two blocks above)
    def helper():
        pre = match("(_KEEP if _Z else _CROSS) if _G else _EMPTY", m_run["_PRE"])
        post = match("(_KEEP if _Z else _CROSS) if _G else _EMPTY", m_run["_POST"])
        name = pre["_CROSS"].func.id
        if post["_CROSS"].func.id != name or len(pre["_CROSS"].args) != 2 or pre["_CROSS"].keywords:
            return None
        local = [st for st in fn.body if isinstance(st, ast.FunctionDef) and st.name == name]
        if len(local) != 1:
            return None
        ps = [a.arg for a in local[0].args.args]
        if len(ps) != 2:
            return None
        rs = Sym(local[0], {ps[0]: ast.Name(id="START", ctx=ast.Load()), ps[1]: ast.Name(id="END", ctx=ast.Load())}).returns()
        return (name, rs[0]) if len(rs) == 1 else None
    hp = safe(helper, (None, None))
    ret = hp[1]
    dist = safe(lambda: find("_item(_D, 0, 2)", ret)["_D"])
    ds, de = safe(lambda: find("_item(_D, 0, 2)", ret)["_"]), safe(lambda: find("_item(_D, 1, 2)", ret)["_"])
    habbr = [("D_START", ds), ("D_END", de)]
    q = safe(lambda: find("_N / _DEN", ret)) or {}
    dcoef = safe(lambda: {text(n, habbr): (int(k) if k.denominator == 1 else None) for k, n in affine(q["_DEN"])[1]}) or {}
    o.str("crossingDistancesSrc", safe(lambda: text(dist)),
          "the local crossing helper `f(START, END)`: (D_START, D_END) = this")
    o.str("crossingSrc", safe(lambda: text(ret, habbr)), "what it returns")
    o.bool("crossingNumeratorIsStart", safe(lambda: text(q["_N"], habbr) == "D_START" and affine(q["_DEN"])[0] == 0 and len(dcoef) == 2, False),
           "the quotient in it is `D_START / (a * D_START + b * D_END)`")
    o.int("crossingDenStartCoef", dcoef.get("D_START"))
    o.int("crossingDenEndCoef", dcoef.get("D_END"))
    o.str("prependSrc", safe(lambda: text(m_run["_PRE"], abbr).replace(hp[0] + "(", "CROSSING(")),
          "the row(s) put before the run (CROSSING = the helper)")
    o.str("appendSrc", safe(lambda: text(m_run["_POST"], abbr).replace(hp[0] + "(", "CROSSING(")),
          "the row(s) put after the run")

    # the same two blocks, structured:  (KEEP if ON_PLANE else CROSSING(x, y)) if GUARD else <no rows>
    def block(node, which):
        m = match("(_KEEP if _Z else _CROSS) if _G else _EMPTY", node)
        g = cmp_parts(m["_G"])
        mk = match("_COMPS[_CI][_ROW]", m["_KEEP"])
        if text(mk["_COMPS"]) != text(comps):
            return None
        ci = affine1(mk["_CI"])
        z = cmp_parts(m["_Z"])
        mz = match("_CS[_SI]", z[1])
        si = affine1(mz["_SI"])
        if text(mz["_CS"]) != text(csigns) or text(ci[1]) != text(c) or text(si[1]) != text(c):
            return None
        order, run_idx = [], None
        for a in m["_CROSS"].args:
            if text(a) == text(m["_KEEP"]):
                order.append("neighbour")
            else:
                mr = match("_F[_I]", a)
                if mr is None or text(mr["_F"]) != text(front):
                    return None
                order.append("run")
                run_idx = as_int(mr["_I"])
        me = match("np.zeros((_N, 3))", m["_EMPTY"])
        d = dict(comp_off=ci[2] if ci[0] == 1 else None, row=as_int(mk["_ROW"]), z_cmp=z[0], z_rhs=as_int(z[2]),
                 sign_off=si[2] if si[0] == 1 else None, order=order, run_idx=run_idx, empty=as_int(me["_N"]))
        if which == "pre":       # GUARD = `C op n`
            d.update(g_cmp=g[0] if text(g[1]) == text(c) else None, g_rhs=as_int(g[2]), g_off=0)
        else:                    # GUARD = `C + k op len(COMPONENTS)`
            gl = affine1(g[1])
            ok = gl[0] == 1 and text(gl[1]) == text(c) and match("len(_X)", g[2]) is not None \
                and text(match("len(_X)", g[2])["_X"]) == text(comps)
            d.update(g_cmp=g[0] if ok else None, g_rhs=None, g_off=gl[2])
        return d
    for nm, key, which in (("prepend", "_PRE", "pre"), ("append", "_POST", "post")):
        b = safe(lambda: block(m_run[key], which)) or {}
        o.cmp(nm + "GuardCmp", b.get("g_cmp"), "`%s`: rows are added when `C + k op %s`" % (nm, "n" if which == "pre" else "len(COMPONENTS)"))
        o.int(nm + "GuardOffset", b.get("g_off"))
        if which == "pre":
            o.int(nm + "GuardRhs", b.get("g_rhs"))
        o.int(nm + "CompOffset", b.get("comp_off"), "the neighbour is `COMPONENTS[C + k][row]`")
        o.int(nm + "RowIndex", b.get("row"))
        o.cmp(nm + "OnPlaneCmp", b.get("z_cmp"), "kept as it is when `CSIGNS[C + k'] op n`")
        o.int(nm + "SignOffset", b.get("sign_off"))
        o.int(nm + "OnPlaneRhs", b.get("z_rhs"))
        o.strs(nm + "CrossOrder", b.get("order") if b.get("order") and len(b.get("order")) == 2 else None,
               "otherwise CROSSING of (neighbour / `FRONT[i]`) in this order")
        o.int(nm + "RunIndex", b.get("run_idx"))
        o.int(nm + "EmptyRows", b.get("empty"), "no rows: `np.zeros((n, 3))`")

def _sliced_by_plane(o, tree):
    fn = find_def(tree, "Polyline.sliced_by_plane")
    rs = safe(lambda: Sym(fn).returns())
    r = rs[0] if rs and len(rs) == 1 else None
    m = safe(lambda: match("Polyline(v=slice_open_polyline_by_plane(_W, plane), is_closed=_IC)", r)) or {}
    w = m.get("_W")
    mw = safe(lambda: match("np.vstack([_R, _R[:_N]]) if _G else self.v", w)) or {}
    rolled, guard = mw.get("_R"), mw.get("_G")
    mr = safe(lambda: match("np.roll(self.v, _ROLL, axis=0)", rolled)) or {}
    roll = mr.get("_ROLL")
    mb = safe(lambda: match("_A if _C else _B", roll)) or {}
    last = safe(lambda: cmp_parts(mb["_C"]), (None, None, None))
    signs = safe(lambda: match("_S[-1]", last[1])["_S"])

    def branch(node):
        """`c * V[i] + d if len(V) > 0 else z`, V = `_only(np.where(SIGNS op s))`"""
        mm = match("_X if _L else _Z", node)
        coef, term, off = affine1(mm["_X"])
        mt = match("_V[_I]", term)
        lop, llhs, lrhs = cmp_parts(mm["_L"])
        ml = match("len(_V)", llhs)
        mv = match("_only(np.where(_T))", mt["_V"])
        sop, slhs, srhs = cmp_parts(mv["_T"])
        ok = text(ml["_V"]) == text(mt["_V"]) and text(slhs) == text(signs)
        return dict(coef=coef, idx=as_int(mt["_I"]), off=off, lop=lop, lrhs=as_int(lrhs), z=as_int(mm["_Z"]),
                    sop=sop, srhs=as_int(srhs), ok=ok, v=mt["_V"])
    back = safe(lambda: branch(mb["_A"])) or {}
    frnt = safe(lambda: branch(mb["_B"])) or {}
    abbr = [("WORKING", w), ("ROLLED", rolled), ("ROLL", roll), ("VNF", back.get("v")), ("VIF", frnt.get("v")),
            ("SIGNS", signs)]

    o.str("closedSignsSrc", safe(lambda: text(signs)), "`Polyline.sliced_by_plane`, closed branch: SIGNS")
    o.cmp("lastFrontCmp", last[0], "the roll depends on `SIGNS[-1] op s`")
    o.str("lastFrontLhs", safe(lambda: text(last[1], abbr)))
    o.int("lastFrontRhs", safe(lambda: as_int(last[2])))
    for nm, b, what in (("rollBack", back, "last vertex in front: VNF = `np.where(SIGNS op s)`, roll = `c * VNF[i] + d` if `len(VNF) op n` else z"),
                        ("rollFront", frnt, "last vertex not in front: VIF = `np.where(SIGNS op s)`, roll = `c * VIF[i] + d` if `len(VIF) op n` else z")):
        o.cmp(nm + "SetCmp", b.get("sop"), what)
        o.int(nm + "SetRhs", b.get("srhs"))
        o.int(nm + "Coef", b.get("coef"))
        o.int(nm + "Index", b.get("idx"))
        o.int(nm + "Offset", b.get("off"))
        o.cmp(nm + "LenCmp", b.get("lop"))
        o.int(nm + "LenRhs", b.get("lrhs"))
        o.int(nm + "Else", b.get("z"))
        o.bool(nm + "Consistent", b.get("ok"), "the indexed array is the one whose length is tested, built from SIGNS")
    o.str("rollSrc", safe(lambda: text(roll, abbr[3:])), "ROLL, whole expression")
    o.str("rolledSrc", safe(lambda: text(rolled, abbr[2:])), "ROLLED")
    o.str("workingSrc", safe(lambda: text(w, abbr[1:])), "WORKING: the vertices handed to the open slicer")
    o.str("closedGuardSrc", safe(lambda: text(guard)), "the closed branch is taken when")
    o.str("resultSrc", safe(lambda: text(r, abbr)), "what is returned")

    def guard_parts():
        vals = guard.values if isinstance(guard, ast.BoolOp) and isinstance(guard.op, ast.And) else None
        if vals is None or len(vals) != 2:
            return None
        flags = [v for v in vals if text(v) == "self.is_closed"]
        cmps = [cmp_parts(v) for v in vals if cmp_parts(v)]
        if len(flags) != 1 or len(cmps) != 1:
            return None
        return cmps[0][0], text(cmps[0][1]), as_int(cmps[0][2])
    gp = safe(guard_parts, (None, None, None))
    o.cmp("closedGuardCmp", gp[0], "the closed branch is taken when `self.is_closed and <lhs> op n`")
    o.str("closedGuardLhs", gp[1])
    o.int("closedGuardRhs", gp[2])
    o.int("repeatStop", safe(lambda: as_int(mw["_N"])), "WORKING = ROLLED followed by `ROLLED[:n]`")
    o.int("rollAxis", safe(lambda: as_int([k.value for k in rolled.keywords if k.arg == "axis"][0])), "`np.roll(…, axis=n)`")
    o.bool("resultIsClosed", safe(lambda: [k.value.value for k in r.keywords if k.arg == "is_closed"][0]),
           "`is_closed=` of the returned polyline")


def _intersect(o, tree):
    fn = find_def(tree, "intersect_segment_with_plane")
    rs = safe(lambda: Sym(fn).returns())
    r = rs[0] if rs and len(rs) == 1 else None
    m = safe(lambda: match("_set(_set(_P, _0[_M1], _N1), _0[_M2], _N2)", r)) or {}
    lo = safe(lambda: cmp_parts(m["_M1"]), (None, None, None))
    hi = safe(lambda: cmp_parts(m["_M2"]), (None, None, None))
    t = lo[1]
    abbr = [("T", t)]
    o.cmp("nanLowCmp", lo[0], "`intersect_segment_with_plane`: rows with `T op n` are overwritten with NaN (first rule)")
    o.int("nanLowRhs", safe(lambda: as_int(lo[2])))
    o.cmp("nanHighCmp", hi[0], "second rule")
    o.int("nanHighRhs", safe(lambda: as_int(hi[2])))
    o.bool("nanRulesOk", safe(lambda: text(hi[1]) == text(t) and text(m["_N1"]) == "np.nan" and text(m["_N2"]) == "np.nan", False),
           "both rules test the same T and store `np.nan`")
    o.str("paramSrc", safe(lambda: text(t)), "T")
    o.str("pointSrc", safe(lambda: text(m["_P"], abbr)), "the point before the NaN rules")


def generate(repo):
    o = Out("PolySlice", "harness/translate/c06.py from polliwog/polyline/_slice_by_plane.py, "
            "polliwog/polyline/_polyline_object.py (sliced_by_plane) and polliwog/plane/_plane_intersect.py")
    _, t1 = read_tree(repo, "polliwog", "polyline", "_slice_by_plane.py")
    _, t2 = read_tree(repo, "polliwog", "polyline", "_polyline_object.py")
    _, t3 = read_tree(repo, "polliwog", "plane", "_plane_intersect.py")
    for part, tree in ((_open_slicer, t1), (_sliced_by_plane, t2), (_intersect, t3)):
        n = len(o.lines)
        try:
            part(o, tree)
        except Exception as e:  # noqa: BLE001  fail closed: drop the partial output; the tying theorems then do not compile
            del o.lines[n:]
            o.notes.append("%s: %r" % (part.__name__, e))
        o.blank()
    def helper_shape():
        """the local crossing helper of `slice_open_polyline_by_plane` (found by structure, its name is free)"""
        fn = find_def(t1, "slice_open_polyline_by_plane")
        locs = [st for st in fn.body if isinstance(st, ast.FunctionDef)]
        if len(locs) != 1:
            return None
        h = locs[0]
        rb = sum(1 for st in ast.walk(fn) if st is not h and isinstance(st, (ast.Name, ast.FunctionDef))
                 and ((isinstance(st, ast.Name) and isinstance(st.ctx, ast.Store) and st.id == h.name)
                      or (isinstance(st, ast.FunctionDef) and st.name == h.name)))
        return ("slice_open_polyline_by_plane.<local helper>", [ast.unparse(d) for d in h.decorator_list],
                "%d positional" % len(h.args.args) if ast.unparse(h.args) == ", ".join(a.arg for a in h.args.args) else ast.unparse(h.args),
                Sym(h).skipped, rb)
    o.shapes("functionShapes",
             [func_shape(t1, "slice_open_polyline_by_plane"),
              safe(helper_shape, ("slice_open_polyline_by_plane.<local helper>", ["<anchor not found>"], "<anchor not found>", [], 424242)),
              func_shape(t2, "Polyline.sliced_by_plane"), func_shape(t3, "intersect_segment_with_plane")],
             "for every function read above: (name, decorators, parameters with defaults, statements the symbolic reader "
             "does not interpret, other bindings of the name in its scope)")
    return [SRCOPS_FILE, o.result()]
