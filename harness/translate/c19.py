"""Translator fragment for C19 (serialization).

Regenerates lean/PW/Gen/Schema.lean from the *text* of
    polliwog/schema.json                      -> `PW.Gen.schema : Json Unit` (the whole document, key order kept)
    polliwog/_common/pathlib.py               -> `schemaFileName` (the file `validate` loads)
    polliwog/polyline/_polyline_object.py     -> `polylineRef` (the `ref=` handed to validator_for), `polylineDefaultDecimals`
    polliwog/plane/_plane_object.py           -> `planeRef`, `planeDefault{Position,Direction}Decimals`
(everything in `namespace PW.Gen.Ser`).  The bodies of rounded / serialize / deserialize are hand-modelled in
PW.Model.Serialize and tied by the correspondence check, not translated.
Never imports polliwog.  Fails closed: an anchor that is not recognised yields a value (`Json.null`, `""`, `[]`, 0)
that makes the dependent theorems of PW.Props.C19 false; nothing here raises.
"""
import ast
import json
import os

LEAN_NAME = "Schema.lean"


def lean_str(s):
    out = ['"']
    for ch in s:
        o = ord(ch)
        if ch == '"':
            out.append('\\"')
        elif ch == "\\":
            out.append("\\\\")
        elif 32 <= o < 127:
            out.append(ch)
        elif o <= 0xFFFF:
            out.append("\\u%04x" % o)
        else:
            raise ValueError("non-BMP character in schema string")
    out.append('"')
    return "".join(out)


def lean_json(v, ind=2):
    """python value (from json.load) -> Lean term of type `Json Unit`; raises on anything outside the AST"""
    pad = " " * ind
    if v is None:
        return ".null"
    if v is True:
        return ".bool true"
    if v is False:
        return ".bool false"
    if isinstance(v, int):
        return ".int (%d)" % v
    if isinstance(v, float):
        raise ValueError("floating-point number in schema.json (outside the modelled subset)")
    if isinstance(v, str):
        return ".str " + lean_str(v)
    if isinstance(v, list):
        if not v:
            return ".arr []"
        return ".arr [\n" + ",\n".join(pad + "  " + lean_json(x, ind + 2) for x in v) + "]"
    if isinstance(v, dict):
        if not v:
            return ".obj []"
        return ".obj [\n" + ",\n".join(pad + "  (" + lean_str(k) + ", " + lean_json(x, ind + 2) + ")" for k, x in v.items()) + "]"
    raise ValueError("unsupported JSON value %r" % (v,))


def class_def(tree, name):
    for n in tree.body:
        if isinstance(n, ast.ClassDef) and n.name == name:
            return n
    return None


def class_const(cls, name):
    for n in cls.body:
        if isinstance(n, ast.Assign) and len(n.targets) == 1 and isinstance(n.targets[0], ast.Name) and n.targets[0].id == name:
            if isinstance(n.value, ast.Constant) and isinstance(n.value.value, int) and not isinstance(n.value.value, bool):
                return n.value.value
    return None


def method(cls, name):
    for n in cls.body:
        if isinstance(n, ast.FunctionDef) and n.name == name:
            return n
    return None


def validator_ref(fn):
    """the `ref=` string handed to validator_for, provided schema_path=SCHEMA_PATH and the validator is what validates"""
    refs = []
    for n in ast.walk(fn):
        if isinstance(n, ast.Call) and isinstance(n.func, ast.Name) and n.func.id == "validator_for":
            kw = {k.arg: k.value for k in n.keywords}
            if (len(n.args) == 0 and set(kw) == {"schema_path", "ref"} and isinstance(kw["schema_path"], ast.Name)
                    and kw["schema_path"].id == "SCHEMA_PATH" and isinstance(kw["ref"], ast.Constant)
                    and isinstance(kw["ref"].value, str)):
                refs.append(kw["ref"].value)
    calls_validate = any(isinstance(n, ast.Call) and isinstance(n.func, ast.Attribute) and n.func.attr == "validate"
                         and isinstance(n.func.value, ast.Name) and n.func.value.id == "validator" and len(n.args) == 1
                         and isinstance(n.args[0], ast.Name) and n.args[0].id == "data" for n in ast.walk(fn))
    if len(refs) == 1 and calls_validate:
        return refs[0]
    return None


def schema_file_name(repo):
    try:
        src = open(os.path.join(repo, "polliwog", "_common", "pathlib.py")).read()
        for n in ast.parse(src).body:
            if (isinstance(n, ast.Assign) and len(n.targets) == 1 and isinstance(n.targets[0], ast.Name)
                    and n.targets[0].id == "SCHEMA_PATH" and isinstance(n.value, ast.Call)
                    and isinstance(n.value.func, ast.Name) and n.value.func.id == "root_package_relative_path"
                    and len(n.value.args) == 1 and isinstance(n.value.args[0], ast.Constant)
                    and isinstance(n.value.args[0].value, str)):
                return n.value.args[0].value
    except Exception:
        pass
    return None


def generate(repo):
    notes = []
    fname = schema_file_name(repo)
    if fname is None:
        notes.append("SCHEMA_PATH anchor not recognised")
    schema_term = ".null"
    try:
        with open(os.path.join(repo, "polliwog", fname or "schema.json")) as f:
            schema_term = lean_json(json.load(f))
    except Exception as e:  # fail closed
        notes.append("schema not translated: %s" % (e,))
        schema_term = ".null"

    vals = {"polylineRef": "", "planeRef": "", "polylineDefaultDecimals": 0, "planeDefaultPositionDecimals": 0,
            "planeDefaultDirectionDecimals": 0}
    try:
        src = open(os.path.join(repo, "polliwog", "polyline", "_polyline_object.py")).read()
        cls = class_def(ast.parse(src), "Polyline")
        vals["polylineDefaultDecimals"] = class_const(cls, "DEFAULT_DECIMALS") or 0
        vals["polylineRef"] = validator_ref(method(cls, "validate")) or ""
    except Exception as e:
        notes.append("polyline anchors: %s" % (e,))
    try:
        src = open(os.path.join(repo, "polliwog", "plane", "_plane_object.py")).read()
        cls = class_def(ast.parse(src), "Plane")
        vals["planeDefaultPositionDecimals"] = class_const(cls, "DEFAULT_POSITION_DECIMALS") or 0
        vals["planeDefaultDirectionDecimals"] = class_const(cls, "DEFAULT_DIRECTION_DECIMALS") or 0
        vals["planeRef"] = validator_ref(method(cls, "validate")) or ""
    except Exception as e:
        notes.append("plane anchors: %s" % (e,))
    for k, v in vals.items():
        if v in ("", 0):
            notes.append("anchor %s not recognised" % k)

    content = """-- generated by harness/translate/c19.py from polliwog/schema.json, polyline/_polyline_object.py,
-- plane/_plane_object.py, _common/pathlib.py -- do not edit
import PW.Model.Json

namespace PW.Gen.Ser

/-- polliwog/%s as loaded by `validator_for` -/
def schema : Json Unit :=
  %s

/-- file name in `SCHEMA_PATH` -/
def schemaFileName : String := %s
/-- `ref=` of `Polyline.validate` / `Plane.validate` -/
def polylineRef : String := %s
def planeRef : String := %s
/-- `Polyline.DEFAULT_DECIMALS`, `Plane.DEFAULT_POSITION_DECIMALS`, `Plane.DEFAULT_DIRECTION_DECIMALS` -/
def polylineDefaultDecimals : Nat := %d
def planeDefaultPositionDecimals : Nat := %d
def planeDefaultDirectionDecimals : Nat := %d

end PW.Gen.Ser
""" % (fname or "?", schema_term, lean_str(fname or ""), lean_str(vals["polylineRef"]), lean_str(vals["planeRef"]),
       vals["polylineDefaultDecimals"], vals["planeDefaultPositionDecimals"], vals["planeDefaultDirectionDecimals"])
    return [(LEAN_NAME, content, "; ".join(notes) or "ok")]
