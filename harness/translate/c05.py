"""Translator fragment for C05 (plane point queries): the literals, comparison operators and formulas of
polliwog/plane/_plane_functions.py and of the point-query methods of polliwog/plane/_plane_object.py
-> lean/PW/Gen/PlaneFn.lean (namespace PW.Gen.PlaneFn), tied to PW/Model/Plane.lean by the `gen_*` theorems at the end
of PW/Props/C05.lean.

Read from the source text with `ast` (never importing), through the symbolic reader of `_symsrc.py`, so that renamed /
added temporaries, reordered operands of `+`, `*`, `np.greater(sign, 0)` vs `sign > 0` vs `0 < sign` give the same
output.  Fails closed: an anchor that is not recognised is emitted as a value that falsifies its tying theorem.
"""
from ._symsrc import (SRCOPS_FILE, Out, Sym, affine1, as_int, canon, cmp_parts, find_def, func_shape, kwarg, match,
                      parse_expr, poly, read_tree, safe, text)

FN = ("polliwog", "plane", "_plane_functions.py")
OBJ = ("polliwog", "plane", "_plane_object.py")


def _only_return(tree, name):
    fn = find_def(tree, name)
    if fn is None:
        return None
    rs = Sym(fn).returns()
    return rs[0] if len(rs) == 1 else None


def _factor_call(tree, name):
    """`return translate_points_along_plane_normal(points=points, plane_equations=plane_equations, factor=<int>)`
    -> (factor, everything else as expected?)"""
    r = _only_return(tree, name)
    f = as_int(kwarg(r, "factor", 2))
    ok = (text(r.func) == "translate_points_along_plane_normal" and text(kwarg(r, "points", 0)) == "points"
          and text(kwarg(r, "plane_equations", 1)) == "plane_equations" and len(r.args) + len(r.keywords) == 3)
    return f, ok


def _mask(tree, name):
    """points_in_front / points_on_or_in_front ->
       (cmp, lhs, rhs) of the plain mask, the same for the inverted mask, text of the selection around the mask"""
    r = _only_return(tree, "Plane." + name)
    m = match("_I if ret_indices else points[_I]", r)
    mm = match("np.flatnonzero(_M)", m["_I"])
    br = match("_A if inverted else _B", mm["_M"])
    inv, plain = cmp_parts(br["_A"]), cmp_parts(br["_B"])
    return plain, inv, text(r, [("MASK", mm["_M"])])


def generate(repo):
    o = Out("PlaneFn", "harness/translate/c05.py from polliwog/plane/_plane_functions.py and polliwog/plane/_plane_object.py")
    _, ftree = read_tree(repo, *FN)
    _, otree = read_tree(repo, *OBJ)

    # ---- project / mirror: the factor literal
    for nm, fn in (("project", "project_point_to_plane"), ("mirror", "mirror_point_across_plane")):
        f, ok = safe(lambda: _factor_call(ftree, fn), (None, None))
        o.int(nm + "Factor", f, "`factor=` literal of `%s`" % fn)
        o.bool(nm + "CallOk", ok, "`%s` returns `translate_points_along_plane_normal(points, plane_equations, factor)` "
               "with its own two arguments passed through" % fn)
    o.blank()

    # ---- translate_points_along_plane_normal: points + factor * signed_distance * normals
    def translate():
        fn = find_def(ftree, "translate_points_along_plane_normal")
        s = Sym(fn)
        abbr = [("SD", canon(parse_expr("signed_distance_to_plane(points, plane_equations)"))),
                ("NORMALS", canon(parse_expr("_item(normal_and_offset_from_plane_equations(plane_equations), 0, 2)")))]
        out = {}
        for conds, kind, e in s.events:
            if kind != "return" or len(conds) != 1:
                return None
            c, pol = conds[0]
            if text(c, abbr) != "np.isscalar(SD)":
                return None
            out[pol] = (text(e, abbr), poly(e, abbr))
        return out.get(True), out.get(False)
    tr = safe(translate, (None, None))
    tr = ((tr[0] or (None, None)), (tr[1] or (None, None)))
    o.poly("translatePoly", tr[0][1], "`translate_points_along_plane_normal`, single point: the returned expression as a "
           "sum of products of atoms (SD, NORMALS as below)")
    o.poly("translateStackedPoly", tr[1][1], "the same for a stack of points")
    tr = (tr[0][0], tr[1][0])
    o.str("translateSrc", tr[0], "`translate_points_along_plane_normal`, single point: the returned expression, with "
          "SD = signed_distance_to_plane(points, plane_equations), NORMALS = first component of "
          "normal_and_offset_from_plane_equations(plane_equations); operands in normal order")
    o.str("translateStackedSrc", tr[1], "the same for a stack of points")

    def sdist():
        r = _only_return(ftree, "signed_distance_to_plane")
        abbr = [("NORMALS", canon(parse_expr("_item(normal_and_offset_from_plane_equations(plane_equations), 0, 2)"))),
                ("OFFSETS", canon(parse_expr("_item(normal_and_offset_from_plane_equations(plane_equations), 1, 2)")))]
        return text(r, abbr), poly(r, abbr)
    sdr = safe(sdist, (None, None))
    o.poly("signedDistancePoly", sdr[1], "`signed_distance_to_plane`: the returned expression as a sum of products of atoms")
    o.str("signedDistanceSrc", sdr[0], "`signed_distance_to_plane`: the returned expression")

    def split():
        r = _only_return(ftree, "normal_and_offset_from_plane_equations")
        m = match("(_NA if _C else _NB, _OA if _C else _OB)", r)
        c = cmp_parts(m["_C"])
        return dict(cmp=c[0], lhs=text(c[1]), rhs=as_int(c[2]),
                    stops=[as_int(match("plane_equations[:, :_N]", m["_NA"])["_N"]), as_int(match("plane_equations[:_N]", m["_NB"])["_N"])],
                    idx=[as_int(match("plane_equations[:, _I]", m["_OA"])["_I"]), as_int(match("plane_equations[_I]", m["_OB"])["_I"])])
    sp = safe(split) or {}
    o.cmp("stackedEquationsCmp", sp.get("cmp"), "`normal_and_offset_from_plane_equations`: the stacked form is used when `<lhs> op n`")
    o.str("stackedEquationsLhs", sp.get("lhs"))
    o.int("stackedEquationsRhs", sp.get("rhs"))
    o.ints("normalSliceStops", sp.get("stops"), "normal = `plane_equations[…, :n]` (stacked form, single form)")
    o.ints("offsetIndices", sp.get("idx"), "offset = `plane_equations[…, i]` (stacked form, single form)")
    o.str("normalOffsetSrc", safe(lambda: text(_only_return(ftree, "normal_and_offset_from_plane_equations"))),
          "`normal_and_offset_from_plane_equations`: the returned pair")
    o.blank()

    # ---- Plane.equation: [A, B, C, D], D = -reference_point.dot(normal)
    def equation():
        r = _only_return(otree, "Plane.equation")
        m = match("np.array([_A, _B, _C, _D])", r)
        nok = [text(m[k]) for k in ("_A", "_B", "_C")] == ["_item(self.normal, %d, 3)" % i for i in range(3)]
        c, term, d = affine1(m["_D"])
        return nok, c, text(term), d
    eq = safe(equation, (None, None, None, None))
    o.bool("equationNormalOk", eq[0], "`A, B, C = self.normal` are the first three entries of `Plane.equation`")
    o.int("equationDCoef", eq[1], "`D = c * <term> + d` in `Plane.equation`: the coefficient c")
    o.str("equationDTerm", eq[2], "the term")
    o.int("equationDConst", eq[3], "the constant d")
    o.blank()

    # ---- the thin methods
    for ident, meth in (("signSrc", "sign"), ("signedDistanceMethodSrc", "signed_distance"), ("distanceSrc", "distance"),
                        ("projectMethodSrc", "project_point"), ("mirrorMethodSrc", "mirror_point"),
                        ("canonicalPointSrc", "canonical_point"), ("flippedSrc", "flipped")):
        o.str(ident, safe(lambda: text(_only_return(otree, "Plane." + meth))), "`Plane.%s`: the returned expression" % meth)

    def delegate(meth):
        """`return f(points, self.equation)` -> (f, [argument texts])"""
        r = _only_return(otree, "Plane." + meth)
        return (text(r.func), [text(a) for a in r.args]) if not r.keywords else None
    for ident, meth in (("signedDistanceMethod", "signed_distance"), ("projectMethod", "project_point"),
                        ("mirrorMethod", "mirror_point")):
        d = safe(lambda: delegate(meth), (None, None))
        o.str(ident + "Callee", d[0], "`Plane.%s` returns `<callee>(<args>)`" % meth)
        o.strs(ident + "Args", d[1])

    def wrapper(meth):
        """`return g(self.signed_distance(points))` -> (g, inner text)"""
        r = _only_return(otree, "Plane." + meth)
        return (text(r.func), text(r.args[0])) if len(r.args) == 1 and not r.keywords else None
    for ident, meth in (("sign", "sign"), ("distance", "distance")):
        w = safe(lambda: wrapper(meth), (None, None))
        o.str(ident + "Wrapper", w[0], "`Plane.%s` returns `<wrapper>(<inner>)`" % meth)
        o.str(ident + "Inner", w[1])
    o.poly("canonicalPointPoly", safe(lambda: poly(_only_return(otree, "Plane.canonical_point"))),
           "`Plane.canonical_point` as a sum of products of atoms")

    def flipped():
        r = _only_return(otree, "Plane.flipped")
        if text(r.func) != "Plane" or r.args or len(r.keywords) != 2:
            return None
        n, p = affine1(kwarg(r, "normal")), affine1(kwarg(r, "reference_point"))
        return n[0], text(n[1]), n[2], p[0], text(p[1]), p[2]
    fl = safe(flipped, (None,) * 6)
    o.int("flippedNormalCoef", fl[0], "`Plane.flipped` = `Plane(reference_point=c' * <term'> + d', normal=c * <term> + d)`")
    o.str("flippedNormalTerm", fl[1])
    o.int("flippedNormalConst", fl[2])
    o.int("flippedRefCoef", fl[3])
    o.str("flippedRefTerm", fl[4])
    o.int("flippedRefConst", fl[5])
    o.blank()

    # ---- the masks
    for ident, meth in (("inFront", "points_in_front"), ("onOrInFront", "points_on_or_in_front")):
        plain, inv, sel = safe(lambda: _mask(otree, meth), (None, None, None))
        plain = plain or (None, None, None)
        inv = inv or (None, None, None)
        o.cmp(ident + "Cmp", plain[0], "`Plane.%s`, `inverted=False`: mask = `<lhs> op <rhs>`" % meth)
        o.str(ident + "Lhs", safe(lambda: text(plain[1])))
        o.int(ident + "Rhs", safe(lambda: as_int(plain[2])))
        o.cmp(ident + "InvCmp", inv[0], "`inverted=True`")
        o.str(ident + "InvLhs", safe(lambda: text(inv[1])))
        o.int(ident + "InvRhs", safe(lambda: as_int(inv[2])))
        o.str(ident + "SelectSrc", sel, "what is returned, around the mask")
    o.blank()
    o.shapes("functionShapes",
             [func_shape(ftree, q) for q in ("project_point_to_plane", "mirror_point_across_plane",
                                             "translate_points_along_plane_normal", "signed_distance_to_plane",
                                             "normal_and_offset_from_plane_equations")] +
             [func_shape(otree, "Plane." + q) for q in ("equation", "sign", "signed_distance", "distance", "project_point",
                                                         "mirror_point", "canonical_point", "flipped", "points_in_front",
                                                         "points_on_or_in_front")],
             "for every function read above: (name, decorators, parameters with defaults, statements the symbolic reader "
             "does not interpret, other bindings of the name in its scope)")
    return [SRCOPS_FILE, o.result()]
