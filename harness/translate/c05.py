"""Translator fragment for C05 (plane point queries): the literals, comparison operators and formulas of
polliwog/plane/_plane_functions.py and of the point-query methods of polliwog/plane/_plane_object.py
-> lean/PW/Gen/PlaneFn.lean (namespace PW.Gen.PlaneFn), tied to PW/Model/Plane.lean by the `gen_*` theorems at the end
of PW/Props/C05.lean.

Read from the source text with `ast` (never importing), through the symbolic reader of `_symsrc.py`, so that renamed /
added temporaries, reordered operands of `+`, `*`, `np.greater(sign, 0)` vs `sign > 0` vs `0 < sign` give the same
output.  Fails closed: an anchor that is not recognised is emitted as a value that falsifies its tying theorem.
"""
from ._symsrc import (SRCOPS_FILE, Out, Sym, affine1, as_int, canon, cmp_parts, find_def, kwarg, match, parse_expr,
                      read_tree, safe, text)

FN = ("polliwog", "plane", "_plane_functions.py")
OBJ = ("polliwog", "plane", "_plane_object.py")


def _only_return(tree, name):
    fn = find_def(tree, name)
    if fn is None:
        return None
    rs = Sym(fn).returns()
    return rs[0] if len(rs) == 1 else None


def _factor_call(tree, name):
    """`return translate_points_along_plane_normal(points=points, plane_equations=plane_equations, factor=<int>)`
    -> (factor, everything else as expected?)"""
    r = _only_return(tree, name)
    f = as_int(kwarg(r, "factor", 2))
    ok = (text(r.func) == "translate_points_along_plane_normal" and text(kwarg(r, "points", 0)) == "points"
          and text(kwarg(r, "plane_equations", 1)) == "plane_equations" and len(r.args) + len(r.keywords) == 3)
    return f, ok


def _mask(tree, name):
    """points_in_front / points_on_or_in_front ->
       (cmp, lhs, rhs) of the plain mask, the same for the inverted mask, text of the selection around the mask"""
    r = _only_return(tree, "Plane." + name)
    m = match("_I if ret_indices else points[_I]", r)
    mm = match("np.flatnonzero(_M)", m["_I"])
    br = match("_A if inverted else _B", mm["_M"])
    inv, plain = cmp_parts(br["_A"]), cmp_parts(br["_B"])
    return plain, inv, text(r, [("MASK", mm["_M"])])


def generate(repo):
    o = Out("PlaneFn", "harness/translate/c05.py from polliwog/plane/_plane_functions.py and polliwog/plane/_plane_object.py")
    _, ftree = read_tree(repo, *FN)
    _, otree = read_tree(repo, *OBJ)

    # ---- project / mirror: the factor literal
    for nm, fn in (("project", "project_point_to_plane"), ("mirror", "mirror_point_across_plane")):
        f, ok = safe(lambda: _factor_call(ftree, fn), (None, None))
        o.int(nm + "Factor", f, "`factor=` literal of `%s`" % fn)
        o.bool(nm + "CallOk", ok, "`%s` returns `translate_points_along_plane_normal(points, plane_equations, factor)` "
               "with its own two arguments passed through" % fn)
    o.blank()

    # ---- translate_points_along_plane_normal: points + factor * signed_distance * normals
    def translate():
        fn = find_def(ftree, "translate_points_along_plane_normal")
        s = Sym(fn)
        abbr = [("SD", canon(parse_expr("signed_distance_to_plane(points, plane_equations)"))),
                ("NORMALS", canon(parse_expr("_item(normal_and_offset_from_plane_equations(plane_equations), 0, 2)")))]
        out = {}
        for conds, kind, e in s.events:
            if kind != "return" or len(conds) != 1:
                return None
            c, pol = conds[0]
            if text(c, abbr) != "np.isscalar(SD)":
                return None
            out[pol] = text(e, abbr)
        return out.get(True), out.get(False)
    tr = safe(translate, (None, None))
    o.str("translateSrc", tr[0], "`translate_points_along_plane_normal`, single point: the returned expression, with "
          "SD = signed_distance_to_plane(points, plane_equations), NORMALS = first component of "
          "normal_and_offset_from_plane_equations(plane_equations); operands in normal order")
    o.str("translateStackedSrc", tr[1], "the same for a stack of points")

    def sdist():
        r = _only_return(ftree, "signed_distance_to_plane")
        abbr = [("NORMALS", canon(parse_expr("_item(normal_and_offset_from_plane_equations(plane_equations), 0, 2)"))),
                ("OFFSETS", canon(parse_expr("_item(normal_and_offset_from_plane_equations(plane_equations), 1, 2)")))]
        return text(r, abbr)
    o.str("signedDistanceSrc", safe(sdist), "`signed_distance_to_plane`: the returned expression")
    o.str("normalOffsetSrc", safe(lambda: text(_only_return(ftree, "normal_and_offset_from_plane_equations"))),
          "`normal_and_offset_from_plane_equations`: the returned pair")
    o.blank()

    # ---- Plane.equation: [A, B, C, D], D = -reference_point.dot(normal)
    def equation():
        r = _only_return(otree, "Plane.equation")
        m = match("np.array([_A, _B, _C, _D])", r)
        nok = [text(m[k]) for k in ("_A", "_B", "_C")] == ["_item(self.normal, %d, 3)" % i for i in range(3)]
        c, term, d = affine1(m["_D"])
        return nok, c, text(term), d
    eq = safe(equation, (None, None, None, None))
    o.bool("equationNormalOk", eq[0], "`A, B, C = self.normal` are the first three entries of `Plane.equation`")
    o.int("equationDCoef", eq[1], "`D = c * <term> + d` in `Plane.equation`: the coefficient c")
    o.str("equationDTerm", eq[2], "the term")
    o.int("equationDConst", eq[3], "the constant d")
    o.blank()

    # ---- the thin methods
    for ident, meth in (("signSrc", "sign"), ("signedDistanceMethodSrc", "signed_distance"), ("distanceSrc", "distance"),
                        ("projectMethodSrc", "project_point"), ("mirrorMethodSrc", "mirror_point"),
                        ("canonicalPointSrc", "canonical_point"), ("flippedSrc", "flipped")):
        o.str(ident, safe(lambda: text(_only_return(otree, "Plane." + meth))), "`Plane.%s`: the returned expression" % meth)
    o.blank()

    # ---- the masks
    for ident, meth in (("inFront", "points_in_front"), ("onOrInFront", "points_on_or_in_front")):
        plain, inv, sel = safe(lambda: _mask(otree, meth), (None, None, None))
        plain = plain or (None, None, None)
        inv = inv or (None, None, None)
        o.cmp(ident + "Cmp", plain[0], "`Plane.%s`, `inverted=False`: mask = `<lhs> op <rhs>`" % meth)
        o.str(ident + "Lhs", safe(lambda: text(plain[1])))
        o.int(ident + "Rhs", safe(lambda: as_int(plain[2])))
        o.cmp(ident + "InvCmp", inv[0], "`inverted=True`")
        o.str(ident + "InvLhs", safe(lambda: text(inv[1])))
        o.int(ident + "InvRhs", safe(lambda: as_int(inv[2])))
        o.str(ident + "SelectSrc", sel, "what is returned, around the mask")
    return [SRCOPS_FILE, o.result()]
