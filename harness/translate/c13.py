"""Translator fragment for C13: literal constants of polliwog/plane/_plane_object.py.

Extracted with `ast` (never by importing):
  * class Plane: DEFAULT_POSITION_DECIMALS, DEFAULT_DIRECTION_DECIMALS
  * Plane.__init__: `if not vg.almost_unit_length(normal, atol=<base>**direction_decimals): raise <Class>(...)`
       -> base as an exact decimal fraction, "the exponent is the plain name direction_decimals", raised class,
          "the default is taken from DEFAULT_DIRECTION_DECIMALS when direction_decimals is None"
  * module level: `Plane.xy = Plane(reference_point=np.zeros(3), normal=vg.basis.z)` (and xz, yz)
Fails closed: an anchor that is not recognised yields a value that makes the dependent theorem in
PW/Props/C13.lean false (never raises).
"""
import ast
import os
from fractions import Fraction

BASIS = {"x": (1, 0, 0), "y": (0, 1, 0), "z": (0, 0, 1), "neg_x": (-1, 0, 0), "neg_y": (0, -1, 0), "neg_z": (0, 0, -1)}
BAD_VEC = (1, 1, 1)


def _attr_chain(node):
    """a.b.c -> ['a','b','c'] or None"""
    out = []
    while isinstance(node, ast.Attribute):
        out.append(node.attr)
        node = node.value
    if isinstance(node, ast.Name):
        out.append(node.id)
        return out[::-1]
    return None


def _vec_expr(node):
    """np.zeros(3) | vg.basis.<axis> | np.array([a,b,c]) with int/float literals -> tuple of 3 ints, else None"""
    if isinstance(node, ast.Call) and _attr_chain(node.func) == ["np", "zeros"] and len(node.args) == 1 \
            and isinstance(node.args[0], ast.Constant) and node.args[0].value == 3 and not node.keywords:
        return (0, 0, 0)
    ch = _attr_chain(node) if isinstance(node, ast.Attribute) else None
    if ch and len(ch) == 3 and ch[0] == "vg" and ch[1] == "basis" and ch[2] in BASIS:
        return BASIS[ch[2]]
    if isinstance(node, ast.Call) and _attr_chain(node.func) == ["np", "array"] and len(node.args) == 1 \
            and isinstance(node.args[0], (ast.List, ast.Tuple)) and len(node.args[0].elts) == 3:
        vals = []
        for e in node.args[0].elts:
            neg = False
            if isinstance(e, ast.UnaryOp) and isinstance(e.op, ast.USub):
                neg, e = True, e.operand
            if not (isinstance(e, ast.Constant) and isinstance(e.value, (int, float)) and float(e.value) in (0.0, 1.0)):
                return None
            vals.append(-int(e.value) if neg else int(e.value))
        return tuple(vals)
    return None


def _plane_const(tree, name):
    """Plane.<name> = Plane(reference_point=<vec>, normal=<vec>) -> (ref, normal) or None"""
    found = []
    for st in tree.body:
        if isinstance(st, ast.Assign) and len(st.targets) == 1 and _attr_chain(st.targets[0]) == ["Plane", name]:
            found.append(st.value)
    if len(found) != 1:
        return None
    call = found[0]
    if not (isinstance(call, ast.Call) and isinstance(call.func, ast.Name) and call.func.id == "Plane"):
        return None
    args = {}
    names = ["reference_point", "normal", "direction_decimals"]
    for i, a in enumerate(call.args):
        if i < 3:
            args[names[i]] = a
    for kw in call.keywords:
        if kw.arg is None or kw.arg in args:
            return None
        args[kw.arg] = kw.value
    if set(args) != {"reference_point", "normal"}:
        return None
    ref = _vec_expr(args["reference_point"])
    nrm = _vec_expr(args["normal"])
    if ref is None or nrm is None:
        return None
    return ref, nrm


def _class_consts(cls):
    out = {}
    for st in cls.body:
        if isinstance(st, ast.Assign) and len(st.targets) == 1 and isinstance(st.targets[0], ast.Name) \
                and isinstance(st.value, ast.Constant) and isinstance(st.value.value, int) and not isinstance(st.value.value, bool):
            out.setdefault(st.targets[0].id, []).append(st.value.value)
    return out


def _ctor_validation(init, src):
    """-> dict(base=(num,den), exp_is_decimals, raises, default_from, n_checks) ; missing pieces are None/False"""
    res = {"base": None, "exp_is_decimals": False, "raises": None, "default_from": None, "negated": False, "arg_is_normal": False}
    checks = []
    for st in init.body:
        if isinstance(st, ast.If):
            t = st.test
            # default:  if direction_decimals is None: direction_decimals = self.DEFAULT_DIRECTION_DECIMALS
            if isinstance(t, ast.Compare) and isinstance(t.left, ast.Name) and t.left.id == "direction_decimals" \
                    and len(t.ops) == 1 and isinstance(t.ops[0], ast.Is) and isinstance(t.comparators[0], ast.Constant) \
                    and t.comparators[0].value is None and len(st.body) == 1 and not st.orelse \
                    and isinstance(st.body[0], ast.Assign) and len(st.body[0].targets) == 1 \
                    and isinstance(st.body[0].targets[0], ast.Name) and st.body[0].targets[0].id == "direction_decimals":
                ch = _attr_chain(st.body[0].value)
                if ch and len(ch) == 2 and ch[0] == "self":
                    res["default_from"] = ch[1]
                continue
            checks.append(st)
    unit_checks = []
    for st in checks:
        for node in ast.walk(st.test):
            if isinstance(node, ast.Call) and (_attr_chain(node.func) or [None])[-1] == "almost_unit_length":
                unit_checks.append((st, node))
    if len(unit_checks) != 1:
        return res
    st, call = unit_checks[0]
    res["negated"] = isinstance(st.test, ast.UnaryOp) and isinstance(st.test.op, ast.Not) and st.test.operand is call
    res["arg_is_normal"] = len(call.args) == 1 and isinstance(call.args[0], ast.Name) and call.args[0].id == "normal"
    kws = {k.arg: k.value for k in call.keywords}
    if set(kws) == {"atol"}:
        a = kws["atol"]
        if isinstance(a, ast.BinOp) and isinstance(a.op, ast.Pow) and isinstance(a.left, ast.Constant) \
                and isinstance(a.left.value, (int, float)):
            lit = ast.get_source_segment(src, a.left)
            try:
                fr = Fraction(lit)
                res["base"] = (fr.numerator, fr.denominator)
            except (ValueError, TypeError, ZeroDivisionError):
                pass
            res["exp_is_decimals"] = isinstance(a.right, ast.Name) and a.right.id == "direction_decimals"
    if len(st.body) == 1 and isinstance(st.body[0], ast.Raise) and not st.orelse:
        exc = st.body[0].exc
        if isinstance(exc, ast.Call):
            exc = exc.func
        if isinstance(exc, ast.Name):
            res["raises"] = exc.id
    return res


def _v3(v):
    def c(i):
        return {0: "0", 1: "1", -1: "-1"}[i]
    return "⟨%s, %s, %s⟩" % tuple(c(i) for i in v)


def generate(repo):
    path = os.path.join(repo, "polliwog", "plane", "_plane_object.py")
    notes = []
    consts, val, planes = {}, {}, {}
    try:
        src = open(path).read()
        tree = ast.parse(src)
    except Exception as e:  # unreadable / unparsable source: everything fails closed below
        src, tree = "", ast.parse("")
        notes.append("source not parsable: %r" % (e,))
    cls = next((n for n in tree.body if isinstance(n, ast.ClassDef) and n.name == "Plane"), None)
    if cls is not None:
        consts = _class_consts(cls)
        init = next((n for n in cls.body if isinstance(n, ast.FunctionDef) and n.name == "__init__"), None)
        if init is not None:
            val = _ctor_validation(init, src)
    else:
        notes.append("class Plane not found")

    def const(name):
        v = consts.get(name)
        if v is None or len(v) != 1 or v[0] < 0:
            notes.append("%s not found as a single non-negative int literal" % name)
            return None
        return v[0]

    pos = const("DEFAULT_POSITION_DECIMALS")
    dirn = const("DEFAULT_DIRECTION_DECIMALS")
    base = val.get("base")
    shape_ok = bool(val) and val.get("negated") and val.get("arg_is_normal") and val.get("exp_is_decimals") \
        and val.get("default_from") == "DEFAULT_DIRECTION_DECIMALS"
    if not shape_ok or base is None:
        notes.append("constructor validation `if not vg.almost_unit_length(normal, atol=<lit>**direction_decimals): raise` not recognised: %r" % (val,))
    raises = val.get("raises") or "UNRECOGNISED"
    for nm in ("xy", "xz", "yz"):
        pc = _plane_const(tree, nm)
        if pc is None:
            notes.append("Plane.%s = Plane(reference_point=…, normal=…) not recognised" % nm)
            pc = (BAD_VEC, (0, 0, 0))
        planes[nm] = pc

    L = []
    L.append("-- generated by harness/translate/c13.py from polliwog/plane/_plane_object.py — do not edit")
    L.append("import PW.Vec")
    L.append("")
    L.append("namespace PW.Gen")
    L.append("")
    L.append("/-- `Plane.DEFAULT_POSITION_DECIMALS` (a value of 1000000 means: anchor not found) -/")
    L.append("def planeDefaultPositionDecimals : Nat := %d" % (pos if pos is not None else 1000000))
    L.append("/-- `Plane.DEFAULT_DIRECTION_DECIMALS` -/")
    L.append("def planeDefaultDirectionDecimals : Nat := %d" % (dirn if dirn is not None else 1000000))
    L.append("")
    L.append("/-- base `b` of `atol = b ** direction_decimals` in `Plane.__init__`, as numerator / denominator of the decimal literal -/")
    L.append("def planeCtorAtolBase : Nat × Nat := (%d, %d)" % (base if (base is not None and base[0] >= 0) else (0, 1)))
    L.append("/-- the validation has the shape `if direction_decimals is None: direction_decimals = self.DEFAULT_DIRECTION_DECIMALS`;")
    L.append("    `if not vg.almost_unit_length(normal, atol=b ** direction_decimals): raise …` -/")
    L.append("def planeCtorValidationShape : Bool := %s" % ("true" if shape_ok else "false"))
    L.append("/-- the exception class raised for a normal that is not of unit length -/")
    L.append("def planeCtorRaises : String := \"%s\"" % raises.replace('"', ""))
    L.append("")
    L.append("variable {K : Type} [OfNat K 0] [OfNat K 1] [Neg K]")
    L.append("")
    for nm in ("xy", "xz", "yz"):
        ref, nrm = planes[nm]
        L.append("/-- `Plane.%s = Plane(reference_point=…, normal=…)`: (reference point, normal) -/" % nm)
        L.append("def plane%s : V3 K × V3 K := (%s, %s)" % (nm.upper(), _v3(ref), _v3(nrm)))
    L.append("")
    L.append("end PW.Gen")
    return [("PlaneConsts.lean", "\n".join(L) + "\n", "; ".join(notes) if notes else "all anchors found")]
