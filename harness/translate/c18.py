"""Translator fragment for C18 (line projection and line-line intersection): the shortcut comparisons, the degeneracy
tests, the sign rule, the determinant test and the formulas of
    polliwog/line/_line_intersect.py     intersect_lines, intersect_2d_lines
    polliwog/line/_line_functions.py     project_point_to_line
    polliwog/line/_line_object.py        Line.__init__ (the `vg.almost_zero(along)` refusal), from_points,
                                         reference_points, intersect_line, project
-> lean/PW/Gen/LineFn.lean (namespace PW.Gen.LineFn), tied to PW/Model/Line.lean by the `gen_*` theorems at the end of
PW/Props/C18.lean.

Read from the source text through the symbolic reader of `_symsrc.py` (local names replaced by what they were assigned,
anchors found by structure, commutative operands / mirrored comparisons normalised).  Labels used in the strings:
  E = p0 - q0, F = p1 - q1, G = p0 - p1, H = np.cross(F, G), K = np.cross(F, E) (intersect_lines); A, B (the 2x2 system
  of intersect_2d_lines).
Fails closed: an anchor that is not recognised is emitted as a value that falsifies its tying theorem.
"""
import ast

from ._symsrc import (SRCOPS_FILE, L_str, Out, Sym, as_int, canon, cmp_parts, exc_name, find, find_def, findall, func_shape,
                      match, read_tree, safe, text)


def _pairs(cond):
    """`np.all(a == b) or np.all(c == d)` -> ([(a, b), (c, d)] as sorted text pairs, [ops])"""
    if not (isinstance(cond, ast.BoolOp) and isinstance(cond.op, ast.Or)):
        return None
    ps, ops = [], []
    for v in cond.values:
        m = match("np.all(_T)", v)
        c = cmp_parts(m["_T"]) if m else None
        if c is None:
            return None
        ops.append(c[0])
        ps.append(" ".join(sorted([text(c[1]), text(c[2])])))
    order = sorted(range(len(ps)), key=lambda i: ps[i])
    return [ps[i] for i in order], [ops[i] for i in order]


def _intersect_lines(o, tree):
    s = safe(lambda: Sym(find_def(tree, "intersect_lines")))
    ev = safe(lambda: [(c, e) for c, k, e in s.events if k == "return"]) or []
    ok = len(ev) == 6 and all(len(c) == i + 1 for i, (c, e) in enumerate(ev[:5])) and len(ev[5][0]) == 5 \
        and all(c[-1][1] is True for c, e in ev[:5]) and all(p is False for _, p in ev[5][0])
    last = (lambda i: ev[i][0][-1][0]) if ok else (lambda i: None)
    res = (lambda i: ev[i][1]) if ok else (lambda i: None)
    kz = safe(lambda: cmp_parts(last(2)), (None, None, None))
    hz = safe(lambda: cmp_parts(last(3)), (None, None, None))
    sk = safe(lambda: cmp_parts(last(4)), (None, None, None))
    k = safe(lambda: match("vg.magnitude(_K)", kz[1])["_K"])
    h = safe(lambda: match("vg.magnitude(_H)", hz[1])["_H"])
    mk = safe(lambda: match("np.cross(_F, _E)", k)) or {}
    mh = safe(lambda: match("np.cross(_F, _G)", h)) or {}
    e, f, g = mk.get("_E"), mk.get("_F"), mh.get("_G")
    abbr = [("H", h), ("K", k), ("E", e), ("F", f), ("G", g)]
    sg = safe(lambda: find("_A if _C else _B", res(5))) or {}
    sc = safe(lambda: cmp_parts(sg["_C"]), (None, None, None))
    for nm, i in (("shortcutP0", 0), ("shortcutQ0", 1)):
        pr = safe(lambda: _pairs(last(i))) or (None, None)
        o.strs(nm + "Pairs", pr[0], "`intersect_lines`: returns `%s` when `np.all(x == y)` for one of these pairs (each pair "
               "and the list sorted)" % ("p0" if i == 0 else "q0"))
        o.d(nm + "Ops", "List Cmp", "[" + ", ".join(".%s" % (x if x in ("eq", "ne", "lt", "le", "gt", "ge") else "other")
                                                   for x in (pr[1] or ["other"])) + "]")
        o.str(nm + "Result", safe(lambda: text(res(i))))
        o.d(nm + "PairList", "List (String × String)",
            "[" + ", ".join("(%s, %s)" % (L_str(x.split(" ")[0]), L_str(x.split(" ")[1])) for x in (pr[0] or [])
                            if len(x.split(" ")) == 2) + "]", "the same pairs, split")
    o.str("eSrc", safe(lambda: text(e)), "E")
    o.str("fSrc", safe(lambda: text(f)), "F")
    o.str("gSrc", safe(lambda: text(g)), "G")
    o.str("hSrc", safe(lambda: text(h, abbr[2:])), "H")
    o.str("kSrc", safe(lambda: text(k, abbr[2:])), "K")
    o.bool("sameF", safe(lambda: text(mh["_F"]) == text(f), False), "H and K use the same F")
    for nm, c, i, what in (("kZero", kz, 2, "no intersection (parallel / collinear)"), ("hZero", hz, 3, "p0 lies on line 1"),
                           ("skew", sk, 4, "lines in parallel planes")):
        o.cmp(nm + "Cmp", c[0], "then `<lhs> op n`: %s" % what)
        o.str(nm + "Lhs", safe(lambda: text(c[1], abbr)))
        o.int(nm + "Rhs", safe(lambda: as_int(c[2])))
        o.str(nm + "Result", safe(lambda: text(res(i))))
    o.cmp("signCmp", sc[0], "sign = `<then> if <lhs> op n else <else>`")
    o.str("signLhs", safe(lambda: text(sc[1], abbr)))
    o.int("signRhs", safe(lambda: as_int(sc[2])))
    o.int("signThen", safe(lambda: as_int(sg["_A"])))
    o.int("signElse", safe(lambda: as_int(sg["_B"])))
    o.str("resultSrc", safe(lambda: text(res(5), abbr)), "the general case")


def _intersect_2d(o, tree):
    s = safe(lambda: Sym(find_def(tree, "intersect_2d_lines")))
    ev = safe(lambda: [(c, e) for c, k, e in s.events if k == "return"]) or []
    ok = len(ev) == 3 and len(ev[0][0]) == 1 and ev[0][0][0][1] is True
    d = safe(lambda: cmp_parts(ev[0][0][0][0]), (None, None, None)) if ok else (None, None, None)
    sol = safe(lambda: match("np.linalg.solve(_A, _B)", ev[1][1])) or {} if ok else {}
    abbr = [("A", sol.get("_A")), ("B", sol.get("_B"))]
    o.cmp("detCmp", d[0], "`intersect_2d_lines`: `None` when `<determinant> op n`")
    o.str("detSrc", safe(lambda: text(d[1], abbr)))
    o.int("detRhs", safe(lambda: as_int(d[2])))
    o.str("detResult", safe(lambda: text(ev[0][1])) if ok else None)
    o.str("matrixSrc", safe(lambda: text(sol["_A"])), "A")
    o.str("rhsSrc", safe(lambda: text(sol["_B"])), "B")
    o.str("solveSrc", safe(lambda: text(ev[1][1], abbr)) if ok else None, "otherwise")
    o.str("solveFailureResult", safe(lambda: text(ev[2][1])) if ok else None, "when `np.linalg.solve` raises")


def _line_object(o, tree, ftree):
    fn = find_def(tree, "Line.__init__")
    rz = safe(lambda: Sym(fn).raises()) or []
    one = len(rz) == 1 and len(rz[0][0]) == 1 and rz[0][0][0][1] is True
    o.str("ctorRefusesWhen", safe(lambda: text(rz[0][0][0][0])) if one else None, "`Line(point, along)` refuses when")
    o.str("ctorRaises", safe(lambda: exc_name(rz[0][1])) if one else None)
    o.strs("ctorStores", safe(lambda: ["%s = %s" % (text(st.targets[0]), text(canon(st.value))) for st in fn.body
                                        if isinstance(st, ast.Assign) and len(st.targets) == 1
                                        and isinstance(st.targets[0], ast.Attribute)]), "and otherwise stores")

    def only_return(t, q):
        rs = Sym(find_def(t, q)).returns()
        return rs[0] if len(rs) == 1 else None
    for ident, q in (("fromPointsSrc", "Line.from_points"), ("referencePointsSrc", "Line.reference_points"),
                     ("intersectLineSrc", "Line.intersect_line"), ("projectMethodSrc", "Line.project")):
        o.str(ident, safe(lambda: text(only_return(tree, q))), "`%s`" % q)
    o.str("projectSrc", safe(lambda: text(only_return(ftree, "project_point_to_line"))), "`project_point_to_line`")


def generate(repo):
    o = Out("LineFn", "harness/translate/c18.py from polliwog/line/_line_intersect.py, polliwog/line/_line_functions.py "
            "and polliwog/line/_line_object.py")
    _, t1 = read_tree(repo, "polliwog", "line", "_line_intersect.py")
    _, t2 = read_tree(repo, "polliwog", "line", "_line_object.py")
    _, t3 = read_tree(repo, "polliwog", "line", "_line_functions.py")
    for part, args in ((_intersect_lines, (t1,)), (_intersect_2d, (t1,)), (_line_object, (t2, t3))):
        n = len(o.lines)
        try:
            part(o, *args)
        except Exception as e:  # noqa: BLE001  fail closed: drop the partial output; the tying theorems then do not compile
            del o.lines[n:]
            o.notes.append("%s: %r" % (part.__name__, e))
        o.blank()
    o.shapes("functionShapes",
             [func_shape(t1, "intersect_lines"), func_shape(t1, "intersect_2d_lines"), func_shape(t3, "project_point_to_line")] +
             [func_shape(t2, "Line." + q) for q in ("__init__", "from_points", "reference_points", "intersect_line", "project")],
             "for every function read above: (name, decorators, parameters with defaults, statements the symbolic reader "
             "does not interpret, other bindings of the name in its scope)")
    return [SRCOPS_FILE, o.result()]
