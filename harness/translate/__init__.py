"""Translator: collects the per-property fragments harness/translate/cXX.py.
Each fragment exposes generate(repo_root) -> [(lean_file_name, content, notes)]."""
import importlib
import os
import pkgutil
import traceback


def generate_all(repo):
    out = []
    here = os.path.dirname(os.path.abspath(__file__))
    for m in sorted(pkgutil.iter_modules([here]), key=lambda m: m.name):
        if not m.name.startswith("c"):
            continue
        mod = importlib.import_module("translate." + m.name)
        try:
            out.extend(mod.generate(repo))
        except Exception:  # fail closed: the fragment must not raise; if it does, emit a file that breaks its theorems
            name = "Broken_%s.lean" % m.name
            out.append((name, "-- translator fragment %s crashed:\n/- %s -/\nnamespace PW.Gen\ntheorem translator_crashed_%s : False := by decide\nend PW.Gen\n"
                        % (m.name, traceback.format_exc().replace("-/", "- /"), m.name), "crashed"))
    return out
