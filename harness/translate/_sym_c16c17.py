"""Symbolic evaluator shared by the C16 / C17 translator fragments.

A small, whitelisted interpreter of python `ast` that *evaluates* straight-line NumPy code over symbolic
scalars: every float is a `Sc` holding a Lean term over the number type `K`; arrays are NumPy object arrays
of `Sc`, so indexing, broadcasting, `.T`, `np.vstack` behave exactly as in NumPy.  Anything outside the
whitelist raises `Unsupported`; the callers catch it and emit a fail-closed definition.
(Never imports polliwog; numpy is used only as a container for symbols.)
"""
import ast
import functools
from fractions import Fraction

import numpy as np


class Unsupported(Exception):
    pass


def nat_lean(n):
    if n < 0 or n > 16:
        raise Unsupported("integer literal out of range: %r" % n)
    if n == 0:
        return "0"
    if n == 1:
        return "1"
    return "(" + " + ".join(["1"] * n) + ")"


def const_lean(fr):
    fr = Fraction(fr)
    if fr < 0:
        return "(-%s)" % const_lean(-fr)
    if fr.denominator == 1:
        return nat_lean(fr.numerator)
    return "(%s / %s)" % (nat_lean(fr.numerator), nat_lean(fr.denominator))


class Sc:
    """symbolic scalar: a Lean term of type K (`const` set for numeric literals)"""
    __array_priority__ = -1000.0

    def __init__(self, lean, const=None, is_int=False):
        self.lean = lean
        self.const = const
        self.is_int = is_int

    @staticmethod
    def of(x):
        if isinstance(x, Sc):
            return x
        if isinstance(x, bool):
            raise Unsupported("bool used as a number")
        if isinstance(x, int):
            return Sc(const_lean(x), Fraction(x), True)
        if isinstance(x, float):
            return Sc(const_lean(Fraction(x)), Fraction(x), False)
        raise Unsupported("not a scalar: %r" % (x,))

    def _bin(self, other, op, swap=False):
        if isinstance(other, np.ndarray):
            return NotImplemented
        if isinstance(other, (list, tuple)):
            return NotImplemented
        o = Sc.of(other)
        a, b = (o, self) if swap else (self, o)
        return Sc("(%s %s %s)" % (a.lean, op, b.lean))

    def __add__(self, o): return self._bin(o, "+")
    def __radd__(self, o): return self._bin(o, "+", True)
    def __sub__(self, o): return self._bin(o, "-")
    def __rsub__(self, o): return self._bin(o, "-", True)
    def __mul__(self, o): return self._bin(o, "*")
    def __rmul__(self, o): return self._bin(o, "*", True)
    def __truediv__(self, o): return self._bin(o, "/")
    def __rtruediv__(self, o): return self._bin(o, "/", True)
    def __neg__(self): return Sc("(-%s)" % self.lean)
    def __pos__(self): return self

    def as_int(self):
        if self.const is None or not self.is_int or self.const.denominator != 1:
            raise Unsupported("integer literal expected, got %s" % self.lean)
        return int(self.const)

    def __repr__(self):
        return "Sc(%s)" % self.lean


class BoolE:
    """symbolic Bool: a Lean term of type Bool"""

    def __init__(self, lean):
        self.lean = lean

    def __repr__(self):
        return "BoolE(%s)" % self.lean


def cmp_sc(op):
    def f(a, b):
        return BoolE("decide (%s %s %s)" % (Sc.of(a).lean, op, Sc.of(b).lean))
    return f


CMP = {ast.LtE: "≤", ast.Lt: "<", ast.GtE: "≥", ast.Gt: ">"}


def elementwise(f, *args):
    if any(isinstance(a, (np.ndarray, list, tuple)) for a in args):
        arrs = [to_array(a) if isinstance(a, (list, tuple)) else a for a in args]
        return np.frompyfunc(f, len(args), 1)(*arrs)
    return f(*args)


def to_array(x):
    """python list / tuple / array of symbols -> object ndarray"""
    if isinstance(x, np.ndarray):
        return x
    if isinstance(x, (list, tuple)):
        items = [to_array(i) if isinstance(i, (list, tuple, np.ndarray)) else i for i in x]
        if items and all(isinstance(i, np.ndarray) for i in items):
            shapes = {i.shape for i in items}
            if len(shapes) != 1:
                raise Unsupported("ragged array literal")
            out = np.empty((len(items),) + items[0].shape, dtype=object)
            for k, i in enumerate(items):
                out[k] = i
            return out
        if any(isinstance(i, np.ndarray) for i in items):
            raise Unsupported("mixed array literal")
        out = np.empty((len(items),), dtype=object)
        for k, i in enumerate(items):
            out[k] = Sc.of(i)
        return out
    raise Unsupported("not array-like: %r" % (x,))


def sym_vec(name, comps=("x", "y", "z")):
    out = np.empty((len(comps),), dtype=object)
    for k, c in enumerate(comps):
        out[k] = Sc("%s.%s" % (name, c))
    return out


def vec_names(v):
    """the Lean terms of a symbolic vector (for recognising `p1`, `p2`, `p3` passed on unchanged)"""
    v = to_array(v)
    return [e.lean for e in v.ravel()]


class PlaneV:
    def __init__(self, ref, normal):
        self.ref = to_array(ref)
        self.normal = to_array(normal)


class PlaneFromPoints:
    """Plane.from_points(a, b, c): only `.normal` is used; it is the opaque vector `n` provided the three
    arguments are the parameters p1, p2, p3 in that order"""

    def __init__(self, args):
        self.args = [vec_names(a) for a in args]

    @property
    def normal(self):
        want = [["p1.x", "p1.y", "p1.z"], ["p2.x", "p2.y", "p2.z"], ["p3.x", "p3.y", "p3.z"]]
        if self.args != want:
            raise Unsupported("Plane.from_points is not called with (p1, p2, p3)")
        return sym_vec("n")


class QuadsToTris:
    def __init__(self, quads):
        a = to_array(quads)
        if a.ndim != 2 or a.shape[1] != 4:
            raise Unsupported("quads_to_tris argument is not k x 4")
        self.quads = [[e.as_int() for e in row] for row in a]


class Flattened:
    """_maybe_flatten(vertices, faces, flag)"""

    def __init__(self, vertices, faces, flag):
        self.vertices = vertices
        self.faces = faces
        self.flag = flag


class NoneV:
    pass


VG_BASIS = {
    "x": (1, 0, 0), "y": (0, 1, 0), "z": (0, 0, 1),
    "neg_x": (-1, 0, 0), "neg_y": (0, -1, 0), "neg_z": (0, 0, -1),
}


class SelfObj:
    """`self` inside a class body: `origin`, `size` are symbolic; every other attribute is a property of the
    class, evaluated from its source"""

    def __init__(self, ev, classdef, fields):
        self.ev = ev
        self.classdef = classdef
        self.fields = fields

    def get(self, name):
        if name in self.fields:
            return self.fields[name].copy()
        fn = find_function(self.classdef, name)
        if fn is None or not is_property(fn):
            raise Unsupported("self.%s is not a property" % name)
        return self.ev.run_function(fn, {"self": self})


def is_property(fn):
    return any(isinstance(d, ast.Name) and d.id == "property" for d in fn.decorator_list)


def find_function(node, name):
    for n in node.body:
        if isinstance(n, ast.FunctionDef) and n.name == name:
            return n
    return None


def find_class(module, name):
    for n in module.body:
        if isinstance(n, ast.ClassDef) and n.name == name:
            return n
    return None


class Return(Exception):
    def __init__(self, value):
        self.value = value


def dotted(node):
    if isinstance(node, ast.Name):
        return node.id
    if isinstance(node, ast.Attribute):
        b = dotted(node.value)
        return None if b is None else b + "." + node.attr
    return None


class Evaluator:
    """evaluates function bodies; `functions` maps a name to a FunctionDef that may be called symbolically"""

    def __init__(self, functions=None):
        self.functions = functions or {}
        self.guards = []   # (kind, details) of `if …: raise X(...)` statements met on the way

    # ---- statements -------------------------------------------------------------------------------
    def run_function(self, fn, env):
        env = dict(env)
        try:
            self.run_body(fn.body, env)
        except Return as r:
            return r.value
        return NoneV()

    def run_body(self, body, env):
        for st in body:
            self.run_stmt(st, env)

    def run_stmt(self, st, env):
        if isinstance(st, ast.Expr):
            if isinstance(st.value, ast.Constant) and isinstance(st.value.value, str):
                return  # docstring
            if isinstance(st.value, ast.Call) and dotted(st.value.func) == "vg.shape.check":
                return  # shape validation: modelled by ArrArg.asV3 / the Signatures of C20
            raise Unsupported("expression statement: " + ast.dump(st.value)[:80])
        if isinstance(st, (ast.ImportFrom, ast.Import)):
            return
        if isinstance(st, ast.Return):
            raise Return(NoneV() if st.value is None else self.eval(st.value, env))
        if isinstance(st, ast.Assign):
            if len(st.targets) != 1:
                raise Unsupported("chained assignment")
            self.assign(st.targets[0], self.eval(st.value, env), env)
            return
        if isinstance(st, ast.If):
            # `if x is None: x = <const>`  (default of an optional argument)
            t = st.test
            if (isinstance(t, ast.Compare) and len(t.ops) == 1 and isinstance(t.ops[0], ast.Is)
                    and isinstance(t.comparators[0], ast.Constant) and t.comparators[0].value is None
                    and isinstance(t.left, ast.Name) and not st.orelse and len(st.body) == 1
                    and isinstance(st.body[0], ast.Assign) and dotted(st.body[0].targets[0]) == t.left.id):
                default = self.eval(st.body[0].value, env)
                env.setdefault("__defaults__", {})[t.left.id] = default
                return
            # `if <guard>: raise X(...)`
            if (len(st.body) == 1 and isinstance(st.body[0], ast.Raise) and not st.orelse):
                exc = st.body[0].exc
                cls = dotted(exc.func) if isinstance(exc, ast.Call) else dotted(exc)
                self.guards.append((self.guard(t, env), cls))
                return
            raise Unsupported("if statement: " + ast.dump(t)[:80])
        raise Unsupported("statement " + type(st).__name__)

    def guard(self, t, env):
        # not isinstance(name, float)
        if (isinstance(t, ast.UnaryOp) and isinstance(t.op, ast.Not) and isinstance(t.operand, ast.Call)
                and dotted(t.operand.func) == "isinstance" and len(t.operand.args) == 2):
            return ("not-isinstance", dotted(t.operand.args[0]), dotted(t.operand.args[1]))
        try:
            v = self.eval(t, env)
        except Unsupported:
            return ("unknown", ast.dump(t)[:120])
        if isinstance(v, BoolE):
            return ("bool", v.lean)
        return ("unknown", ast.dump(t)[:120])

    def assign(self, target, value, env):
        if isinstance(target, ast.Name):
            env[target.id] = value
            return
        if isinstance(target, ast.Tuple) and all(isinstance(e, ast.Name) for e in target.elts):
            arr = to_array(value)
            if arr.ndim != 1 or len(arr) != len(target.elts):
                raise Unsupported("tuple unpacking of a non-vector")
            for e, x in zip(target.elts, arr):
                env[e.id] = x
            return
        if isinstance(target, ast.Subscript) and isinstance(target.value, ast.Name):
            arr = env.get(target.value.id)
            if not isinstance(arr, np.ndarray):
                raise Unsupported("item assignment on a non-array")
            idx = self.index(target.slice)
            arr[idx] = Sc.of(value) if not isinstance(value, np.ndarray) else value
            return
        raise Unsupported("assignment target " + ast.dump(target)[:80])

    def index(self, sl):
        if isinstance(sl, ast.Constant) and isinstance(sl.value, int) and not isinstance(sl.value, bool):
            return sl.value
        if isinstance(sl, ast.UnaryOp) and isinstance(sl.op, ast.USub) and isinstance(sl.operand, ast.Constant):
            return -sl.operand.value
        raise Unsupported("subscript " + ast.dump(sl)[:80])

    # ---- expressions ------------------------------------------------------------------------------
    def eval(self, e, env):
        if isinstance(e, ast.Constant):
            if e.value is None:
                return NoneV()
            if isinstance(e.value, (int, float)) and not isinstance(e.value, bool):
                return Sc.of(e.value)
            raise Unsupported("constant %r" % (e.value,))
        if isinstance(e, ast.Name):
            if e.id in env:
                return env[e.id]
            raise Unsupported("unknown name " + e.id)
        if isinstance(e, (ast.List, ast.Tuple)):
            return [self.eval(x, env) for x in e.elts]
        if isinstance(e, ast.Attribute):
            d = dotted(e)
            if d is not None and d.startswith("vg.basis."):
                k = d[len("vg.basis."):]
                if k not in VG_BASIS:
                    raise Unsupported(d)
                return to_array([Sc.of(c) for c in VG_BASIS[k]])
            base = self.eval(e.value, env)
            if isinstance(base, SelfObj):
                return base.get(e.attr)
            if isinstance(base, PlaneFromPoints) and e.attr == "normal":
                return base.normal
            if isinstance(base, np.ndarray) and e.attr == "T":
                return base.T.copy()
            raise Unsupported("attribute ." + e.attr)
        if isinstance(e, ast.Subscript):
            base = self.eval(e.value, env)
            base = to_array(base)
            return base[self.index(e.slice)]
        if isinstance(e, ast.UnaryOp):
            v = self.eval(e.operand, env)
            if isinstance(e.op, ast.USub):
                return -(to_array(v) if isinstance(v, list) else v)
            if isinstance(e.op, ast.UAdd):
                return v
            raise Unsupported("unary " + type(e.op).__name__)
        if isinstance(e, ast.BinOp):
            a = self.eval(e.left, env)
            b = self.eval(e.right, env)
            if isinstance(a, list) and isinstance(b, list):
                raise Unsupported("list (+|*) list")
            if isinstance(a, list):
                a = to_array(a)
            if isinstance(b, list):
                b = to_array(b)
            for x in (a, b):
                if not isinstance(x, (Sc, np.ndarray)):
                    raise Unsupported("arithmetic on " + type(x).__name__)
            if isinstance(e.op, ast.Add):
                return a + b
            if isinstance(e.op, ast.Sub):
                return a - b
            if isinstance(e.op, ast.Mult):
                return a * b
            if isinstance(e.op, ast.Div):
                return a / b
            raise Unsupported("operator " + type(e.op).__name__)
        if isinstance(e, ast.Compare):
            if len(e.ops) != 1 or type(e.ops[0]) not in CMP:
                raise Unsupported("comparison")
            a = self.eval(e.left, env)
            b = self.eval(e.comparators[0], env)
            return elementwise(cmp_sc(CMP[type(e.ops[0])]), a, b)
        if isinstance(e, ast.Call):
            return self.call(e, env)
        raise Unsupported("expression " + type(e).__name__)

    def call(self, e, env):
        name = dotted(e.func)
        args = [self.eval(a, env) for a in e.args]
        kw = {k.arg: k.value for k in e.keywords}
        if name == "np.array" and len(args) == 1 and not kw:
            a = args[0]
            return a if isinstance(a, QuadsToTris) else to_array(a)
        if name == "np.vstack" and len(args) == 1 and not kw:
            return np.vstack([np.atleast_2d(to_array(x)) for x in args[0]])
        if name == "np.repeat" and len(args) == 2 and not kw and isinstance(args[0], Sc):
            return to_array([args[0]] * args[1].as_int())
        if name == "np.prod" and len(args) == 1 and not kw:
            a = to_array(args[0])
            if a.ndim != 1:
                raise Unsupported("np.prod of a non-vector")
            return functools.reduce(lambda x, y: x * y, list(a))
        if name == "np.less" and len(args) == 2 and not kw:
            return elementwise(cmp_sc("<"), args[0], args[1])
        if name == "np.logical_and" and len(args) == 2 and not kw:
            return elementwise(lambda x, y: BoolE("(%s && %s)" % (x.lean, y.lean)), args[0], args[1])
        if name in ("np.all", "any", "np.any", "all") and len(args) == 1 and not kw:
            a = to_array(args[0]).ravel()
            if not len(a) or not all(isinstance(x, BoolE) for x in a):
                raise Unsupported(name + " of non-booleans")
            op = "&&" if name in ("np.all", "all") else "||"
            return functools.reduce(lambda x, y: BoolE("(%s %s %s)" % (x.lean, op, y.lean)), list(a))
        if isinstance(e.func, ast.Attribute) and e.func.attr in ("min", "max") and not args and set(kw) == {"axis"}:
            base = self.eval(e.func.value, env)
            if isinstance(base, np.ndarray) and base.ndim == 2:
                axis = self.index(kw["axis"])
                m = base if axis == 1 else base.T
                if e.func.attr == "min":
                    red = lambda x, y: Sc("(if %s < %s then %s else %s)" % (y.lean, x.lean, y.lean, x.lean))
                else:
                    red = lambda x, y: Sc("(if %s < %s then %s else %s)" % (x.lean, y.lean, y.lean, x.lean))
                return to_array([functools.reduce(red, list(row)) for row in m])
            raise Unsupported(".min/.max on a non-matrix")
        if name == "quads_to_tris" and len(args) == 1 and not kw:
            return QuadsToTris(args[0])
        if name == "_maybe_flatten" and len(args) == 3 and not kw:
            return Flattened(*args)
        if name == "Plane.from_points" and len(args) == 3 and not kw:
            return PlaneFromPoints(args)
        if name == "Plane" and len(args) == 2 and not kw:
            return PlaneV(args[0], args[1])
        if name in self.functions:
            fn = self.functions[name]
            params = [a.arg for a in fn.args.args]
            call_env = {}
            for p, a in zip(params, args):
                call_env[p] = a
            for k, v in kw.items():
                call_env[k] = self.eval(v, env)
            return self.run_function(fn, call_env)
        raise Unsupported("call " + str(name))


# ---- Lean rendering -----------------------------------------------------------------------------------

def v3_lean(v):
    v = to_array(v)
    if v.shape != (3,):
        raise Unsupported("3-vector expected, shape %s" % (v.shape,))
    return "⟨%s, %s, %s⟩" % tuple(Sc.of(x).lean for x in v)


def rows_v3_lean(m, n=None):
    m = to_array(m)
    if m.ndim != 2 or m.shape[1] != 3 or (n is not None and m.shape[0] != n):
        raise Unsupported("k x 3 matrix expected, shape %s" % (m.shape,))
    return "[" + ",\n   ".join(v3_lean(r) for r in m) + "]"


def int_rows(m, width):
    m = to_array(m)
    if m.ndim != 2 or m.shape[1] != width:
        raise Unsupported("k x %d integer table expected" % width)
    return [[e.as_int() for e in row] for row in m]


def tuples_lean(rows):
    return "[" + ", ".join("(" + ", ".join(str(x) for x in r) + ")" for r in rows) + "]"


HEADER = """/-
  GENERATED by harness/translate/%s from %s — do not edit.
  Regenerated from the current source on every check run; the theorems of %s tie it to the model.
-/
import PW.Vec

namespace PW.Gen.%s

set_option linter.unusedVariables false

variable {K : Type} [Add K] [Sub K] [Mul K] [Div K] [Neg K] [OfNat K 0] [OfNat K 1]
  [LT K] [LE K] [DecidableLT K] [DecidableLE K]

"""
