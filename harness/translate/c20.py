"""Translator fragment for C20: lean/PW/Gen/Signatures.lean.

For every public callable of polliwog (the `__all__` of plane, line, segment, tri, transform, shapes,
pointcloud, polyline and the public methods of Polyline, Plane, Box, Line, CompositeTransform,
CoordinateManager) the body is walked with python `ast` (polliwog is never imported) and its
shape-validation prefix is written down as data in the small language of lean/PW/Model/Shape.lean:

    vg.shape.check(locals(), "x", S) / vg.shape.check_value(x, S) / check_shape_any(x, S1, S2) /
    vg.shape.check_value_any(x, …)                       -> Act.check (param x) [S…] (bound name)
    columnize(x, S) (polliwog's) / vg.shape.columnize     -> Act.colPW / Act.colVG
    `if k < n: raise ValueError` / `if k == 0: raise …`    -> Act.atLeast k n
    `if x is not None:` / else-branch of `if x is None:`  -> Guard.ifPresent x
    else-branch of `if x.shape == (3, 3):`                -> Guard.unlessShape x [3, 3]
    `if np.ndim(x) != 1: raise ValueError`                 -> Act.check (param x) [(-1,)]
    `x = np.atleast_1d(np.asarray(x)); check(… "x", S)`    -> Act.check1d x [S]
    a shape check under any other `if c:/elif d:/else:`    -> Guard.flags [("c", true)], [("c", false), ("d", true)], …
    `r = np.array(r); r = r.flatten(); check_value(r,(3,))`-> Act.flatSize r 3
    the size/shape dispatch of cv2_rodrigues              -> Act.sizeOrShape
    an unconditional call of another polliwog callable whose arguments are parameters (or attributes of
    known shape such as `self.equation`)                  -> the callee's steps, inlined and renamed

Shape expressions: tuples of ints, `-1`, bound names (`k`, `num_faces`), `self.num_e`,
`-1 if k is None else k`, `a.shape` (also through `orig_shape = a.shape`).
Anything else that looks like a shape check but cannot be rendered becomes `Act.untranslated`, which never
accepts: the callable's theorem in PW/Props/C20.lean then fails (fail closed).  A callable that is not
found at all gets the empty signature `[]` (accepts everything), which fails its theorem as well.
"""
import ast
import os

SUBMODULES = ["plane", "line", "segment", "tri", "transform", "shapes", "pointcloud", "polyline"]
CLASSES = {
    "Polyline": "polyline/_polyline_object.py", "Plane": "plane/_plane_object.py", "Box": "box/_box_object.py",
    "Line": "line/_line_object.py", "CompositeTransform": "transform/_composite_transform.py",
    "CoordinateManager": "transform/_coordinate_manager.py",
}
# attributes of `self` whose shape is fixed by the class invariant (validated by the correspondence check)
KNOWN_ATTR = {("Plane", "equation"): (4,), ("Plane", "reference_point"): (3,), ("Plane", "normal"): (3,),
              ("Line", "reference_point"): (3,), ("Line", "along"): (3,)}
# attributes of `self` holding another polliwog object
ATTR_CLASS = {("CoordinateManager", "_transform"): "CompositeTransform"}
SPECIAL_METHODS = ("__init__", "__call__", "__setattr__")
MAX_DEPTH = 6


# ---------------------------------------------------------------------------------------------------
# source index

class Index:
    def __init__(self, repo):
        self.repo = repo
        self.root = os.path.join(repo, "polliwog")
        self.trees = {}
        self.funcs = {}      # bare function name -> [(relpath, FunctionDef)]
        self.methods = {}    # (Class, name) -> (relpath, FunctionDef, kind)   kind: method|classmethod|staticmethod|property
        self.nested = {}     # (outer bare name, inner name) -> (relpath, FunctionDef)
        for dirpath, _dirs, files in os.walk(self.root):
            for fn in sorted(files):
                if not fn.endswith(".py") or fn.startswith("test_"):
                    continue
                full = os.path.join(dirpath, fn)
                rel = os.path.relpath(full, self.root)
                try:
                    tree = ast.parse(open(full).read())
                except SyntaxError:
                    continue
                self.trees[rel] = tree
                for node in tree.body:
                    if isinstance(node, ast.FunctionDef):
                        self.funcs.setdefault(node.name, []).append((rel, node))
                        for sub in node.body:
                            if isinstance(sub, ast.FunctionDef):
                                self.nested[(node.name, sub.name)] = (rel, sub)
                    elif isinstance(node, ast.ClassDef):
                        for sub in node.body:
                            if isinstance(sub, ast.FunctionDef):
                                kind = "method"
                                for d in sub.decorator_list:
                                    dn = d.id if isinstance(d, ast.Name) else (d.attr if isinstance(d, ast.Attribute) else "")
                                    if dn in ("classmethod", "staticmethod", "property"):
                                        kind = dn
                                    if dn in ("setter", "getter"):
                                        kind = "property"
                                self.methods[(node.name, sub.name)] = (rel, sub, kind)

    def all_of(self, rel, seen=()):
        """value of `__all__` in module file `rel` (list literals, `+`, `<alias>.__all__`)"""
        tree = self.trees.get(rel)
        if tree is None or rel in seen:
            return []
        aliases = {}
        pkg = os.path.dirname(rel)
        for node in tree.body:
            if isinstance(node, ast.ImportFrom) and node.level >= 1:
                base = pkg
                for _ in range(node.level - 1):
                    base = os.path.dirname(base)
                for a in node.names:
                    target = os.path.join(base, *(node.module.split(".") if node.module else []), a.name + ".py")
                    if os.path.normpath(target) in self.trees:
                        aliases[a.asname or a.name] = os.path.normpath(target)

        def ev(e):
            if isinstance(e, (ast.List, ast.Tuple)):
                return [x.value for x in e.elts if isinstance(x, ast.Constant) and isinstance(x.value, str)]
            if isinstance(e, ast.BinOp) and isinstance(e.op, ast.Add):
                return ev(e.left) + ev(e.right)
            if isinstance(e, ast.Attribute) and e.attr == "__all__" and isinstance(e.value, ast.Name):
                return self.all_of(aliases.get(e.value.id, ""), seen + (rel,))
            return []
        for node in tree.body:
            if isinstance(node, ast.Assign) and any(isinstance(t, ast.Name) and t.id == "__all__" for t in node.targets):
                return ev(node.value)
        return []

    def func(self, name, prefer_dir=None):
        c = self.funcs.get(name, [])
        if not c:
            return None
        if prefer_dir is not None:
            for rel, node in c:
                if os.path.dirname(rel) == prefer_dir:
                    return rel, node
        return c[0]


# ---------------------------------------------------------------------------------------------------
# step representation (python side)
#   step = {"guard": ("always",) | ("ifPresent", arg) | ("unlessShape", arg, shape),
#           "act": ("check", argref, [shapeE…], bind|None) | ("colPW"|"colVG", argref, shapeE) | ("atLeast", v, n)
#                  | ("flatSize", arg, n) | ("sizeOrShape", arg, n, shape) | ("untranslated", why)}
#   argref = ("param", name) | ("fixed", shape);  shapeE = ("tuple", [dimE…]) | ("shapeOf", arg)
#   dimE = ("lit", n) | ("wild",) | ("var", v) | ("varOrWild", v)

class Untranslatable(Exception):
    pass


def params_of(fnode):
    a = fnode.args
    names = [x.arg for x in a.posonlyargs + a.args]
    if names and names[0] in ("self", "cls"):
        names = names[1:]
    return names, [x.arg for x in a.kwonlyargs], a.vararg is not None, a.kwarg is not None


def is_neg1(e):
    return (isinstance(e, ast.UnaryOp) and isinstance(e.op, ast.USub) and isinstance(e.operand, ast.Constant) and e.operand.value == 1) \
        or (isinstance(e, ast.Constant) and e.value == -1)


def const_tuple(e):
    if isinstance(e, ast.Tuple) and all(isinstance(x, ast.Constant) and isinstance(x.value, int) and x.value >= 0 for x in e.elts):
        return tuple(x.value for x in e.elts)
    return None


class Walker:
    def __init__(self, index, rel, fnode, cls, depth, stack):
        self.ix = index
        self.rel = rel
        self.fnode = fnode
        self.cls = cls
        self.depth = depth
        self.stack = stack
        pos, kwonly, self.has_var, self.has_kw = params_of(fnode)
        self.params = pos + kwonly
        self.state = {p: ("param", p) for p in self.params}      # local name -> what it holds
        self.bound = set()                                       # names bound by checks
        self.aliases = {}                                        # local name -> ("shapeOf", param)
        self.steps = []
        self.notes = []

    # ---- expressions -------------------------------------------------------------------------
    def dim(self, e):
        if is_neg1(e):
            return ("wild",)
        if isinstance(e, ast.Constant) and isinstance(e.value, int) and e.value >= 0:
            return ("lit", e.value)
        if isinstance(e, ast.Name) and e.id in self.bound:
            return ("var", e.id)
        if isinstance(e, ast.Attribute) and isinstance(e.value, ast.Name) and e.value.id == "self":
            return ("var", "self." + e.attr)
        if isinstance(e, ast.IfExp) and is_neg1(e.body) and isinstance(e.orelse, ast.Name) and e.orelse.id in self.bound:
            t = e.test
            if isinstance(t, ast.Compare) and isinstance(t.left, ast.Name) and t.left.id == e.orelse.id and len(t.ops) == 1 \
                    and isinstance(t.ops[0], ast.Is) and isinstance(t.comparators[0], ast.Constant) and t.comparators[0].value is None:
                return ("varOrWild", e.orelse.id)
        raise Untranslatable("dimension " + ast.unparse(e))

    def shape(self, e):
        if isinstance(e, ast.Tuple):
            return ("tuple", [self.dim(x) for x in e.elts])
        if isinstance(e, ast.Name) and e.id in self.aliases:
            return self.aliases[e.id]
        if isinstance(e, ast.Attribute) and e.attr == "shape":
            r = self.argref(e.value)
            if r is not None and r[0] == "param":
                return ("shapeOf", r[1])
            if r is not None and r[0] == "fixed":
                return ("tuple", [("lit", n) for n in r[1]])
        raise Untranslatable("shape " + ast.unparse(e))

    def argref(self, e):
        """what an expression used as an argument refers to: ("param", p) | ("fixed", shape) | ("flat", p) | None"""
        if isinstance(e, ast.Name):
            st = self.state.get(e.id)
            if st is not None and st[0] in ("param", "flat", "atleast1d"):
                return st
            return None
        if isinstance(e, ast.Attribute) and isinstance(e.value, ast.Name) and e.value.id == "self" and self.cls:
            sh = KNOWN_ATTR.get((self.cls, e.attr))
            if sh is not None:
                return ("fixed", sh)
        return None

    # ---- calls -------------------------------------------------------------------------------
    def ordered_calls(self, e):
        """Call nodes of an expression in evaluation order (arguments before the call itself); lambdas,
        comprehensions and conditional sub-expressions are not entered."""
        out = []

        def visit(n):
            if isinstance(n, (ast.Lambda, ast.ListComp, ast.SetComp, ast.DictComp, ast.GeneratorExp)):
                return
            if isinstance(n, ast.IfExp):
                visit(n.test)
                return
            if isinstance(n, ast.BoolOp):
                visit(n.values[0])
                return
            if isinstance(n, ast.Call):
                visit(n.func)
                for a in n.args:
                    visit(a)
                for k in n.keywords:
                    visit(k.value)
                out.append(n)
                return
            for c in ast.iter_child_nodes(n):
                visit(c)
        visit(e)
        return out

    def kind_of_call(self, c):
        f = c.func
        if isinstance(f, ast.Attribute) and isinstance(f.value, ast.Attribute) and f.value.attr == "shape" \
                and isinstance(f.value.value, ast.Name) and f.value.value.id == "vg":
            return "vg." + f.attr                       # vg.shape.check / check_value / check_value_any / columnize
        if isinstance(f, ast.Name) and f.id in ("check_shape_any", "columnize"):
            return "pw." + f.id
        return None

    def handle_check(self, c, kind, guard, bind):
        try:
            kw = {k.arg: k.value for k in c.keywords}
            if kind == "vg.check":
                if len(c.args) != 3 or not (isinstance(c.args[1], ast.Constant) and isinstance(c.args[1].value, str)):
                    raise Untranslatable(ast.unparse(c))
                name = c.args[1].value
                st = self.state.get(name)
                if name == "transform" and st is None:
                    raise Untranslatable("check on a loop variable")
                ref = st if st is not None and st[0] in ("param", "flat", "atleast1d") else None
                alts = [c.args[2]]
            elif kind in ("vg.check_value",):
                ref = self.argref(c.args[0])
                alts = [c.args[1] if len(c.args) > 1 else kw.get("shape")]
            elif kind in ("vg.check_value_any", "pw.check_shape_any"):
                ref = self.argref(c.args[0])
                alts = list(c.args[1:])
                if len(alts) != 2:
                    # with 1 or >= 3 shapes a failing check_shape_any / check_value_any does not raise ValueError
                    raise Untranslatable("%d alternatives" % len(alts))
            elif kind in ("pw.columnize", "vg.columnize"):
                ref = self.argref(c.args[0])
                sh = c.args[1] if len(c.args) > 1 else kw.get("shape")
                she = ("tuple", [("wild",), ("lit", 3)]) if sh is None else self.shape(sh)
                if ref is None or ref[0] != "param":
                    raise Untranslatable("columnize of " + ast.unparse(c.args[0]))
                self.steps.append({"guard": guard, "act": ("colPW" if kind == "pw.columnize" else "colVG", ref, she)})
                return
            else:
                raise Untranslatable(kind)
            if ref is None:
                raise Untranslatable("checked value " + ast.unparse(c.args[0] if kind != "vg.check" else c.args[1]))
            if ref[0] == "atleast1d":
                self.steps.append({"guard": guard, "act": ("check1d", ref[1], [self.shape(a) for a in alts], bind)})
                if bind:
                    self.bound.add(bind)
                return
            if ref[0] == "flat":
                t = const_tuple(alts[0]) if len(alts) == 1 else None
                if t is None or len(t) != 1:
                    raise Untranslatable("flattened check " + ast.unparse(c))
                self.steps.append({"guard": guard, "act": ("flatSize", ref[1], t[0])})
                return
            self.steps.append({"guard": guard, "act": ("check", ref, [self.shape(a) for a in alts], bind)})
            if bind:
                self.bound.add(bind)
        except Untranslatable as u:
            self.steps.append({"guard": guard, "act": ("untranslated", str(u))})

    def resolve(self, c):
        """-> (key, rel, FunctionDef, cls) of a polliwog callable, or None"""
        f = c.func
        ix = self.ix
        if isinstance(f, ast.Name):
            if f.id in CLASSES and (f.id, "__init__") in ix.methods:
                rel, node, _ = ix.methods[(f.id, "__init__")]
                return (f.id + ".__init__", rel, node, f.id)
            if f.id == "cls" and self.cls and (self.cls, "__init__") in ix.methods:
                rel, node, _ = ix.methods[(self.cls, "__init__")]
                return (self.cls + ".__init__", rel, node, self.cls)
            r = ix.func(f.id, os.path.dirname(self.rel))
            if r is not None:
                return ("fn:" + f.id, r[0], r[1], None)
            return None
        if isinstance(f, ast.Attribute):
            v = f.value
            if isinstance(v, ast.Name) and v.id in ("self", "cls") and self.cls and (self.cls, f.attr) in ix.methods:
                rel, node, kind = ix.methods[(self.cls, f.attr)]
                if kind != "property":
                    return (self.cls + "." + f.attr, rel, node, self.cls)
            if isinstance(v, ast.Name) and v.id in CLASSES and (v.id, f.attr) in ix.methods:
                rel, node, kind = ix.methods[(v.id, f.attr)]
                if kind != "property":
                    return (v.id + "." + f.attr, rel, node, v.id)
            if isinstance(v, ast.Attribute) and isinstance(v.value, ast.Name) and v.value.id == "self" and self.cls:
                tc = ATTR_CLASS.get((self.cls, v.attr))
                if tc and (tc, f.attr) in ix.methods:
                    rel, node, _ = ix.methods[(tc, f.attr)]
                    return (tc + "." + f.attr, rel, node, tc)
            return None
        if isinstance(f, ast.Call):
            # F(...)(args): the function returned by F when F returns a nested def
            inner = self.resolve(f)
            if inner is not None and inner[0].startswith("fn:"):
                outer = inner[2]
                for st in outer.body:
                    if isinstance(st, ast.Return) and isinstance(st.value, ast.Name) and (outer.name, st.value.id) in ix.nested:
                        rel, node = ix.nested[(outer.name, st.value.id)]
                        return ("fn:" + outer.name + "." + node.name, rel, node, None)
        return None

    def resolve_self_call(self, c):
        """self._transform(points, …) -> CompositeTransform.__call__"""
        f = c.func
        if isinstance(f, ast.Attribute) and isinstance(f.value, ast.Name) and f.value.id == "self" and self.cls:
            tc = ATTR_CLASS.get((self.cls, f.attr))
            if tc and (tc, "__call__") in self.ix.methods:
                rel, node, _ = self.ix.methods[(tc, "__call__")]
                return (tc + ".__call__", rel, node, tc)
        return None

    def inline(self, c, guard):
        r = self.resolve(c) or self.resolve_self_call(c)
        if r is None:
            return
        key, rel, node, cls = r
        if key in self.stack or self.depth >= MAX_DEPTH:
            return
        sub = Walker(self.ix, rel, node, cls, self.depth + 1, self.stack + (key,))
        sub.run()
        if not sub.steps:
            return
        pos, kwonly, has_var, has_kw = params_of(node)
        actual = {}
        star = any(isinstance(a, ast.Starred) for a in c.args) or any(k.arg is None for k in c.keywords)
        if star:
            # f(*args, **kwargs) from a (*args, **kwargs) wrapper: same parameter names
            if self.has_var and self.has_kw and len(c.args) == 1 and len(c.keywords) == 1:
                for p in pos + kwonly:
                    actual[p] = ("param", p)
                    self.state.setdefault(p, ("param", p))
            else:
                for i, a in enumerate(c.args):
                    if isinstance(a, ast.Starred):
                        break
                    if i < len(pos):
                        actual[pos[i]] = self.argref(a) or ("unknown",)
                for p in pos + kwonly:
                    actual.setdefault(p, ("unknown",))
        else:
            for i, a in enumerate(c.args):
                if i < len(pos):
                    actual[pos[i]] = self.argref(a) or ("unknown",)
            for k in c.keywords:
                actual[k.arg] = self.argref(k.value) or ("unknown",)
        tag = key.split(":")[-1]
        tainted = set()
        for st in sub.steps:
            g, act = st["guard"], st["act"]
            # guard
            if g[0] in ("ifPresent", "unlessShape"):
                a = actual.get(g[1])
                if a is None:             # argument omitted: callee default (None) -> the step does not run
                    if g[0] == "ifPresent":
                        continue
                    a = ("unknown",)
                if a[0] == "param":
                    g2 = (g[0], a[1]) + tuple(g[2:])
                elif a[0] == "fixed" and g[0] == "ifPresent":
                    g2 = ("always",)
                elif a[0] == "fixed" and g[0] == "unlessShape":
                    if tuple(a[1]) == tuple(g[2]):
                        continue
                    g2 = ("always",)
                else:
                    self._taint(act, tainted, tag)
                    continue
                if guard != ("always",) and g2 != ("always",):  # e.g. an `ifPresent` step of the callee under a flag
                    self.steps.append({"guard": guard, "act": ("untranslated", "nested guards")})
                    continue
                g2 = guard if g2 == ("always",) else g2
            else:
                g2 = guard
            try:
                act2 = self._rename(act, actual, tainted, tag)
            except Untranslatable:
                self._taint(act, tainted, tag)
                continue
            if act2 is not None:
                self.steps.append({"guard": g2, "act": act2, "via": tag})

    def _taint(self, act, tainted, tag):
        if act[0] in ("check", "check1d") and act[3]:
            tainted.add(act[3])

    def _rename(self, act, actual, tainted, tag):
        def v(name):
            return name if name.startswith("self.") else name + "@" + tag

        def ref(r):
            if r[0] == "fixed":
                return r
            a = actual.get(r[1])
            if a is None:
                return ("absent",)
            if a[0] in ("param", "fixed"):
                return a
            raise Untranslatable("unknown actual")

        def she(s):
            if s[0] == "shapeOf":
                a = actual.get(s[1])
                if a is None or a[0] not in ("param", "fixed"):
                    raise Untranslatable("shape of unknown actual")
                return ("shapeOf", a[1]) if a[0] == "param" else ("tuple", [("lit", n) for n in a[1]])
            ds = []
            for d in s[1]:
                if d[0] in ("var", "varOrWild"):
                    if d[1] in tainted:
                        raise Untranslatable("tainted variable")
                    ds.append((d[0], v(d[1])))
                else:
                    ds.append(d)
            return ("tuple", ds)
        k = act[0]
        if k == "check":
            r = ref(act[1])
            if r == ("absent",):
                # a required check on an omitted argument cannot be rendered; optional ones are guarded
                raise Untranslatable("omitted")
            return ("check", r, [she(s) for s in act[2]], v(act[3]) if act[3] else None)
        if k in ("colPW", "colVG"):
            r = ref(act[1])
            if r == ("absent",):
                raise Untranslatable("omitted")
            return (k, r, she(act[2]))
        if k == "check1d":
            a = actual.get(act[1])
            if a is None or a[0] != "param":
                raise Untranslatable("unknown actual")
            return ("check1d", a[1], [she(s) for s in act[2]], v(act[3]) if act[3] else None)
        if k == "atLeast":
            if act[1] in tainted:
                raise Untranslatable("tainted")
            return ("atLeast", v(act[1]), act[2])
        if k in ("flatSize", "sizeOrShape"):
            a = actual.get(act[1])
            if a is None or a[0] != "param":
                raise Untranslatable("unknown actual")
            return (k, a[1]) + tuple(act[2:])
        if k == "untranslated":
            return act
        raise Untranslatable(k)

    # ---- statements --------------------------------------------------------------------------
    def expr(self, e, guard, bind=None):
        calls = self.ordered_calls(e)
        for c in calls:
            kind = self.kind_of_call(c)
            if kind is not None:
                self.handle_check(c, kind, guard, bind if c is e else None)
            else:
                self.inline(c, guard)

    def has_direct_check(self, nodes):
        for n in nodes:
            for sub in ast.walk(n):
                if isinstance(sub, ast.Call) and self.kind_of_call(sub) is not None:
                    return True
        return False

    def none_test(self, t):
        """`x is None` -> (x, True); `x is not None` -> (x, False)"""
        if isinstance(t, ast.Compare) and len(t.ops) == 1 and isinstance(t.left, ast.Name) \
                and isinstance(t.comparators[0], ast.Constant) and t.comparators[0].value is None:
            if isinstance(t.ops[0], ast.Is):
                return t.left.id, True
            if isinstance(t.ops[0], ast.IsNot):
                return t.left.id, False
        return None

    def raises_value_error(self, body):
        return len(body) == 1 and isinstance(body[0], ast.Raise) and isinstance(body[0].exc, ast.Call) \
            and isinstance(body[0].exc.func, ast.Name) and body[0].exc.func.id == "ValueError"

    def stmt(self, s, guard):
        """returns True when the statement ends the (unconditional) flow"""
        if isinstance(s, ast.Return):
            if s.value is not None:
                self.expr(s.value, guard)
            return True
        if isinstance(s, ast.Raise):
            return True
        if isinstance(s, ast.Expr):
            self.expr(s.value, guard)
            return False
        if isinstance(s, (ast.Assign, ast.AnnAssign, ast.AugAssign)):
            value = s.value
            targets = s.targets if isinstance(s, ast.Assign) else [s.target]
            if value is None:
                return False
            tname = targets[0].id if len(targets) == 1 and isinstance(targets[0], ast.Name) else None
            # orig_shape = a.shape
            if tname and isinstance(value, ast.Attribute) and value.attr == "shape":
                r = self.argref(value.value)
                if r is not None and r[0] == "param":
                    self.aliases[tname] = ("shapeOf", r[1])
                    return False
            self.expr(value, guard, bind=tname)
            # what the assigned names hold afterwards
            new_state = None
            if tname and isinstance(value, ast.Call):
                f = value.func
                fname = ast.unparse(f)
                if fname in ("np.array", "np.asarray", "np.asanyarray") and value.args:
                    r = self.argref(value.args[0])
                    if r is not None and r[0] == "param":
                        new_state = r
                if fname == "np.atleast_1d" and value.args:
                    inner = value.args[0]
                    if isinstance(inner, ast.Call) and ast.unparse(inner.func) in ("np.asarray", "np.array", "np.asanyarray") and inner.args:
                        inner = inner.args[0]
                    r = self.argref(inner)
                    if r is not None and r[0] == "param":
                        new_state = ("atleast1d", r[1])
                if isinstance(f, ast.Attribute) and f.attr in ("flatten", "ravel") and not value.args:
                    r = self.argref(f.value)
                    if r is not None and r[0] == "param":
                        new_state = ("flat", r[1])
            for t in targets:
                for n in ast.walk(t):
                    if isinstance(n, ast.Name):
                        if n.id == tname and new_state is not None:
                            self.state[n.id] = new_state
                        elif n.id in self.state and n.id not in self.bound:
                            self.state[n.id] = ("local",)
                        elif n.id not in self.bound:
                            self.state[n.id] = ("local",)
            return False
        if isinstance(s, ast.If):
            nt = self.none_test(s.test)
            if nt is not None and nt[0] in self.params and guard == ("always",):
                name, is_none = nt
                present, absent = (s.orelse, s.body) if is_none else (s.body, s.orelse)
                if self.has_direct_check(absent):
                    self.steps.append({"guard": guard, "act": ("untranslated", "check in the None branch of " + name)})
                saved = dict(self.state)
                for x in present:
                    if self.stmt(x, ("ifPresent", name)):
                        break
                self.state = saved
                return False
            t = s.test
            # if x.shape == (3, 3): … else: <checks>
            if isinstance(t, ast.Compare) and len(t.ops) == 1 and isinstance(t.ops[0], ast.Eq) and isinstance(t.left, ast.Attribute) \
                    and t.left.attr == "shape" and const_tuple(t.comparators[0]) is not None and guard == ("always",):
                r = self.argref(t.left.value)
                if r is not None and r[0] == "param":
                    if self.has_direct_check(s.body):
                        self.steps.append({"guard": guard, "act": ("untranslated", "check under a shape test")})
                    saved = dict(self.state)
                    for x in s.orelse:
                        if self.stmt(x, ("unlessShape", r[1], const_tuple(t.comparators[0]))):
                            break
                    self.state = saved
                    return False
            # if r.size == 3: … elif r.shape == (3, 3): … else: raise ValueError
            if isinstance(t, ast.Compare) and len(t.ops) == 1 and isinstance(t.ops[0], ast.Eq) and isinstance(t.left, ast.Attribute) \
                    and t.left.attr == "size" and isinstance(t.comparators[0], ast.Constant) and len(s.orelse) == 1 \
                    and isinstance(s.orelse[0], ast.If) and guard == ("always",):
                r = self.argref(t.left.value)
                t2 = s.orelse[0].test
                if r is not None and r[0] == "param" and isinstance(t2, ast.Compare) and isinstance(t2.ops[0], ast.Eq) \
                        and isinstance(t2.left, ast.Attribute) and t2.left.attr == "shape" and ast.unparse(t2.left.value) == ast.unparse(t.left.value) \
                        and const_tuple(t2.comparators[0]) is not None and self.raises_value_error(s.orelse[0].orelse):
                    self.steps.append({"guard": guard, "act": ("sizeOrShape", r[1], t.comparators[0].value, const_tuple(t2.comparators[0]))})
                    return all(isinstance(b[-1], (ast.Return, ast.Raise)) for b in (s.body, s.orelse[0].body))
            # if k < n: raise ValueError / if k == 0: raise ValueError
            if isinstance(t, ast.Compare) and len(t.ops) == 1 and isinstance(t.left, ast.Name) and t.left.id in self.bound \
                    and isinstance(t.comparators[0], ast.Constant) and isinstance(t.comparators[0].value, int) \
                    and self.raises_value_error(s.body) and not s.orelse:
                n = t.comparators[0].value
                if isinstance(t.ops[0], ast.Lt):
                    self.steps.append({"guard": guard, "act": ("atLeast", t.left.id, n)})
                    return False
                if isinstance(t.ops[0], ast.Eq) and n == 0:
                    self.steps.append({"guard": guard, "act": ("atLeast", t.left.id, 1)})
                    return False
            # if np.ndim(x) != n: raise ValueError
            if isinstance(t, ast.Compare) and len(t.ops) == 1 and isinstance(t.ops[0], ast.NotEq) and isinstance(t.left, ast.Call) \
                    and ast.unparse(t.left.func) == "np.ndim" and len(t.left.args) == 1 and isinstance(t.comparators[0], ast.Constant) \
                    and isinstance(t.comparators[0].value, int) and self.raises_value_error(s.body) and not s.orelse:
                r = self.argref(t.left.args[0])
                if r is not None and r[0] == "param":
                    self.steps.append({"guard": guard, "act": ("check", r, [("tuple", [("wild",)] * t.comparators[0].value)], None)})
                    return False
            # any other conditional: its truth value is a named flag when shape checks sit below it,
            # otherwise it is not part of the validation prefix
            if self.has_direct_check(s.body + s.orelse) or guard[0] == "flags":
                if guard[0] not in ("always", "flags"):
                    self.steps.append({"guard": guard, "act": ("untranslated", "shape check under nested `if %s`" % ast.unparse(s.test)[:60])})
                    return False
                name = ast.unparse(s.test).replace(" ", "")
                base = list(guard[1]) if guard[0] == "flags" else []
                saved = dict(self.state)
                for x in s.body:
                    if self.stmt(x, ("flags", tuple(base + [(name, True)]))):
                        break
                self.state = dict(saved)
                for x in s.orelse:
                    if self.stmt(x, ("flags", tuple(base + [(name, False)]))):
                        break
                self.state = saved
            return False
        if isinstance(s, (ast.For, ast.While, ast.With, ast.Try)):
            if self.has_direct_check([s]) and self.depth == 0:
                self.notes.append("shape check inside a %s statement is not rendered" % type(s).__name__)
            return False
        return False

    def run(self):
        for s in self.fnode.body:
            if isinstance(s, (ast.FunctionDef, ast.ClassDef, ast.Import, ast.ImportFrom)):
                continue
            if self.stmt(s, ("always",)):
                break
        return self.steps


# ---------------------------------------------------------------------------------------------------
# rendering

def lean_str(s):
    return '"' + s.replace("\\", "\\\\").replace('"', '\\"') + '"'


def r_shape(t):
    return "[" + ", ".join(str(int(n)) for n in t) + "]"


def r_dim(d):
    if d[0] == "lit":
        return ".lit %d" % d[1]
    if d[0] == "wild":
        return ".wild"
    return ".%s %s" % (d[0], lean_str(d[1]))


def r_shapeE(s):
    if s[0] == "shapeOf":
        return ".shapeOf %s" % lean_str(s[1])
    return ".tuple [" + ", ".join(r_dim(d) for d in s[1]) + "]"


def r_ref(r):
    return "(.param %s)" % lean_str(r[1]) if r[0] == "param" else "(.fixed %s)" % r_shape(r[1])


def r_step(st):
    g, a = st["guard"], st["act"]
    if g[0] == "always":
        gs = ".always"
    elif g[0] == "ifPresent":
        gs = ".ifPresent %s" % lean_str(g[1])
    elif g[0] == "unlessShape":
        gs = ".unlessShape %s %s" % (lean_str(g[1]), r_shape(g[2]))
    else:
        gs = ".flags [%s]" % ", ".join("(%s, %s)" % (lean_str(n), "true" if v else "false") for n, v in g[1])
    k = a[0]
    if k == "check":
        act = ".check %s [%s] %s" % (r_ref(a[1]), ", ".join(r_shapeE(s) for s in a[2]), "(some %s)" % lean_str(a[3]) if a[3] else "none")
    elif k == "check1d":
        act = ".check1d %s [%s] %s" % (lean_str(a[1]), ", ".join(r_shapeE(s) for s in a[2]), "(some %s)" % lean_str(a[3]) if a[3] else "none")
    elif k in ("colPW", "colVG"):
        act = ".%s %s (%s)" % (k, r_ref(a[1]), r_shapeE(a[2]))
    elif k == "atLeast":
        act = ".atLeast %s %d" % (lean_str(a[1]), a[2])
    elif k == "flatSize":
        act = ".flatSize %s %d" % (lean_str(a[1]), a[2])
    elif k == "sizeOrShape":
        act = ".sizeOrShape %s %d %s" % (lean_str(a[1]), a[2], r_shape(a[3]))
    else:
        act = ".untranslated"
    return "⟨%s, %s⟩" % (gs, act)


def simplify(steps):
    """drop a step that repeats an earlier one verbatim (same guard, same argument, same alternatives): the
    environment does not change between steps, so it has the same outcome and the same binding; a name bound by
    the repeated step becomes an alias of the name bound by the first occurrence."""
    alias = {}
    seen = {}
    out = []

    def sub_shape(s):
        if s[0] != "tuple":
            return s
        return ("tuple", [((d[0], alias.get(d[1], d[1])) if d[0] in ("var", "varOrWild") else d) for d in s[1]])
    for st in steps:
        g, a = st["guard"], st["act"]
        if a[0] == "check":
            a = ("check", a[1], [sub_shape(x) for x in a[2]], a[3])
            key = (g, "check", a[1], repr(a[2]))
            if key in seen:
                first = seen[key]
                if a[3] is None:
                    continue
                if first["act"][3] is not None:
                    alias[a[3]] = alias.get(first["act"][3], first["act"][3])
                    continue
                # the first occurrence did not bind: let it bind this name
                first["act"] = first["act"][:3] + (a[3],)
                continue
            st = dict(st, act=a)
            seen[key] = st
        elif a[0] in ("colPW", "colVG"):
            a = (a[0], a[1], sub_shape(a[2]))
            key = (g, a[0], a[1], repr(a[2]))
            if key in seen:
                continue
            st = dict(st, act=a)
            seen[key] = st
        elif a[0] == "atLeast":
            a = ("atLeast", alias.get(a[1], a[1]), a[2])
            key = (g, a)
            if key in seen:
                continue
            st = dict(st, act=a)
            seen[key] = st
        elif a[0] in ("flatSize", "sizeOrShape"):
            key = (g, a)
            if key in seen:
                continue
            seen[key] = st
        out.append(st)
    return out


def mangle(name):
    out = []
    for ch in name:
        out.append(ch if ch.isalnum() else "_")
    return "sig_" + "".join(out)


def public_callables(ix):
    """[(public name, rel, FunctionDef, cls)]"""
    out = []
    for sub in SUBMODULES:
        names = ix.all_of(os.path.join(sub, "__init__.py"))
        for n in names:
            r = ix.func(n, sub)
            if r is None:
                continue           # FACE_DTYPE and other non-functions
            out.append((sub + "." + n, r[0], r[1], None))
            for (outer, inner), (rel, node) in sorted(ix.nested.items()):
                if outer == n:
                    # the function returned by a public factory (apply_transform -> apply)
                    if any(isinstance(st, ast.Return) and isinstance(st.value, ast.Name) and st.value.id == inner for st in r[1].body):
                        out.append((sub + "." + n + "." + inner, rel, node, None))
    for cls in CLASSES:
        for (c, m), (rel, node, kind) in sorted(ix.methods.items(), key=lambda kv: kv[1][1].lineno):
            if c != cls or kind == "property":
                continue
            if m.startswith("_") and m not in SPECIAL_METHODS:
                continue
            out.append((cls + "." + m, rel, node, cls))
    return out


def generate(repo):
    ix = Index(repo)
    lines = ["-- generated by harness/translate/c20.py from polliwog's source; do not edit",
             "import PW.Model.Shape", "", "namespace PW.Gen", "open PW.Shape", ""]
    table = []
    notes = {}
    try:
        callables = public_callables(ix)
    except Exception as e:  # fail closed: no signatures at all
        callables = []
        notes["_error"] = repr(e)
    for name, rel, node, cls in callables:
        try:
            w = Walker(ix, rel, node, cls, 0, (("fn:" + node.name) if cls is None else (cls + "." + node.name),))
            steps = simplify(w.run())
            note = "; ".join(w.notes)
        except Exception as e:  # fail closed for this callable
            steps = [{"guard": ("always",), "act": ("untranslated", repr(e))}]
            note = "translator error: %r" % (e,)
        pos, kwonly, _, _ = params_of(node)
        ident = mangle(name)
        lines.append("/-- %s  —  polliwog/%s:%d  `%s(%s)`%s -/" % (name, rel, node.lineno, node.name, ", ".join(pos + kwonly),
                                                                  ("  [" + note + "]") if note else ""))
        if steps:
            lines.append("def %s : Sig := [" % ident)
            body = []
            for st in steps:
                c = ""
                if st["act"][0] == "untranslated":
                    c = "  -- " + st["act"][1].replace("\n", " ")[:100]
                elif st.get("via"):
                    c = "  -- via " + st["via"]
                body.append((r_step(st), c))
            for i, (b, c) in enumerate(body):
                lines.append("  %s%s%s" % (b, "," if i + 1 < len(body) else "", c))
            lines.append("]")
        else:
            lines.append("def %s : Sig := []" % ident)
        lines.append("")
        table.append((name, ident))
        notes[name] = {"steps": len(steps), "untranslated": sum(1 for s in steps if s["act"][0] == "untranslated"), "note": note}
    lines.append("/-- every public callable with its validation prefix (looked up by the model driver) -/")
    lines.append("def allSigs : List (String × Sig) := [")
    for i, (name, ident) in enumerate(table):
        lines.append("  (%s, %s)%s" % (lean_str(name), ident, "," if i + 1 < len(table) else ""))
    lines.append("]")
    lines.append("")
    lines.append("end PW.Gen")
    return [("Signatures.lean", "\n".join(lines) + "\n", notes)]
