"""Translator fragment for C10: extracts from polliwog/transform/_rodrigues.py (python `ast`, never imported)
the literal pieces the Lean model relies on and writes lean/PW/Gen/Rodrigues.lean:

  thresholds (eps expression, 1e-5) and the comparison operators of the three branch tests,
  the three sign tests of the half-turn branch (which matrix entries are summed, compared how with 0),
  the `_r_x_` skew pattern, the `rrt` pattern, the structure of `r_out = c*I + c1*rrt + s*_r_x_`,
  the Jacobian index patterns (small-angle jac, drrt, d_r_x_, dvardR, dvar2dvar, domegadvar2, snap-branch jac).
Everything else (scalar coefficient formulas, the rest of the half-turn fix-ups, dispatch) is hand-modelled and tied by correspondence.

PW/Props/C10.lean proves each generated object equal to what the model uses.  Fails closed: an anchor that is not
recognised yields an empty / zero object, which makes that theorem false.
"""
import ast
import os
from fractions import Fraction

SRC = os.path.join("polliwog", "transform", "_rodrigues.py")


def lean_str(s):
    return '"' + s.replace("\\", "\\\\").replace('"', '\\"') + '"'


def lean_list(xs):
    return "[" + ", ".join(xs) + "]"


def find_func(tree, name):
    for n in tree.body:
        if isinstance(n, ast.FunctionDef) and n.name == name:
            return n
    return None


def assigns(node):
    """all Assign nodes below node, in source order"""
    out = [n for n in ast.walk(node) if isinstance(n, ast.Assign)]
    out.sort(key=lambda n: (n.lineno, n.col_offset))
    return out


def assign_to(node, name):
    for a in assigns(node):
        if len(a.targets) == 1 and isinstance(a.targets[0], ast.Name) and a.targets[0].id == name:
            return a
    return None


def const_int(n):
    """integer value of a (possibly negated) numeric constant"""
    if isinstance(n, ast.UnaryOp) and isinstance(n.op, ast.USub):
        v = const_int(n.operand)
        return None if v is None else -v
    if isinstance(n, ast.Constant) and isinstance(n.value, (int, float)) and float(n.value) == int(n.value):
        return int(n.value)
    return None


def sub_index(n, base):
    """r[i] -> i"""
    if isinstance(n, ast.Subscript) and isinstance(n.value, ast.Name) and n.value.id == base:
        return const_int(n.slice)
    return None


def array_rows(call):
    """np.array([[..],[..]]) -> list of lists of element nodes"""
    if not (isinstance(call, ast.Call) and isinstance(call.func, ast.Attribute) and call.func.attr == "array" and call.args):
        return None
    outer = call.args[0]
    if not isinstance(outer, ast.List):
        return None
    rows = []
    for r in outer.elts:
        if not isinstance(r, ast.List):
            return None
        rows.append(list(r.elts))
    return rows


def signed_entry(n, base):
    if const_int(n) == 0:
        return (0, 0)
    if isinstance(n, ast.UnaryOp) and isinstance(n.op, ast.USub):
        i = sub_index(n.operand, base)
        return None if i is None else (-1, i)
    i = sub_index(n, base)
    return None if i is None else (1, i)


def sum_entry(n, base):
    if const_int(n) == 0:
        return []
    i = sub_index(n, base)
    if i is not None:
        return [i]
    if isinstance(n, ast.BinOp) and isinstance(n.op, ast.Add):
        a, b = sum_entry(n.left, base), sum_entry(n.right, base)
        if a is None or b is None:
            return None
        return a + b
    return None


def add_chain(n):
    if isinstance(n, ast.BinOp) and isinstance(n.op, ast.Add):
        return add_chain(n.left) + add_chain(n.right)
    return [n]


def index_assignments(body, arr):
    """`arr[i, j] = arr[k, l] = v` statements directly in body -> [(i, j, v)]"""
    out = []
    for st in body:
        if isinstance(st, ast.If):
            continue
        if isinstance(st, ast.Assign):
            v = st.value
            for t in st.targets:
                if isinstance(t, ast.Subscript) and isinstance(t.value, ast.Name) and t.value.id == arr \
                        and isinstance(t.slice, ast.Tuple) and len(t.slice.elts) == 2:
                    i, j = const_int(t.slice.elts[0]), const_int(t.slice.elts[1])
                    out.append((i, j, v))
    return out


def first_if(body, pred):
    for st in body:
        if isinstance(st, ast.If) and pred(st.test):
            return st
    return None


def is_cmp(test, left, right_name=None):
    return (isinstance(test, ast.Compare) and isinstance(test.left, ast.Name) and test.left.id == left
            and len(test.ops) == 1 and (right_name is None or (isinstance(test.comparators[0], ast.Name) and test.comparators[0].id == right_name)))


def unparse(n):
    return ast.unparse(n) if n is not None else ""


def entry_sum(n, base):
    """r[i, j] + r[k, l] + ... -> [(i, j), (k, l), ...]; None if n is anything else"""
    out = []
    for t in add_chain(n):
        if isinstance(t, ast.Subscript) and isinstance(t.value, ast.Name) and t.value.id == base \
                and isinstance(t.slice, ast.Tuple) and len(t.slice.elts) == 2:
            i, j = const_int(t.slice.elts[0]), const_int(t.slice.elts[1])
            if i is None or j is None or not (0 <= i < 3 and 0 <= j < 3):
                return None
            out.append((i, j))
        else:
            return None
    return out


def sign_tests(stmts, base):
    """all comparisons `<sum of base[i, j]> <op> 0` below the statements, in source order -> [([(i, j)...], op)]"""
    found = []
    for st in stmts:
        for n in ast.walk(st):
            if isinstance(n, ast.Compare) and len(n.ops) == 1 and const_int(n.comparators[0]) == 0:
                es = entry_sum(n.left, base)
                if es:
                    found.append(((n.lineno, n.col_offset), es, type(n.ops[0]).__name__))
    found.sort(key=lambda e: e[0])
    return [(es, op) for _, es, op in found]


def generate(repo_root):
    notes = []
    path = os.path.join(repo_root, SRC)
    try:
        src = open(path).read()
        tree = ast.parse(src)
    except Exception as e:  # fail closed
        src, tree = "", ast.parse("")
        notes.append("cannot parse %s: %s" % (SRC, e))
    fwd = find_func(tree, "rodrigues_vector_to_rotation_matrix")
    inv = find_func(tree, "rotation_matrix_to_rodrigues_vector")
    cv2 = find_func(tree, "cv2_rodrigues")
    empty = ast.parse("").body
    fwd_body = fwd.body if fwd else empty
    inv_body = inv.body if inv else empty
    cv2_body = cv2.body if cv2 else empty

    # ---- thresholds and branch operators --------------------------------------------------------
    eps_nd = (0, 1)
    a = assign_to(fwd, "eps") if fwd else None
    if a is not None and unparse(a.value) == "np.finfo(np.double).eps":
        eps_nd = (1, 2 ** 52)
    else:
        notes.append("eps anchor not recognised")
    ops = []
    if_theta = first_if(fwd_body, lambda t: is_cmp(t, "theta", "eps"))
    ops.append(type(if_theta.test.ops[0]).__name__ if if_theta else "?")
    if_s = first_if(inv_body, lambda t: is_cmp(t, "s"))
    thr_nd = (0, 1)
    if if_s is not None:
        ops.append(type(if_s.test.ops[0]).__name__)
        seg = ast.get_source_segment(src, if_s.test.comparators[0]) or ""
        try:
            from decimal import Decimal
            fr = Fraction(Decimal(seg))
            if float(fr) == ast.literal_eval(seg):
                thr_nd = (fr.numerator, fr.denominator)
        except Exception:
            notes.append("sin threshold literal not recognised: %r" % seg)
    else:
        ops.append("?")
        notes.append("`if s < ...` anchor not found")
    if_c = first_if(if_s.body, lambda t: is_cmp(t, "c")) if if_s else None
    c_rhs = const_int(if_c.test.comparators[0]) if if_c else None
    ops.append(type(if_c.test.ops[0]).__name__ if (if_c and c_rhs == 0) else "?")

    # ---- the sign tests of the half-turn branch (else-branch of `if c > 0` inside `if s < ...`) -----------
    sign_t = sign_tests(if_c.orelse, "r") if if_c is not None else []
    if len(sign_t) != 3:
        notes.append("half-turn sign tests not recognised (%d found)" % len(sign_t))
        sign_t = []

    # ---- forward: patterns ------------------------------------------------------------------------
    else_body = if_theta.orelse if if_theta else empty
    holder = ast.Module(body=list(else_body), type_ignores=[])
    skew = []
    a = assign_to(holder, "_r_x_")
    rows = array_rows(a.value) if a else None
    if rows and len(rows) == 3 and all(len(r) == 3 for r in rows):
        ents = [signed_entry(e, "r") for r in rows for e in r]
        if all(e is not None for e in ents):
            skew = ents
    if not skew:
        notes.append("_r_x_ anchor not recognised")
    rrt = []
    a = assign_to(holder, "rrt")
    if a is not None and isinstance(a.value, ast.Call) and a.value.args and isinstance(a.value.args[0], ast.List):
        ok = True
        for e in a.value.args[0].elts:
            if isinstance(e, ast.BinOp) and isinstance(e.op, ast.Mult) and isinstance(e.left, ast.Name) and e.left.id == "r" \
                    and sub_index(e.right, "r") is not None:
                i = sub_index(e.right, "r")
                rrt.extend([(j, i) for j in range(3)])
            else:
                ok = False
        if not ok or len(rrt) != 9:
            rrt = []
    if not rrt:
        notes.append("rrt anchor not recognised")
    terms = []
    a = assign_to(holder, "r_out")
    if a is not None:
        for t in add_chain(a.value):
            if isinstance(t, ast.BinOp) and isinstance(t.op, ast.Mult) and isinstance(t.left, ast.Name) and isinstance(t.right, ast.Name):
                x, y = t.left.id, t.right.id
                if x in ("I", "rrt", "_r_x_"):   # matrix * scalar: same term
                    x, y = y, x
                terms.append((x, y))
            else:
                terms = []
                break
        terms.sort()   # the order of the three summands is immaterial
    if not terms:
        notes.append("r_out anchor not recognised")
    a = assign_to(holder, "c1")
    c1def = unparse(a.value) if a else ""
    if a is not None and isinstance(a.value, ast.BinOp) and isinstance(a.value.op, ast.Sub) and const_int(a.value.left) == 1 \
            and isinstance(a.value.right, ast.Name) and a.value.right.id == "c":
        c1def = "1 - c"
    drx = []
    a = assign_to(holder, "d_r_x_")
    rows = array_rows(a.value) if a else None
    if rows and all(const_int(e) is not None for r in rows for e in r):
        drx = [[const_int(e) for e in r] for r in rows]
    drrt = []
    a = assign_to(holder, "drrt")
    rows = array_rows(a.value) if a else None
    if rows:
        d = [[sum_entry(e, "r") for e in r] for r in rows]
        if all(e is not None for r in d for e in r):
            drrt = d
    small_fwd = []
    if if_theta is not None:
        inner = first_if(if_theta.body, lambda t: isinstance(t, ast.Name) and t.id == "calculate_jacobian")
        if inner is not None:
            for i, j, v in index_assignments(inner.body, "jac"):
                small_fwd.append((i, j, const_int(v)))
    if any(x is None for e in small_fwd for x in e):
        small_fwd = []

    # ---- inverse -------------------------------------------------------------------------------------
    inv_holder = ast.Module(body=list(if_s.orelse) if if_s else [], type_ignores=[])
    dvardr_int, dvardr_sym = [], []
    a = assign_to(inv_holder, "dvardR")
    rows = array_rows(a.value) if a else None
    if rows and len(rows) == 5:
        if all(const_int(e) is not None for r in rows[:3] for e in r):
            dvardr_int = [[const_int(e) for e in r] for r in rows[:3]]
        dvardr_sym = [[unparse(e) for e in r] for r in rows[3:]]
    sym_tables = {}
    for nm in ("dvar2dvar", "domegadvar2"):
        a = assign_to(inv_holder, nm)
        rows = array_rows(a.value) if a else None
        sym_tables[nm] = [[unparse(e) for e in r] for r in rows] if rows else []
    small_inv = []
    if if_s is not None:
        inner = first_if(if_s.body, lambda t: isinstance(t, ast.Name) and t.id == "calculate_jacobian")
        if inner is not None:
            guard = first_if(inner.body, lambda t: is_cmp(t, "c"))
            if guard is not None and unparse(guard.test) == "c > 0":
                for i, j, v in index_assignments(guard.body, "jac"):
                    val = None
                    try:
                        val = float(ast.literal_eval(v))
                    except Exception:
                        pass
                    sgn = 1 if val == 0.5 else (-1 if val == -0.5 else None)
                    small_inv.append((i, j, sgn))
    if any(x is None for e in small_inv for x in e):
        small_inv = []

    def pairs_int_nat(xs):
        return lean_list("(%d, %d)" % (a, b) for a, b in xs)

    def triples(xs):
        return lean_list("(%d, %d, %d)" % e for e in xs)

    def str_pairs(xs):
        return lean_list("(%s, %s)" % (lean_str(a), lean_str(b)) for a, b in xs)

    def str_table(t):
        return lean_list(lean_list(lean_str(e) for e in r) for r in t)

    def int_table(t):
        return lean_list(lean_list(str(e) for e in r) for r in t)

    L = []
    L.append("/- GENERATED by harness/translate/c10.py from %s — do not edit.  Mathlib-free. -/" % SRC)
    L.append("namespace PW.Gen")
    L.append("")
    L.append("def rodEpsND : Nat × Nat := (%d, %d)" % eps_nd)
    L.append("def rodSinThreshND : Nat × Nat := (%d, %d)" % thr_nd)
    L.append("def rodBranchOps : List String := %s" % lean_list(lean_str(o) for o in ops))
    L.append("def rodSignTests : List (List (Nat × Nat) × String) := %s" % lean_list(
        "(%s, %s)" % (lean_list("(%d, %d)" % e for e in es), lean_str(op)) for es, op in sign_t))
    L.append("def rodSkewPattern : List (Int × Nat) := %s" % pairs_int_nat(skew))
    L.append("def rodRrtPattern : List (Nat × Nat) := %s" % pairs_int_nat(rrt))
    L.append("def rodROutTerms : List (String × String) := %s" % str_pairs(terms))
    L.append("def rodC1Def : String := %s" % lean_str(c1def))
    L.append("def rodDrxTable : List (List Int) := %s" % int_table(drx))
    L.append("def rodDrrtPattern : List (List (List Nat)) := %s" % lean_list(lean_list(lean_list(str(i) for i in e) for e in r) for r in drrt))
    L.append("def rodSmallJacFwdTable : List (Nat × Nat × Int) := %s" % triples(small_fwd))
    L.append("def rodDvardRInt : List (List Int) := %s" % int_table(dvardr_int))
    L.append("def rodDvardRSym : List (List String) := %s" % str_table(dvardr_sym))
    L.append("def rodDvar2dvar : List (List String) := %s" % str_table(sym_tables["dvar2dvar"]))
    L.append("def rodDomegadvar2 : List (List String) := %s" % str_table(sym_tables["domegadvar2"]))
    L.append("def rodSmallJacInvTable : List (Nat × Nat × Int) := %s" % triples(small_inv))
    L.append("")
    L.append("end PW.Gen")
    return [("Rodrigues.lean", "\n".join(L) + "\n", "; ".join(notes) or "ok")]
