"""Translator fragment for the mesh slicer (C01, C02): literal constants, index-offset tables and case predicates of
polliwog/plane/_trimesh_intersections.py and polliwog/tri/quad_faces.py -> lean/PW/Gen/Slicer.lean.
Fails closed: an anchor that is not found yields an empty table / 0 constant, which falsifies the tying theorems."""
import ast
import os
from fractions import Fraction


def lean_rat(fr):
    return "(%d : Rat) / %d" % (fr.numerator, fr.denominator)


def const_fraction(node):
    if isinstance(node, ast.Constant) and isinstance(node.value, (int, float)):
        return Fraction(repr(node.value)) if isinstance(node.value, float) else Fraction(node.value)
    if isinstance(node, ast.UnaryOp) and isinstance(node.op, ast.USub):
        v = const_fraction(node.operand)
        return None if v is None else -v
    return None


def int_list(node):
    if isinstance(node, (ast.List, ast.Tuple)):
        out = []
        for e in node.elts:
            if isinstance(e, ast.Constant) and isinstance(e.value, int):
                out.append(e.value)
            else:
                return None
        return out
    return None


def src(node):
    return ast.unparse(node)


def canon(node):
    """canonical text of a boolean mask expression: np.logical_and / np.logical_or are flattened and their operands
    sorted (so swapping operands or re-associating is not a change); everything else is the unparsed source"""
    if isinstance(node, ast.Call) and src(node.func) in ("np.logical_and", "np.logical_or") and len(node.args) == 2:
        op = "and" if src(node.func).endswith("and") else "or"
        parts = []

        def flat(n):
            if isinstance(n, ast.Call) and src(n.func) == src(node.func) and len(n.args) == 2:
                flat(n.args[0])
                flat(n.args[1])
            else:
                parts.append(canon(n))
        flat(node)
        return op + "(" + "; ".join(sorted(parts)) + ")"
    if isinstance(node, ast.Subscript):
        return canon(node.value) + "[" + src(node.slice) + "]"
    if isinstance(node, ast.Call) and isinstance(node.func, ast.Attribute) and not node.args and not node.keywords:
        return canon(node.func.value) + "." + node.func.attr + "()"
    return src(node)


def generate(repo):
    notes = []
    path = os.path.join(repo, "polliwog", "plane", "_trimesh_intersections.py")
    tree = ast.parse(open(path).read())
    tol = None
    guard = None
    sign_assign = {}      # comparison source -> assigned value
    offs = {}             # target variable -> the `np.array([a, b])` offsets added before `% 3`
    preds = {}            # name -> source of predicate
    clip = None
    for node in ast.walk(tree):
        if isinstance(node, ast.Assign) and len(node.targets) == 1:
            t = node.targets[0]
            ts = src(t)
            if ts == "self.merge":
                tol = const_fraction(node.value)
            if isinstance(t, ast.Subscript) and src(t.value) == "denom":
                guard = const_fraction(node.value)
                notes.append("denominator guard condition: " + src(t.slice))
            if isinstance(t, ast.Subscript) and src(t.value) == "signs" and isinstance(node.value, (ast.Constant, ast.UnaryOp)):
                v = const_fraction(node.value)
                if v is not None:
                    sign_assign[src(t.slice)] = int(v)
            if ts in ("quad_int_verts", "new_quad_vertices", "new_tri_vertices"):
                for sub in ast.walk(node.value):
                    if isinstance(sub, ast.BinOp) and isinstance(sub.op, ast.Mod) and const_fraction(sub.right) == 3:
                        for s2 in ast.walk(sub.left):
                            if isinstance(s2, ast.Call) and src(s2.func) == "np.array" and s2.args:
                                il = int_list(s2.args[0])
                                if il is not None:
                                    offs[ts] = il
            if ts in ("onedge", "inside", "onedge_quad", "onedge_tri"):
                preds[ts] = canon(node.value)
            if ts == "dist":
                clip = src(node.value)
    qpath = os.path.join(repo, "polliwog", "tri", "quad_faces.py")
    qtree = ast.parse(open(qpath).read())
    qcols = {}
    for node in ast.walk(qtree):
        if isinstance(node, ast.Assign) and len(node.targets) == 1 and isinstance(node.targets[0], ast.Subscript):
            t = node.targets[0]
            if src(t.value) == "tris" and isinstance(node.value, ast.Subscript) and src(node.value.value) == "quads":
                sl = node.value.slice
                cols = None
                if isinstance(sl, ast.Tuple) and len(sl.elts) == 2:
                    cols = int_list(sl.elts[1])
                qcols[src(t.slice)] = cols

    def L(xs):
        return "[" + ", ".join(str(x) for x in (xs or [])) + "]"

    def S(s):
        return '"' + (s or "").replace("\\", "\\\\").replace('"', '\\"') + '"'

    lines = [
        "/- GENERATED by harness/translate/c01.py from polliwog/plane/_trimesh_intersections.py and",
        "   polliwog/tri/quad_faces.py — do not edit; regenerated on every check run. -/",
        "namespace PW.Gen.Slicer",
        "",
        "/-- `ToleranceMesh.merge` (exact decimal value of the source literal) -/",
        "def tolMerge : Rat := " + lean_rat(tol if tol is not None else Fraction(0)),
        "/-- value assigned to zero denominators -/",
        "def denomGuard : Rat := " + lean_rat(guard if guard is not None else Fraction(0)),
        "/-- value written to `signs` under the condition `dots < -tol.merge` (behind) / `dots > tol.merge` (in front) -/",
        "def signBehind : Int := %d" % sign_assign.get("dots < -tol.merge", 0),
        "def signFront : Int := %d" % sign_assign.get("dots > tol.merge", 0),
        "/-- `(col + [a, b]) % 3` offsets: the two kept corners of a quad face, its two new points, a cut triangle's two new points -/",
        "def quadVertOffsets : List Nat := " + L(offs.get("quad_int_verts")),
        "def quadPointOffsets : List Nat := " + L(offs.get("new_quad_vertices")),
        "def triPointOffsets : List Nat := " + L(offs.get("new_tri_vertices")),
        "/-- `quads_to_tris`: columns of the even rows and of the odd rows -/",
        "def quadsToTrisEven : List Nat := " + L(qcols.get("(0::2, :)", qcols.get("0::2, :"))),
        "def quadsToTrisOdd : List Nat := " + L(qcols.get("(1::2, :)", qcols.get("1::2, :"))),
        "/-- canonical text of the case predicates (and/or flattened, operands sorted) and the edge-parameter expression -/",
        "def onedgeSrc : String := " + S(preds.get("onedge")),
        "def insideSrc : String := " + S(preds.get("inside")),
        "def onedgeQuadSrc : String := " + S(preds.get("onedge_quad")),
        "def onedgeTriSrc : String := " + S(preds.get("onedge_tri")),
        "def distSrc : String := " + S(clip),
        "",
        "end PW.Gen.Slicer",
        "",
    ]
    return [("Slicer.lean", "\n".join(lines), notes)]
