"""Translator fragment for C14 (plane-line / plane-segment intersection routines): the guards, bounds tests, NaN rules
and the weighted-average formula of
    polliwog/plane/_plane_object.py          Plane._line_xsection, _line_segment_xsection, line_xsections,
                                             line_segment_xsections (and the public wrappers)
    polliwog/plane/_plane_intersect.py       intersect_segment_with_plane
    polliwog/polyline/_polyline_object.py    Polyline.intersect_plane
-> lean/PW/Gen/Xsect.lean (namespace PW.Gen.Xsect), tied to PW/Model/PlaneXsect.lean by the `gen_*` theorems at the end
of PW/Props/C14.lean.

Read from the source text through the symbolic reader of `_symsrc.py` (local names replaced by what they were assigned,
anchors found by structure, commutative operands / mirrored comparisons normalised).  Labels used in the strings:
  DENOM, PT (single routines); DENOMS, MASKED, PTS, VALID (stacked routines); T (intersect_segment_with_plane);
  SD, WHICH, ED, W (intersect_plane).
Fails closed: an anchor that is not recognised is emitted as a value that falsifies its tying theorem.
"""
from ._symsrc import (SRCOPS_FILE, Out, Sym, affine, affine1, as_int, canon, cmp_parts, find, find_def, findall, func_shape,
                      match, parse_expr, read_tree, safe, text)
from .c06 import _intersect


def _bounds_groups(ms, label):
    """the two `any(x and y)` groups -> {"above": [cmp of `a ? PT`, cmp of `b ? PT`], "below": [`PT ? a`, `PT ? b`]};
    `label(node)` names an operand "PT" / "a" / "b" """
    out = {}
    if len(ms) != 2:
        return None
    for m in ms:
        sides = {}
        for k in ("_X", "_Y"):
            op, l, r = cmp_parts(m[k])
            lt, rt = label(l), label(r)
            if rt == "PT" and lt in ("a", "b"):
                sides[("above", lt)] = op
            elif lt == "PT" and rt in ("a", "b"):
                sides[("below", rt)] = op
            else:
                return None
        kinds = {k for k, _ in sides}
        if len(kinds) != 1 or {v for _, v in sides} != {"a", "b"}:
            return None
        kind = kinds.pop()
        out[kind] = [sides[(kind, "a")], sides[(kind, "b")]]
    return out if set(out) == {"above", "below"} else None


def _ray(call):
    """`f(a, c_b * b + c_a * a)` -> (first argument text, c_a, c_b, constant)"""
    if len(call.args) != 2 or call.keywords:
        return None
    const, terms = affine(call.args[1])
    co = {text(n): (int(k) if k.denominator == 1 else None) for k, n in terms}
    if set(co) != {"a", "b"} or const.denominator != 1:
        return None
    return text(call.args[0]), co["a"], co["b"], int(const)


def _single(o, tree):
    s = safe(lambda: Sym(find_def(tree, "Plane._line_xsection")))
    ev = safe(lambda: [(c, e) for c, k, e in s.events if k == "return"]) or []
    par = [(c, e) for c, e in ev if len(c) == 1 and c[0][1] is True]
    reg = [(c, e) for c, e in ev if len(c) == 1 and c[0][1] is False]
    ok = len(ev) == 2 and len(par) == 1 and len(reg) == 1
    g = safe(lambda: cmp_parts(par[0][0][0][0]), (None, None, None)) if ok else (None, None, None)
    abbr = [("DENOM", g[1])]
    o.cmp("parallelCmp", g[0], "`Plane._line_xsection`: `None` when `DENOM op n`")
    o.int("parallelRhs", safe(lambda: as_int(g[2])))
    o.str("denomSrc", safe(lambda: text(g[1])), "DENOM")
    o.str("parallelResult", safe(lambda: text(par[0][1])) if ok else None)
    o.str("lineXsectionSrc", safe(lambda: text(reg[0][1], abbr)) if ok else None, "otherwise")
    o.blank()

    s = safe(lambda: Sym(find_def(tree, "Plane._line_segment_xsection")))
    ev = safe(lambda: [(c, e) for c, k, e in s.events if k == "return"]) or []
    rej = [(c, e) for c, e in ev if len(c) == 2 and all(p is True for _, p in c)]
    acc = [(c, e) for c, e in ev if len(c) == 0]
    ok = len(ev) == 2 and len(rej) == 1 and len(acc) == 1
    pt = acc[0][1] if ok else None
    abbr = [("PT", pt)]
    cond = rej[0][0][1][0] if ok else None

    g = safe(lambda: _bounds_groups(findall("any(_X and _Y)", cond), lambda n: text(n, abbr))) or {}
    o.str("segmentLineSrc", safe(lambda: text(pt)), "`Plane._line_segment_xsection`: PT")
    o.str("segmentNoneCheckSrc", safe(lambda: text(rej[0][0][0][0], abbr)) if ok else None, "`None` when … and the bounds test holds")
    o.str("boundsSrc", safe(lambda: text(cond, abbr)), "the bounds test")
    o.cmp("aboveACmp", (g.get("above") or [None, None])[0], "… `any((a op PT) and (b op PT))` …")
    o.cmp("aboveBCmp", (g.get("above") or [None, None])[1])
    o.cmp("belowACmp", (g.get("below") or [None, None])[0], "… `or any((PT op a) and (PT op b))`")
    o.cmp("belowBCmp", (g.get("below") or [None, None])[1])
    o.str("boundsRejectResult", safe(lambda: text(rej[0][1])) if ok else None)
    ry = safe(lambda: _ray(pt), (None, None, None, None))
    o.str("segmentStart", ry[0], "PT = `self._line_xsection(<start>, ca * a + cb * b + d)`")
    o.int("segmentRayACoef", ry[1])
    o.int("segmentRayBCoef", ry[2])
    o.int("segmentRayConst", ry[3])
    for ident, q in (("lineWrapperSrc", "Plane.line_xsection"), ("segmentWrapperSrc", "Plane.line_segment_xsection")):
        o.str(ident, safe(lambda: (lambda rs: text(rs[0]) if len(rs) == 1 else None)(Sym(find_def(tree, q)).returns())),
              "`%s`" % q)


def _stacked(o, tree):
    rs = safe(lambda: Sym(find_def(tree, "Plane.line_xsections")).returns()) or []
    r = rs[0] if len(rs) == 1 else None
    m = safe(lambda: match("(_P, ~_Z)", r)) or {}
    z = safe(lambda: cmp_parts(m["_Z"]), (None, None, None))
    st = safe(lambda: find("_set(_D, _0[_M], _V)", m["_P"])) or {}
    abbr = [("MASKED", st.get("_")), ("DENOMS", z[1])]
    o.cmp("stackParallelCmp", z[0], "`Plane.line_xsections`: flag False and NaN row where `DENOMS op n`")
    o.int("stackParallelRhs", safe(lambda: as_int(z[2])))
    o.str("stackDenomSrc", safe(lambda: text(z[1])), "DENOMS")
    o.bool("stackMaskOk", safe(lambda: text(st["_D"]) == text(z[1]) and text(st["_M"]) == text(m["_Z"])
                               and text(st["_V"]) == "np.nan", False),
           "MASKED = DENOMS with `np.nan` stored where the same test holds; the flag is the negation of that test")
    o.str("stackPointSrc", safe(lambda: text(m["_P"], abbr)), "the rows")
    rs = safe(lambda: Sym(find_def(tree, "Plane.line_segment_xsections")).returns()) or []
    r = rs[0] if len(rs) == 1 else None
    abbr = [("PTS", canon(parse_expr("_item(self.line_xsections(a, b - a), 0, 2)"))),
            ("VALID", canon(parse_expr("_item(self.line_xsections(a, b - a), 1, 2)")))]
    o.str("segmentStackSrc", safe(lambda: text(r, abbr)), "`Plane.line_segment_xsections`: (rows, flags)")
    lab = {"PTS[VALID]": "PT", "a[VALID]": "a", "b[VALID]": "b"}
    g = safe(lambda: _bounds_groups([m for m in findall("np.any(_X and _Y, axis=1)", r)][:2] if len({text(m["_"]) for m in findall("np.any(_X and _Y, axis=1)", r)}) == 2 else [],
                                    lambda n: lab.get(text(n, abbr)))) or {}
    o.cmp("stackAboveACmp", (g.get("above") or [None, None])[0], "row-wise bounds test: `np.any((a op PT) & (b op PT), axis=1)` …")
    o.cmp("stackAboveBCmp", (g.get("above") or [None, None])[1])
    o.cmp("stackBelowACmp", (g.get("below") or [None, None])[0], "… `| np.any((PT op a) & (PT op b), axis=1)`")
    o.cmp("stackBelowBCmp", (g.get("below") or [None, None])[1])
    call = safe(lambda: find("self.line_xsections(_A, _B)", r)["_"])
    ry = safe(lambda: _ray(call), (None, None, None, None))
    o.str("stackSegmentStart", ry[0], "PTS, VALID = `self.line_xsections(<start>, ca * a + cb * b + d)`")
    o.int("stackSegmentRayACoef", ry[1])
    o.int("stackSegmentRayBCoef", ry[2])
    o.int("stackSegmentRayConst", ry[3])


def _intersect_plane(o, tree):
    s = safe(lambda: Sym(find_def(tree, "Polyline.intersect_plane")))
    ev = safe(lambda: [(c, e) for c, k, e in s.events if k == "return"]) or []
    both = [e for c, e in ev if len(c) == 1 and c[0][1] is True and text(c[0][0]) == "ret_edge_indices"]
    only = [e for c, e in ev if len(c) == 1 and c[0][1] is False and text(c[0][0]) == "ret_edge_indices"]
    ok = len(ev) == 2 and len(both) == 1 and len(only) == 1
    m = safe(lambda: match("(_PTS, _W.nonzero()[0])", both[0])) or {} if ok else {}
    which = m.get("_W")
    sel = safe(lambda: cmp_parts(which), (None, None, None))
    sd = safe(lambda: find("np.sign(_SD)", sel[1])["_SD"])
    mp = safe(lambda: match("(_WT * self.segments[_W2]).sum(axis=1)", m["_PTS"])) or {}
    wt = safe(lambda: affine1(mp["_WT"]), (None, None, None))
    t = safe(lambda: match("_T[:, :, np.newaxis]", wt[1])["_T"])
    ed = safe(lambda: match("_E / _E.sum(axis=1)[:, np.newaxis]", t)["_E"])
    abbr = [("T", t), ("ED", ed), ("WHICH", which), ("SD", sd)]
    o.str("signedDistancesSrc", safe(lambda: text(sd)), "`Polyline.intersect_plane`: SD")
    o.cmp("selectCmp", sel[0], "WHICH = `<lhs> op n`")
    o.str("selectLhs", safe(lambda: text(sel[1], abbr)))
    o.int("selectRhs", safe(lambda: as_int(sel[2])))
    o.str("endpointDistSrc", safe(lambda: text(ed, abbr[2:])), "ED")
    o.str("tSrc", safe(lambda: text(t, abbr[1:])), "T")
    o.int("weightCoef", wt[0], "weights `c * T[:, :, np.newaxis] + d`")
    o.int("weightConst", wt[2])
    o.bool("weightsOnSelected", safe(lambda: text(mp["_W2"]) == text(which), False), "applied to `self.segments[WHICH]`")
    o.str("pointsSrc", safe(lambda: text(m["_PTS"], abbr)), "the points")
    o.bool("samePoints", safe(lambda: text(only[0]) == text(m["_PTS"]), False) if ok else None,
           "the same points are returned with and without the edge indices")


def generate(repo):
    o = Out("Xsect", "harness/translate/c14.py from polliwog/plane/_plane_object.py, polliwog/plane/_plane_intersect.py "
            "and polliwog/polyline/_polyline_object.py (intersect_plane)")
    _, t1 = read_tree(repo, "polliwog", "plane", "_plane_object.py")
    _, t2 = read_tree(repo, "polliwog", "plane", "_plane_intersect.py")
    _, t3 = read_tree(repo, "polliwog", "polyline", "_polyline_object.py")
    for part, tree in ((_single, t1), (_stacked, t1), (_intersect, t2), (_intersect_plane, t3)):
        n = len(o.lines)
        try:
            part(o, tree)
        except Exception as e:  # noqa: BLE001  fail closed: drop the partial output; the tying theorems then do not compile
            del o.lines[n:]
            o.notes.append("%s: %r" % (part.__name__, e))
        o.blank()
    o.shapes("functionShapes",
             [func_shape(t1, "Plane." + q) for q in ("_line_xsection", "_line_segment_xsection", "line_xsection",
                                                      "line_segment_xsection", "line_xsections", "line_segment_xsections")] +
             [func_shape(t2, "intersect_segment_with_plane"), func_shape(t3, "Polyline.intersect_plane")],
             "for every function read above: (name, decorators, parameters with defaults, statements the symbolic reader "
             "does not interpret, other bindings of the name in its scope)")
    return [SRCOPS_FILE, o.result()]
