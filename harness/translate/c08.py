"""Translator fragment for C08 (arc-length queries and refinement): the comparison operators, index offsets, rounding
function, slices and formulas of
    polliwog/polyline/_polyline_object.py    point_along_path, subdivided_by_length, with_segments_bisected,
                                             segment_lengths, total_length
    polliwog/segment/_segment_functions.py   subdivide_segment, subdivide_segments, path_centroid
-> lean/PW/Gen/ArcLen.lean (namespace PW.Gen.ArcLen), tied to PW/Model/ArcLength.lean by the `gen_*` theorems at the end
of PW/Props/C08.lean.

Read from the source text through the symbolic reader of `_symsrc.py` (local names replaced by what they were assigned,
anchors found by structure, commutative operands / mirrored comparisons normalised).  Labels used in the strings:
  DESIRED, CUM, INDEX (point_along_path); NEEDED, ES, INSERTS, COUNTS (subdivided_by_length); SRC, DIFFS, DISTS, UNIT
  (subdivide_segments).
Fails closed: an anchor that is not recognised is emitted as a value that falsifies its tying theorem.
"""
import ast

from ._symsrc import (SRCOPS_FILE, Out, Sym, affine1, as_int, cmp_parts, exc_name, find, find_def, findall, func_shape,
                      match, read_tree, safe, text)


def _point_along_path(o, tree):
    s = safe(lambda: Sym(find_def(tree, "Polyline.point_along_path")))
    # validation
    rz = safe(lambda: s.raises()) or []
    cond = rz[0][0][-1][0] if len(rz) == 1 and rz[0][0] and rz[0][0][-1][1] is True else None
    tests = safe(lambda: sorted((cmp_parts(m["_T"]) for m in findall("np.any(_T)", cond)), key=lambda c: c[0] != "lt")) or []
    lo = tests[0] if len(tests) == 2 else (None, None, None)
    hi = tests[1] if len(tests) == 2 else (None, None, None)
    o.cmp("fracLowCmp", lo[0], "`point_along_path` refuses when any `fraction_of_total op n` (first test) …")
    o.int("fracLowRhs", safe(lambda: as_int(lo[2])))
    o.cmp("fracHighCmp", hi[0], "… or any `fraction_of_total op n` (second test)")
    o.int("fracHighRhs", safe(lambda: as_int(hi[2])))
    o.str("fracCondSrc", safe(lambda: text(cond)), "the whole condition")
    o.str("fracRaises", safe(lambda: exc_name(rz[0][1])))
    # the computation
    rs = safe(lambda: s.returns()) or []
    r = rs[0] if len(rs) == 1 else None
    m = safe(lambda: match("_set(_R, _0[_END], _LAST)", r)) or {}
    res = m.get("_R")
    am = safe(lambda: find("np.argmax(_M, axis=0)", res)) or {}
    search = safe(lambda: cmp_parts(am["_M"]), (None, None, None))
    desired = search[1]
    cum = safe(lambda: match("_C.reshape(-1, 1)", search[2])["_C"])
    idx = safe(lambda: find("self.v[_I]", res)["_I"])
    ia = safe(lambda: affine1(idx), (None, None, None))
    end = safe(lambda: cmp_parts(m["_END"]), (None, None, None))
    abbr = [("INDEX", idx), ("DESIRED", desired), ("CUM", cum)]
    o.str("desiredSrc", safe(lambda: text(desired)), "DESIRED")
    o.str("cumSrc", safe(lambda: text(cum)), "CUM")
    o.int("cumStart", safe(lambda: as_int(match("np.cumsum([_Z, *self.segment_lengths])", cum)["_Z"])), "first entry of CUM")
    o.cmp("searchCmp", search[0], "INDEX = `c * np.argmax(<lhs> op <rhs>, axis=0) + d`")
    o.str("searchLhs", safe(lambda: text(search[1], abbr)))
    o.str("searchRhs", safe(lambda: text(search[2], abbr)))
    o.int("indexCoef", ia[0])
    o.int("indexOffset", ia[2])
    o.bool("indexIsArgmax", safe(lambda: text(ia[1]) == text(am["_"]), False))
    o.str("resultSrc", safe(lambda: text(res, abbr)), "the point on the segment found")
    o.cmp("endCmp", end[0], "rows with `<lhs> op <rhs>` are overwritten with the end of the path")
    o.str("endLhs", safe(lambda: text(end[1], abbr)))
    o.str("endRhs", safe(lambda: text(end[2], abbr)))
    o.str("endValueSrc", safe(lambda: text(m["_LAST"])), "the end of the path")


def _subdivided_by_length(o, tree):
    s = safe(lambda: Sym(find_def(tree, "Polyline.subdivided_by_length")))
    ev = safe(lambda: [(c, e) for c, k, e in s.events if k == "return"]) or []
    plain = [e for c, e in ev if len(c) == 1 and c[0][1] is True and text(c[0][0]) == "not ret_indices"]
    full = [e for c, e in ev if len(c) == 1 and c[0][1] is False and text(c[0][0]) == "not ret_indices"]
    poly = plain[0] if len(plain) == 1 and len(ev) == 2 else None
    both = full[0] if len(full) == 1 and len(ev) == 2 else None
    m = safe(lambda: match("Polyline(v=np.concatenate(list(itertools.chain(*zip(np.vsplit(self.v, _CUTS), _INS)))), "
                           "is_closed=self.is_closed)", poly)) or {}
    cuts = safe(lambda: affine1(m["_CUTS"]), (None, None, None))
    es = cuts[1]
    mask = safe(lambda: match("_only(_MASK.nonzero())", es)["_MASK"])
    cmps = safe(lambda: [cmp_parts(v) for v in mask.values if cmp_parts(v)]) or []
    rule = cmps[0] if len(cmps) == 1 else (None, None, None)
    needed = rule[1]
    mn = safe(lambda: match("_F(_Q).astype(dtype=np.int64)", needed)) or {}
    comp = safe(lambda: [n for n in ast.walk(m["_INS"]) if isinstance(n, ast.ListComp)]) or []
    comp = comp[0] if len(comp) == 1 else None
    call = safe(lambda: match("subdivide_segment(_A, _B, int(_N), endpoint=_E)[_SL]", comp.elt)) or {}
    abbr = [("INSERTS", comp), ("ES", es), ("NEEDED", needed)]
    o.str("roundingFn", safe(lambda: text(mn["_F"])), "`subdivided_by_length`: NEEDED = `<fn>(<quotient>).astype(np.int64)`")
    o.str("quotientSrc", safe(lambda: text(mn["_Q"])))
    o.cmp("subdivideCmp", rule[0], "an edge is subdivided when selected and `NEEDED op n`")
    o.int("subdivideRhs", safe(lambda: as_int(rule[2])))
    o.str("maskSrc", safe(lambda: text(mask, abbr)), "ES = the indices where this mask holds")
    o.int("splitCoef", cuts[0], "the vertices are split at `c * ES + d`")
    o.int("splitOffset", cuts[2])
    o.str("insertCallSrc", safe(lambda: text(comp.elt, abbr)), "INSERTS: per edge of ES")
    o.str("insertLoopSrc", safe(lambda: text(comp.generators[0].iter, abbr)))
    o.bool("insertEndpoint", safe(lambda: call["_E"].value if isinstance(call["_E"].value, bool) else None), "`endpoint=`")
    o.nat("insertDropFirst", safe(lambda: as_int(call["_SL"].lower) if call["_SL"].upper is None and call["_SL"].step is None else None),
          "the slice `[k:]` applied to the subdivision")
    o.str("assemblySrc", safe(lambda: text(poly, abbr)), "the returned polyline")
    mi = safe(lambda: match("(_P, _IDX)", both)) or {}
    counts = safe(lambda: find("_X[:-1] if self.is_closed else _X", mi["_IDX"])["_X"])
    o.bool("samePolyline", safe(lambda: text(mi["_P"]) == text(poly), False))
    o.str("countsSrc", safe(lambda: text(counts, abbr)), "COUNTS: number of points inserted per edge")
    o.str("indicesSrc", safe(lambda: text(mi["_IDX"], [("COUNTS", counts)] + abbr)), "indices of the original vertices")
    mx = safe(lambda: match("np.arange(self.num_v) + np.sum(np.tril(np.broadcast_to(np.concatenate(["
                            "np.zeros(_Z, dtype=np.int64), _X[:_S] if self.is_closed else _X]), (self.num_v, self.num_v))), axis=1)",
                            mi["_IDX"])) or {}
    o.int("leadingZeros", safe(lambda: as_int(mx["_Z"])), "the offsets are the running sums of `[0] * z + (COUNTS[:s] if closed else COUNTS)`")
    o.int("closedDropStop", safe(lambda: as_int(mx["_S"])))


def _bisected(o, tree):
    s = safe(lambda: Sym(find_def(tree, "Polyline.with_segments_bisected")))
    rz = safe(lambda: s.raises()) or []
    c = safe(lambda: cmp_parts(rz[0][0][-1][0]), (None, None, None)) if len(rz) == 1 else (None, None, None)
    o.cmp("bisectDimCmp", c[0], "`with_segments_bisected` refuses when `<lhs> op n`")
    o.str("bisectDimLhs", safe(lambda: text(c[1])))
    o.int("bisectDimRhs", safe(lambda: as_int(c[2])))
    o.str("bisectRaises", safe(lambda: exc_name(rz[0][1])))
    o.str("bisectSrc", safe(lambda: text(s.returns()[0]) if len(s.returns()) == 1 else None), "what it returns")
    mb = safe(lambda: match("self.with_insertions(points=self.segments[segment_indices].mean(axis=_AX), "
                            "indices=self.e[segment_indices][:, _COL], ret_new_indices=ret_new_indices)", s.returns()[0])) or {}
    o.int("bisectEdgeColumn", safe(lambda: as_int(mb["_COL"])), "inserted before `self.e[idx][:, col]`")
    o.int("bisectMeanAxis", safe(lambda: as_int(mb["_AX"])), "midpoints: `.mean(axis=n)`")
    ml = safe(lambda: match("vg.euclidean_distance(self.segments[:, _A], self.segments[:, _B])",
                            Sym(find_def(tree, "Polyline.segment_lengths")).returns()[0])) or {}
    o.int("lengthFromColumn", safe(lambda: as_int(ml["_A"])), "`segment_lengths`: distance between these two columns of `self.segments`")
    o.int("lengthToColumn", safe(lambda: as_int(ml["_B"])))
    for ident, meth in (("segmentLengthsSrc", "segment_lengths"), ("totalLengthSrc", "total_length"),
                        ("polylineCentroidSrc", "path_centroid")):
        o.str(ident, safe(lambda: (lambda rs: text(rs[0]) if len(rs) == 1 else None)(Sym(find_def(tree, "Polyline." + meth)).returns())),
              "`Polyline.%s`" % meth)


def _segment_functions(o, tree):
    s = safe(lambda: Sym(find_def(tree, "subdivide_segment")))
    rz = safe(lambda: s.raises()) or []
    two = len(rz) == 2
    c = safe(lambda: cmp_parts(rz[1][0][-1][0]), (None, None, None)) if two else (None, None, None)
    o.str("numPointsTypeSrc", safe(lambda: text(rz[0][0][-1][0]) if two and rz[0][0][-1][1] is True else None),
          "`subdivide_segment`: first refusal")
    o.cmp("numPointsCmp", c[0] if two and rz[1][0][-1][1] is True else None, "second refusal: `num_points op n`")
    o.str("numPointsLhs", safe(lambda: text(c[1])))
    o.int("numPointsRhs", safe(lambda: as_int(c[2])))
    o.strs("numPointsRaises", safe(lambda: [exc_name(e) for _, e in rz]) if two else None)
    rs = safe(lambda: s.returns()) or []
    r = rs[0] if len(rs) == 1 else None
    ls = safe(lambda: find("np.linspace(_A, _B, num=num_points, endpoint=endpoint)", r)) or {}
    o.int("linspaceStart", safe(lambda: as_int(ls["_A"])), "`np.linspace(a, b, num=num_points, endpoint=endpoint)`")
    o.int("linspaceStop", safe(lambda: as_int(ls["_B"])))
    o.str("subdivideSegmentSrc", safe(lambda: text(r, [("LINSPACE", ls["_"])])), "what it returns")
    o.blank()

    rs = safe(lambda: Sym(find_def(tree, "subdivide_segments")).returns()) or []
    r = rs[0] if len(rs) == 1 else None
    m = safe(lambda: match("np.vstack((_FILLED, _LAST))", r)) or {}
    st = safe(lambda: find("_set(_U, _0[_Z], _V)", m["_FILLED"])) or {}
    z = safe(lambda: cmp_parts(st["_Z"]), (None, None, None))
    dists = z[1]
    diffs = safe(lambda: find("np.square(_D)", dists)["_D"])
    src = safe(lambda: find("v[_S]", diffs)["_S"])
    src = safe(lambda: affine1(src)[1] if affine1(src) and affine1(src)[2] != 0 else src)
    abbr = [("UNIT", st.get("_")), ("DISTS", dists), ("DIFFS", diffs), ("SRC", src)]
    o.cmp("zeroLenCmp", z[0], "`subdivide_segments`: `unitds[DISTS op n] = value`")
    o.int("zeroLenRhs", safe(lambda: as_int(z[2])))
    o.int("zeroLenValue", safe(lambda: as_int(st["_V"])))
    o.str("srcSrc", safe(lambda: text(src)), "SRC")
    o.str("diffsSrc", safe(lambda: text(diffs, abbr[3:])), "DIFFS")
    o.str("distsSrc", safe(lambda: text(dists, abbr[2:])), "DISTS")
    o.str("unitSrc", safe(lambda: text(st["_U"], abbr[1:])), "UNIT before the zero-length rule")
    o.str("filledSrc", safe(lambda: text(m["_FILLED"], abbr)), "all rows but the last")
    o.str("lastRowSrc", safe(lambda: text(m["_LAST"])), "the last row")
    o.blank()
    o.str("pathCentroidSrc", safe(lambda: (lambda rs: text(rs[0]) if len(rs) == 1 else None)(Sym(find_def(tree, "path_centroid")).returns())),
          "`path_centroid`")
    mc = safe(lambda: match("np.average(np.average(segments, axis=_A1), axis=_A0, weights=vg.euclidean_distance(segments[:, _A], segments[:, _B]))",
                            Sym(find_def(tree, "path_centroid")).returns()[0])) or {}
    o.int("centroidWeightFromColumn", safe(lambda: as_int(mc["_A"])), "weights: distance between these two columns of `segments`")
    o.int("centroidWeightToColumn", safe(lambda: as_int(mc["_B"])))
    o.ints("centroidAxes", safe(lambda: [as_int(mc["_A1"]), as_int(mc["_A0"])]), "inner / outer `axis=`")


def generate(repo):
    o = Out("ArcLen", "harness/translate/c08.py from polliwog/polyline/_polyline_object.py and "
            "polliwog/segment/_segment_functions.py")
    _, t1 = read_tree(repo, "polliwog", "polyline", "_polyline_object.py")
    _, t2 = read_tree(repo, "polliwog", "segment", "_segment_functions.py")
    for part, tree in ((_point_along_path, t1), (_subdivided_by_length, t1), (_bisected, t1), (_segment_functions, t2)):
        n = len(o.lines)
        try:
            part(o, tree)
        except Exception as e:  # noqa: BLE001  fail closed: drop the partial output; the tying theorems then do not compile
            del o.lines[n:]
            o.notes.append("%s: %r" % (part.__name__, e))
        o.blank()
    o.shapes("functionShapes",
             [func_shape(t1, "Polyline." + q) for q in ("point_along_path", "subdivided_by_length", "with_segments_bisected",
                                                         "segment_lengths", "total_length", "path_centroid")] +
             [func_shape(t2, q) for q in ("subdivide_segment", "subdivide_segments", "path_centroid")],
             "for every function read above: (name, decorators, parameters with defaults, statements the symbolic reader "
             "does not interpret, other bindings of the name in its scope)")
    return [SRCOPS_FILE, o.result()]
