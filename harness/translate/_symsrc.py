"""Shared by the translator fragments c05 / c06 / c08 / c09 / c14 / c18.

A small *symbolic reader* of straight-line NumPy code, working on the source text only (`ast`, never importing):

  * `Sym(fn)` runs a function body symbolically: every local name is replaced by the expression it was assigned
    (so a renamed or newly introduced temporary leaves nothing behind), `if` branches are merged into Python
    conditional expressions `a if c else b`, an in-place store `x[m] = v` becomes `_set(x, _0[m], v)`, tuple unpacking
    becomes `_only(e)` / `_item(e, i, n)`.  The result is the list of events
    `(path conditions, "return" | "raise", expression)` of the function, in source order.
  * `canon(e)` puts an expression in a normal form in which harmless rewrites coincide: operands of `+`, `*`, `and`,
    `or`, `==`, `!=` sorted (not for list / argument-list concatenation), `a > b` and `b < a` identified (a numeric literal always on the right), `np.greater(a, b)`
    and friends read as comparisons, `np.logical_and/or` as `and`/`or`, `1.0` as `1`, keyword arguments sorted,
    `columnize(...)` plumbing dropped; NumPy synonyms identified: `x & y` ≡ `np.logical_and(x, y)` on boolean
    expressions, `a @ b` ≡ `a.dot(b)` ≡ `np.dot(a, b)`, `np.vstack(L)` ≡ `np.concatenate(L[, axis=0])` (printed `_vcat(L)`),
    `lambda a, b: f(a, b)` ≡ `f`.
  * `match(pattern, e)` / `find(pattern, e)`: structural matching against a pattern written as Python source with
    metavariables `_A`, `_B`, … .
  * `cmp_parts`, `affine`, `as_int`: read an operator / the numeric literals out of a matched piece.
  * `text(e, abbr)`: normalised source string (via `ast.unparse`), with chosen sub-expressions abbreviated by labels
    that are assigned by *structure* (never by the source's variable names).

Nothing here raises on unexpected input in a way the fragments do not catch: the fragments wrap every anchor in
`safe(...)`, and a missing anchor is emitted as a value that falsifies the tying theorem (fail closed).
"""
import ast
import copy
import os
import re
from fractions import Fraction

# --------------------------------------------------------------------------------------------------------------
# reading


def read_tree(repo, *rel):
    """-> (source text, ast.Module); an unreadable / unparsable file gives an empty module (everything fails closed)"""
    try:
        src = open(os.path.join(repo, *rel)).read()
        return src, ast.parse(src)
    except Exception:  # noqa: BLE001
        return "", ast.parse("")


def find_def(tree, qualname):
    """`f` or `Class.method` -> FunctionDef or None (None also when the name is defined more than once)"""
    parts = qualname.split(".")
    body = tree.body
    for cls in parts[:-1]:
        found = [n for n in body if isinstance(n, ast.ClassDef) and n.name == cls]
        if len(found) != 1:
            return None
        body = found[0].body
    found = [n for n in body if isinstance(n, ast.FunctionDef) and n.name == parts[-1]]
    return found[0] if len(found) == 1 else None


def _binds(st, name):
    """does this statement (re)bind `name` in the scope it stands in?  (compound statements: anywhere inside, except
    in nested function / class bodies)"""
    if isinstance(st, (ast.FunctionDef, ast.AsyncFunctionDef, ast.ClassDef)):
        return st.name == name
    for x in ast.walk(st):
        if isinstance(x, ast.Name) and isinstance(x.ctx, (ast.Store, ast.Del)) and x.id == name:
            return True
        if isinstance(x, ast.alias) and (x.asname or x.name.split(".")[0]) == name:
            return True
        if isinstance(x, (ast.FunctionDef, ast.AsyncFunctionDef, ast.ClassDef)) and x.name == name:
            return True
    return False


def _attr_rebinds(tree, cls, name):
    """module-level `Cls.name = …` / `setattr(Cls, "name", …)`"""
    n = 0
    for st in tree.body:
        for x in ast.walk(st):
            if isinstance(x, ast.Attribute) and isinstance(x.ctx, (ast.Store, ast.Del)) and x.attr == name \
                    and isinstance(x.value, ast.Name) and x.value.id == cls:
                n += 1
            if isinstance(x, ast.Call) and isinstance(x.func, ast.Name) and x.func.id in ("setattr", "delattr") \
                    and len(x.args) >= 2 and isinstance(x.args[0], ast.Name) and x.args[0].id == cls \
                    and isinstance(x.args[1], ast.Constant) and x.args[1].value == name:
                n += 1
    return n


def func_shape(tree, qualname, env=None):
    """what the symbolic reader does not look at, for one function read by a fragment:
       (qualname, [decorators], parameter list with defaults, [statements not interpreted], number of other bindings of
       the name(s) in the enclosing scope(s)).  A function that is not found gives a shape no theorem expects."""
    fn = find_def(tree, qualname)
    if fn is None:
        return (qualname, [BAD_STR], BAD_STR, [BAD_STR], BAD_INT)
    try:
        decos = [_u(d) for d in fn.decorator_list]
        params = _u(fn.args)
        skipped = Sym(fn, env).skipped
        parts = qualname.split(".")
        rebinds = 0
        body = tree.body
        for i, part in enumerate(parts):
            rebinds += sum(1 for st in body if _binds(st, part)) - 1          # besides the def / class itself
            if i + 1 < len(parts):
                rebinds += _attr_rebinds(tree, part, parts[i + 1])
                body = [n for n in body if isinstance(n, ast.ClassDef) and n.name == part][0].body
        return (qualname, decos, params, skipped, rebinds)
    except Exception:  # noqa: BLE001
        return (qualname, [BAD_STR], BAD_STR, [BAD_STR], BAD_INT)


def safe(thunk, default=None):
    try:
        r = thunk()
        return default if r is None else r
    except Exception:  # noqa: BLE001  (fail closed: the caller emits a falsifying value)
        return default


# --------------------------------------------------------------------------------------------------------------
# symbolic execution of a function body


def _call(name, *args):
    return ast.Call(func=ast.Name(id=name, ctx=ast.Load()), args=list(args), keywords=[])


def _same(a, b):
    return ast.dump(a) == ast.dump(b)


class _Sub(ast.NodeTransformer):
    def __init__(self, env):
        self.env = env
        self.shadow = []

    def visit_Name(self, n):
        if isinstance(n.ctx, ast.Load) and n.id in self.env and not any(n.id in s for s in self.shadow):
            return copy.deepcopy(self.env[n.id])
        return n

    def _scoped(self, n, names):
        self.shadow.append(names)
        r = self.generic_visit(n)
        self.shadow.pop()
        return r

    def _comp(self, n):
        names = {x.id for g in n.generators for x in ast.walk(g.target) if isinstance(x, ast.Name)}
        return self._scoped(n, names)

    visit_ListComp = visit_SetComp = visit_GeneratorExp = visit_DictComp = _comp

    def visit_Lambda(self, n):
        a = n.args
        names = {x.arg for x in a.args + a.posonlyargs + a.kwonlyargs}
        for x in (a.vararg, a.kwarg):
            if x is not None:
                names.add(x.arg)
        return self._scoped(n, names)


def _subst(node, env):
    return _Sub(env).visit(copy.deepcopy(node))


def _root_name(t):
    while isinstance(t, (ast.Subscript, ast.Attribute)):
        t = t.value
    return t if isinstance(t, ast.Name) else None


class Sym:
    """events: [(conds, kind, expr)] with conds = [(test expr, polarity)], kind in {"return", "raise"}; all canonical.
       env: the bindings at the end of the straight-line part of the body."""

    def __init__(self, fn, env=None):
        """`env`: initial bindings (e.g. parameter name -> a fixed label, to read a local helper independently of how
        its parameters are called)"""
        self.events = []
        self.skipped = []        # statements the reader does not interpret (normalised text / kind), in source order
        env, _, _ = self._run(fn.body, dict(env or {}), [])
        self.env = {k: canon(v) for k, v in env.items()}
        self.events = [([(canon(c), pol) for c, pol in conds], kind, canon(e)) for conds, kind, e in self.events]

    # -- statements
    def _skip(self, kind, node=None, env=None):
        """record a statement whose effect is not modelled (fail closed: the fragments emit this list and a theorem
        pins it to what the source had when the model was written)"""
        try:
            txt = "" if node is None else " " + ast.unparse(canon(_subst(node, env or {})))
        except Exception:  # noqa: BLE001
            txt = " ?"
        self.skipped.append(kind + txt)

    def _bind(self, target, val, env):
        if isinstance(target, ast.Name):
            env[target.id] = val
        elif isinstance(target, (ast.Tuple, ast.List)):
            n = len(target.elts)
            for i, e in enumerate(target.elts):
                if isinstance(e, ast.Starred):
                    self._bind(e.value, _call("_rest", val, ast.Constant(i), ast.Constant(n)), env)
                elif n == 1:
                    self._bind(e, _call("_only", val), env)
                else:
                    self._bind(e, _call("_item", val, ast.Constant(i), ast.Constant(n)), env)
        elif isinstance(target, (ast.Subscript, ast.Attribute)):
            root = _root_name(target)
            if root is None or root.id == "self":
                self.skipped.append("store %s = %s" % (_u(target), _u(canon(val))))
                return
            old = env.get(root.id, ast.Name(id=root.id, ctx=ast.Load()))
            path = copy.deepcopy(target)
            r, parent = path, None
            while isinstance(r, (ast.Subscript, ast.Attribute)):
                parent, r = r, r.value
            parent.value = ast.Name(id="_0", ctx=ast.Load())  # the stored-into object itself
            path.ctx = ast.Load()
            path = _subst(path, env)                           # index expressions read the current bindings
            env[root.id] = _call("_set", copy.deepcopy(old), path, val)

    @staticmethod
    def _is_check(st):
        """an expression statement `vg.shape.check(...)` / `check_shape_any(...)` / `vg.shape.check_value(...)`: a pure
        validation whose position among its neighbours of the same kind is immaterial"""
        if not (isinstance(st, ast.Expr) and isinstance(st.value, ast.Call)):
            return False
        f = _u(st.value.func)
        return f.split(".")[-1] in ("check_shape_any", "check_value", "check_value_any") or f.endswith("shape.check")

    def _run(self, stmts, env, conds):
        """-> (env, conds, terminated)"""
        run = []          # a maximal run of consecutive check statements: recorded as a sorted multiset

        def flush():
            self.skipped.extend(sorted(run))
            del run[:]
        for st in stmts:
            if self._is_check(st):
                n0 = len(self.skipped)
                self._skip("expr", st.value, env)
                run.extend(self.skipped[n0:])
                del self.skipped[n0:]
                continue
            flush()
            if isinstance(st, ast.Assign):
                val = _subst(st.value, env)
                for t in st.targets:
                    self._bind(t, val, env)
            elif isinstance(st, ast.AnnAssign) and st.value is not None:
                self._bind(st.target, _subst(st.value, env), env)
            elif isinstance(st, ast.AugAssign):
                cur = copy.deepcopy(st.target)
                for x in ast.walk(cur):
                    if hasattr(x, "ctx"):
                        x.ctx = ast.Load()
                val = ast.BinOp(left=_subst(cur, env), op=st.op, right=_subst(st.value, env))
                self._bind(st.target, val, env)
            elif isinstance(st, ast.Return):
                v = _subst(st.value, env) if st.value is not None else ast.Constant(None)
                self.events.append((list(conds), "return", v))
                return env, conds, True
            elif isinstance(st, ast.Raise):
                v = _subst(st.exc, env) if st.exc is not None else ast.Constant(None)
                self.events.append((list(conds), "raise", v))
                return env, conds, True
            elif isinstance(st, ast.If):
                test = _subst(st.test, env)
                e1, c1, t1 = self._run(st.body, dict(env), conds + [(test, True)])
                e2, c2, t2 = self._run(st.orelse, dict(env), conds + [(test, False)])
                if t1 and t2:
                    return env, conds, True
                if t1:
                    env, conds = e2, c2      # only the other branch continues (with what it learnt on the way)
                elif t2:
                    env, conds = e1, c1
                else:
                    merged = {}
                    for k in list(e1) + [k for k in e2 if k not in e1]:
                        a = e1.get(k, ast.Name(id=k, ctx=ast.Load()))
                        b = e2.get(k, ast.Name(id=k, ctx=ast.Load()))
                        merged[k] = a if _same(a, b) else ast.IfExp(test=copy.deepcopy(test), body=a, orelse=b)
                    env = merged
            elif isinstance(st, (ast.For, ast.While, ast.Try, ast.With)):
                assigned = {x.id for x in ast.walk(st) if isinstance(x, ast.Name) and isinstance(x.ctx, ast.Store)}
                inner = {k: v for k, v in env.items() if k not in assigned}
                mark = ast.Name(id="_in_" + type(st).__name__.lower(), ctx=ast.Load())
                blocks = [getattr(st, "body", []), getattr(st, "orelse", []), getattr(st, "finalbody", [])]
                blocks += [h.body for h in getattr(st, "handlers", [])]
                self.skipped.append(type(st).__name__.lower())
                for b in blocks:
                    self._run(b, dict(inner), conds + [(mark, True)])
                env = inner
            elif isinstance(st, ast.Expr):
                if not (isinstance(st.value, ast.Constant) and isinstance(st.value.value, str)):   # not a docstring
                    self._skip("expr", st.value, env)
            elif isinstance(st, ast.Assert):
                self._skip("assert", st.test, env)
            elif isinstance(st, (ast.FunctionDef, ast.AsyncFunctionDef, ast.ClassDef)):
                self.skipped.append("def")            # a local helper (its name is free to change)
                env.pop(st.name, None)
            elif isinstance(st, ast.Pass):
                pass
            else:                                      # import, global, nonlocal, del, match, …
                try:
                    self.skipped.append(type(st).__name__.lower() + " " + ast.unparse(st).replace("\n", "; "))
                except Exception:  # noqa: BLE001
                    self.skipped.append(type(st).__name__.lower())
        flush()
        return env, conds, False

    # -- queries
    def returns(self):
        return [e for _, kind, e in self.events if kind == "return"]

    def raises(self):
        return [(conds, e) for conds, kind, e in self.events if kind == "raise"]


# --------------------------------------------------------------------------------------------------------------
# normal form

_CMP_FUNCS = {"greater": ast.Gt, "less": ast.Lt, "greater_equal": ast.GtE, "less_equal": ast.LtE, "equal": ast.Eq,
              "not_equal": ast.NotEq}
_MIRROR = {ast.Gt: ast.Lt, ast.Lt: ast.Gt, ast.GtE: ast.LtE, ast.LtE: ast.GtE, ast.Eq: ast.Eq, ast.NotEq: ast.NotEq}
_CMP_NAME = {ast.Lt: "lt", ast.LtE: "le", ast.Gt: "gt", ast.GtE: "ge", ast.Eq: "eq", ast.NotEq: "ne"}
_BOOL_FUNCS = {"logical_and": ast.And, "logical_or": ast.Or}


def _num(node):
    """numeric literal -> Fraction, else None (bools are not numbers here)"""
    if isinstance(node, ast.Constant) and isinstance(node.value, (int, float)) and not isinstance(node.value, bool):
        v = node.value
        if isinstance(v, float):
            if v != v or v in (float("inf"), float("-inf")):
                return None
            return Fraction(repr(v))
        return Fraction(v)
    return None


def _const(fr):
    if fr.denominator == 1:
        return ast.Constant(int(fr))
    return ast.Constant(float(fr))


def _u(node):
    return ast.unparse(node)


def _np_func(node, table):
    """np.<name>(a, b) with exactly two positional arguments -> table[name], else None"""
    if isinstance(node, ast.Call) and isinstance(node.func, ast.Attribute) and isinstance(node.func.value, ast.Name) \
            and node.func.value.id in ("np", "numpy") and node.func.attr in table and len(node.args) == 2 \
            and not node.keywords:
        return table[node.func.attr]
    return None


def _terms(node, sign, out):
    """flatten a canonical +/-/unary-minus/constant-multiple tree into (coef, node|None) terms"""
    c = _num(node)
    if c is not None:
        out.append((sign * c, None))
    elif isinstance(node, ast.BinOp) and isinstance(node.op, ast.Add):
        _terms(node.left, sign, out)
        _terms(node.right, sign, out)
    elif isinstance(node, ast.BinOp) and isinstance(node.op, ast.Sub):
        _terms(node.left, sign, out)
        _terms(node.right, -sign, out)
    elif isinstance(node, ast.UnaryOp) and isinstance(node.op, ast.USub):
        _terms(node.operand, -sign, out)
    elif isinstance(node, ast.UnaryOp) and isinstance(node.op, ast.UAdd):
        _terms(node.operand, sign, out)
    elif isinstance(node, ast.BinOp) and isinstance(node.op, ast.Mult) and _num(node.left) is not None:
        _terms(node.right, sign * _num(node.left), out)
    else:
        out.append((sign, node))


def _factors(node, out):
    """flatten a product into (numeric coefficient, [factors])"""
    c = _num(node)
    if c is not None:
        out[0] *= c
    elif isinstance(node, ast.BinOp) and isinstance(node.op, ast.Mult):
        _factors(node.left, out)
        _factors(node.right, out)
    elif isinstance(node, ast.UnaryOp) and isinstance(node.op, ast.USub):
        out[0] = -out[0]
        _factors(node.operand, out)
    else:
        out[1].append(node)


def _build_sum(terms):
    const = sum((c for c, n in terms if n is None), Fraction(0))
    rest = {}
    order = []
    for c, n in terms:
        if n is None:
            continue
        k = _u(n)
        if k not in rest:
            rest[k] = [Fraction(0), n]
            order.append(k)
        rest[k][0] += c
    acc = None
    for k in sorted(order):
        c, n = rest[k]
        if c == 0:
            continue
        mag = n if abs(c) == 1 else ast.BinOp(left=_const(abs(c)), op=ast.Mult(), right=n)
        if acc is None:
            acc = mag if c > 0 else ast.UnaryOp(op=ast.USub(), operand=mag)
        else:
            acc = ast.BinOp(left=acc, op=ast.Add() if c > 0 else ast.Sub(), right=mag)
    if acc is None:
        return _const(const)
    if const != 0:
        acc = ast.BinOp(left=acc, op=ast.Add() if const > 0 else ast.Sub(), right=_const(abs(const)))
    return acc


def _build_product(coef, factors):
    acc = None
    for f in sorted(factors, key=_u):
        acc = f if acc is None else ast.BinOp(left=acc, op=ast.Mult(), right=f)
    if acc is None:
        return _const(coef)
    if coef == 1:
        return acc
    if coef == -1:
        return ast.UnaryOp(op=ast.USub(), operand=acc)
    return ast.BinOp(left=_const(coef), op=ast.Mult(), right=acc)


_BOOL_CALLS = re.compile(r"(^|_)(is|are|has|contains|any|all|isclose|isnan|isfinite|isinstance|allclose)(_|$)|^logical_")


def _is_boolish(node):
    """a comparison / boolean combination / predicate call (so that `&`, `|` on it mean `and`, `or`)"""
    if isinstance(node, (ast.Compare, ast.BoolOp)):
        return True
    if isinstance(node, ast.UnaryOp) and isinstance(node.op, (ast.Not, ast.Invert)):
        return _is_boolish(node.operand)
    if isinstance(node, ast.BinOp) and isinstance(node.op, (ast.BitAnd, ast.BitOr)):
        return _is_boolish(node.left) and _is_boolish(node.right)
    if isinstance(node, ast.Call):
        f = node.func
        name = f.attr if isinstance(f, ast.Attribute) else (f.id if isinstance(f, ast.Name) else "")
        return bool(_BOOL_CALLS.search(name))
    return False


def _np_call(name, *args):
    return ast.Call(func=ast.Attribute(value=ast.Name(id="np", ctx=ast.Load()), attr=name, ctx=ast.Load()),
                    args=list(args), keywords=[])


def _evidently_flat(arg):
    """the argument of vstack / concatenate is a literal list with an operand that is a list / tuple / number literal"""
    if isinstance(arg, (ast.List, ast.Tuple)):
        return any(isinstance(e, (ast.List, ast.Tuple)) or _num(e) is not None for e in arg.elts)
    return False


def _is_columnize_item(node, i):
    return (isinstance(node, ast.Call) and isinstance(node.func, ast.Name) and node.func.id == "_item"
            and len(node.args) == 3 and isinstance(node.args[0], ast.Call)
            and _u(node.args[0].func).split(".")[-1] == "columnize"
            and isinstance(node.args[1], ast.Constant) and node.args[1].value == i)


def _is_float_type(node):
    try:
        t = ast.unparse(node)
    except Exception:
        return False
    return t in ("np.float64", "float", "numpy.float64", "np.double", "'float64'", '"float64"', "np.float_")


class _Canon(ast.NodeTransformer):
    def visit_Constant(self, n):
        c = _num(n)
        return _const(c) if c is not None else n

    def visit_UnaryOp(self, n):
        n = self.generic_visit(n)
        if isinstance(n.op, (ast.USub, ast.UAdd)):
            out = []
            _terms(n, Fraction(1), out)
            return _build_sum(out)
        if isinstance(n.op, ast.Not) and isinstance(n.operand, ast.Compare) and len(n.operand.ops) == 1 \
                and isinstance(n.operand.ops[0], (ast.Eq, ast.NotEq)):
            c = n.operand
            c.ops = [ast.NotEq() if isinstance(c.ops[0], ast.Eq) else ast.Eq()]
            return c
        return n

    def visit_Starred(self, n):
        # `*(a + b)`: the operands are sequences, `+` is concatenation and keeps its order
        v = n.value
        if isinstance(v, ast.BinOp) and isinstance(v.op, ast.Add):
            n.value = ast.BinOp(left=self.visit(v.left), op=ast.Add(), right=self.visit(v.right))
            return n
        return self.generic_visit(n)

    def visit_Lambda(self, n):
        n = self.generic_visit(n)
        # `lambda a, b: f(a, b)` reads as `f`
        a = n.args
        ps = [x.arg for x in a.args]
        b = n.body
        if ps and not (a.vararg or a.kwarg or a.kwonlyargs or a.posonlyargs or a.defaults) and isinstance(b, ast.Call) \
                and not b.keywords and [x.id if isinstance(x, ast.Name) else None for x in b.args] == ps \
                and not any(isinstance(x, ast.Name) and x.id in ps for x in ast.walk(b.func)):
            return b.func
        return n

    def visit_BinOp(self, n):
        n = self.generic_visit(n)
        # `x & y` / `x | y` between comparisons / boolean expressions is `np.logical_and` / `np.logical_or`
        if isinstance(n.op, (ast.BitAnd, ast.BitOr)) and _is_boolish(n.left) and _is_boolish(n.right):
            return self.visit_BoolOp(ast.BoolOp(op=ast.And() if isinstance(n.op, ast.BitAnd) else ast.Or(),
                                                values=[n.left, n.right]))
        # `a @ b` is `np.dot(a, b)`
        if isinstance(n.op, ast.MatMult):
            return _np_call("dot", n.left, n.right)
        if isinstance(n.op, ast.Add) and any(isinstance(x, (ast.List, ast.Tuple, ast.ListComp)) for x in (n.left, n.right)):
            return n      # list concatenation keeps its order
        if isinstance(n.op, (ast.Add, ast.Sub)):
            out = []
            _terms(n, Fraction(1), out)
            return _build_sum(out)
        if isinstance(n.op, ast.Mult):
            out = [Fraction(1), []]
            _factors(n, out)
            return _build_product(out[0], out[1])
        return n

    def visit_BoolOp(self, n):
        n = self.generic_visit(n)
        vals = []
        for v in n.values:
            if isinstance(v, ast.BoolOp) and type(v.op) is type(n.op):
                vals.extend(v.values)
            else:
                vals.append(v)
        n.values = sorted(vals, key=_u)
        return n

    def visit_Compare(self, n):
        n = self.generic_visit(n)
        if len(n.ops) != 1 or type(n.ops[0]) not in _MIRROR:
            return n
        op, a, b = type(n.ops[0]), n.left, n.comparators[0]
        ca, cb = _num(a) is not None, _num(b) is not None
        swap = False
        if ca and not cb:
            swap = True
        elif not ca and not cb:
            if op in (ast.Gt, ast.GtE):
                swap = True
            elif op in (ast.Eq, ast.NotEq) and _u(b) < _u(a):
                swap = True
        if swap:
            return ast.Compare(left=b, ops=[_MIRROR[op]()], comparators=[a])
        return n

    def visit_Call(self, n):
        n = self.generic_visit(n)
        op = _np_func(n, _CMP_FUNCS)
        if op is not None:
            return self.visit_Compare(ast.Compare(left=n.args[0], ops=[op()], comparators=[n.args[1]]))
        bop = _np_func(n, _BOOL_FUNCS)
        if bop is not None:
            return self.visit_BoolOp(ast.BoolOp(op=bop(), values=list(n.args)))
        # a cast to a float type has no mathematical content (the model is dtype-free): `e.astype(np.float64)`,
        # `e.astype(float)`, `np.asarray(e, dtype=np.float64)` read as `e`
        if isinstance(n.func, ast.Attribute) and n.func.attr == "astype" and len(n.args) == 1 and not n.keywords \
                and _is_float_type(n.args[0]):
            return n.func.value
        # columnize plumbing: `x, _, transform_result = columnize(x, ...)`; `transform_result(y)`
        if _is_columnize_item(n, 0) and n.args[0].args:
            return n.args[0].args[0]
        if _is_columnize_item(n.func, 2) and len(n.args) == 1 and not n.keywords:
            return n.args[0]
        # `a.dot(b)` is `np.dot(a, b)`  (`vg.dot` is the row-wise dot product: something else)
        if isinstance(n.func, ast.Attribute) and n.func.attr == "dot" and len(n.args) == 1 and not n.keywords \
                and _u(n.func.value) not in ("np", "numpy", "vg"):
            return _np_call("dot", n.func.value, n.args[0])
        # stacking rows: `np.vstack(L)`, `np.concatenate(L)`, `np.concatenate(L, axis=0)` read as `_vcat(L)` — unless an
        # operand is evidently not 2-D (a list / tuple / number literal: there `vstack` and `concatenate` differ)
        if isinstance(n.func, ast.Attribute) and isinstance(n.func.value, ast.Name) and n.func.value.id in ("np", "numpy") \
                and len(n.args) == 1 and not _evidently_flat(n.args[0]):
            kws = {k.arg: k.value for k in n.keywords}
            if (n.func.attr == "vstack" and not kws) or \
                    (n.func.attr == "concatenate" and (not kws or (set(kws) == {"axis"} and _num(kws["axis"]) == 0))):
                return _call("_vcat", n.args[0])
        n.keywords = sorted(n.keywords, key=lambda k: k.arg or "")
        return n


def canon(node):
    return ast.fix_missing_locations(_Canon().visit(copy.deepcopy(node)))


def parse_expr(src):
    return ast.parse(src, mode="eval").body


# --------------------------------------------------------------------------------------------------------------
# matching

_META = re.compile(r"^_[A-Z][A-Za-z0-9]*$")


def _unify(p, n, b):
    if isinstance(p, ast.Name) and _META.match(p.id):
        if p.id in b:
            return isinstance(b[p.id], ast.AST) and isinstance(n, ast.AST) and _same(b[p.id], n)
        b[p.id] = n
        return True
    if isinstance(p, ast.AST):
        if type(p) is not type(n):
            return False
        for f in p._fields:
            if f == "ctx":
                continue
            if not _unify(getattr(p, f, None), getattr(n, f, None), b):
                return False
        return True
    if isinstance(p, list):
        return isinstance(n, list) and len(p) == len(n) and all(_unify(x, y, b) for x, y in zip(p, n))
    return p == n and type(p) is type(n)


_PATTERNS = {}


def _pattern(src):
    if src not in _PATTERNS:
        _PATTERNS[src] = canon(parse_expr(src))
    return _PATTERNS[src]


def match(pat, node):
    """pattern (python source with metavariables `_A`…) against a canonical node -> bindings or None"""
    b = {}
    return b if node is not None and _unify(_pattern(pat), node, b) else None


def _walk_pre(node):
    yield node
    for c in ast.iter_child_nodes(node):
        yield from _walk_pre(c)


def findall(pat, root):
    out = []
    if root is None:
        return out
    for n in _walk_pre(root):
        m = match(pat, n)
        if m is not None:
            m["_"] = n
            out.append(m)
    return out


def find(pat, root):
    """first match in pre-order (bindings, with the matched node under "_") or None"""
    r = findall(pat, root)
    return r[0] if r else None


def find_distinct(pat, root):
    """all matches, one per distinct matched text"""
    seen, out = set(), []
    for m in findall(pat, root):
        k = _u(m["_"])
        if k not in seen:
            seen.add(k)
            out.append(m)
    return out


# --------------------------------------------------------------------------------------------------------------
# reading pieces


def cmp_parts(node):
    """canonical single comparison -> (op name, lhs node, rhs node) else None"""
    if isinstance(node, ast.Compare) and len(node.ops) == 1 and type(node.ops[0]) in _CMP_NAME:
        return _CMP_NAME[type(node.ops[0])], node.left, node.comparators[0]
    return None


def as_int(node):
    c = _num(node)
    return int(c) if c is not None and c.denominator == 1 else None


def as_frac(node):
    return _num(node)


def affine(node):
    """canonical expression -> (constant, [(coefficient, node)]) with Fractions"""
    out = []
    _terms(node, Fraction(1), out)
    const = sum((c for c, n in out if n is None), Fraction(0))
    return const, [(c, n) for c, n in out if n is not None]


def affine1(node):
    """`c * x + d` with one non-constant term -> (c, x, d) as (int, node, int) else None"""
    d, ts = affine(node)
    if len(ts) == 1 and ts[0][0].denominator == 1 and d.denominator == 1:
        return int(ts[0][0]), ts[0][1], int(d)
    return None


def poly(node, abbr=None):
    """canonical arithmetic expression -> sum of integer multiples of products of atoms:
       [(coefficient, [atom texts, sorted])], sorted; None when a coefficient is not an integer.
       Atoms are the maximal sub-expressions that are not sums, differences, negations or products (calls, names,
       subscripts, quotients, …), printed with the abbreviations `abbr`."""
    const, terms = affine(node)
    if const.denominator != 1:
        return None
    out = [(int(const), [])] if const != 0 else []
    for c, n in terms:
        fs = [Fraction(1), []]
        _factors(n, fs)
        c2 = c * fs[0]
        if c2.denominator != 1:
            return None
        out.append((int(c2), sorted(text(f, abbr) for f in fs[1])))
    return sorted(out, key=lambda t: (t[1], t[0]))


class _Abbr(ast.NodeTransformer):
    def __init__(self, table):
        self.table = table

    def visit(self, n):
        if isinstance(n, ast.expr):
            k = _u(n)
            if k in self.table:
                return ast.Name(id=self.table[k], ctx=ast.Load())
        return self.generic_visit(n)


def text(node, abbr=None):
    """normalised source text; `abbr` = [(label, node)]: occurrences of these sub-expressions print as the label
    (labels are applied in the order given, so list the larger expressions first where they nest)"""
    if node is None:
        return None
    node = copy.deepcopy(node)
    for label, sub in (abbr or []):
        if sub is None:
            continue
        node = _Abbr({_u(sub): label}).visit(node)
    return _u(node)


def kwarg(call, name, pos=None):
    """value of a keyword argument (or of positional argument `pos`) of a Call node, else None"""
    if not isinstance(call, ast.Call):
        return None
    for k in call.keywords:
        if k.arg == name:
            return k.value
    if pos is not None and pos < len(call.args):
        return call.args[pos]
    return None


def exc_name(node):
    """`ValueError("…")` / `ValueError` -> "ValueError" """
    if isinstance(node, ast.Call):
        node = node.func
    return _u(node) if isinstance(node, (ast.Name, ast.Attribute)) else None


# --------------------------------------------------------------------------------------------------------------
# Lean output

BAD_INT = 424242          # value emitted for an integer anchor that was not found
BAD_STR = "<anchor not found>"

SRCOPS_FILE = ("SrcOps.lean", """/-
  GENERATED by harness/translate/_symsrc.py (shared by the fragments c05 c06 c08 c09 c14 c18) — do not edit.
-/
import PW.Err

namespace PW.Gen

/-- a comparison operator read from the source (`other`: not recognised — falsifies every tying theorem) -/
inductive Cmp where
  | lt | le | gt | ge | eq | ne | other
deriving DecidableEq, Repr

/-- the Boolean value of `a op b` -/
def Cmp.test {α : Type} [LT α] [LE α] [DecidableLT α] [DecidableLE α] [DecidableEq α] : Cmp → α → α → Bool
  | .lt, a, b => decide (a < b)
  | .le, a, b => decide (a ≤ b)
  | .gt, a, b => decide (b < a)
  | .ge, a, b => decide (b ≤ a)
  | .eq, a, b => decide (a = b)
  | .ne, a, b => decide (a ≠ b)
  | .other, _, _ => false

/-- an arithmetic expression read from the source: a sum of integer multiples of products of named atoms -/
abbrev Poly := List (Int × List String)

def prodOf {K : Type} [Mul K] [OfNat K 1] (env : String → K) : List String → K
  | [] => 1
  | f :: fs => env f * prodOf env fs

/-- the value of the expression when the atoms have the values `env` -/
def Poly.eval {K : Type} [Add K] [Mul K] [OfNat K 0] [OfNat K 1] [IntCast K] (env : String → K) : Poly → K
  | [] => 0
  | (c, fs) :: rest => (c : K) * prodOf env fs + Poly.eval env rest

/-- an assignment of values to atom names (0 for a name that is not listed: falsifies the tying theorem) -/
def envOf {K : Type} [OfNat K 0] : List (String × K) → String → K
  | [], _ => 0
  | (k, v) :: t, s => if s = k then v else envOf t s

/-- Python indexing `l[i]` (negative indices count from the end) -/
def pyGet? {α : Type} (l : List α) (i : Int) : Option α :=
  if i < 0 then (if l.length < i.natAbs then none else l[l.length - i.natAbs]?) else l[i.toNat]?

/-- the exception class with this Python name (`Other` for an unknown name: falsifies the tying theorem) -/
def errOfName (s : String) : PW.Err :=
  if s = "ValueError" then .ValueError else if s = "IndexError" then .IndexError
  else if s = "KeyError" then .KeyError else if s = "AttributeError" then .AttributeError
  else if s = "TypeError" then .TypeError else if s = "NotImplementedError" then .NotImplementedError
  else if s = "AssertionError" then .AssertionError else if s = "LinAlgError" then .LinAlgError
  else if s = "ZeroDivisionError" then .ZeroDivisionError else .Other

end PW.Gen
""", ["shared comparison-operator enum"])


def L_int(v):
    return str(v if isinstance(v, int) and not isinstance(v, bool) else BAD_INT)


def L_nat(v):
    return str(v if isinstance(v, int) and not isinstance(v, bool) and v >= 0 else BAD_INT)


def L_str(s):
    s = s if isinstance(s, str) else BAD_STR
    return '"' + s.replace("\\", "\\\\").replace('"', '\\"').replace("\n", " ") + '"'


def L_cmp(op):
    return ".%s" % (op if op in ("lt", "le", "gt", "ge", "eq", "ne") else "other")


def L_bool(b):
    """three-valued: a Bool anchor that was not found is `none` (so "not found" never coincides with an expected `false`)"""
    return "some true" if b is True else ("some false" if b is False else "none")


def L_poly(p):
    if p is None:
        return "[(%d, [%s])]" % (BAD_INT, L_str(BAD_STR))
    return "[" + ", ".join("(%d, [%s])" % (c, ", ".join(L_str(a) for a in fs)) for c, fs in p) + "]"


def L_rat(fr):
    if not isinstance(fr, Fraction):
        fr = Fraction(BAD_INT)
    return "(%d : Rat) / %d" % (fr.numerator, fr.denominator)


def L_list(items):
    return "[" + ", ".join(items) + "]"


class Out:
    """collects the lines of one generated file and the notes about anchors that were not found"""

    def __init__(self, name, header):
        self.name = name
        self.lines = ["/- GENERATED by %s — do not edit; regenerated on every check run. -/" % header,
                      "import PW.Gen.SrcOps", "", "namespace PW.Gen.%s" % name, ""]
        self.notes = []

    def _note(self, ident, v):
        if v is None:
            self.notes.append("%s: anchor not found" % ident)

    def d(self, ident, ty, val, doc=None):
        if doc:
            self.lines.append("/-- %s -/" % doc.replace("-/", "- /"))
        self.lines.append("def %s : %s := %s" % (ident, ty, val))

    def int(self, ident, v, doc=None):
        self._note(ident, v)
        self.d(ident, "Int", L_int(v), doc)

    def nat(self, ident, v, doc=None):
        self._note(ident, v)
        self.d(ident, "Nat", L_nat(v), doc)

    def str(self, ident, v, doc=None):
        self._note(ident, v)
        self.d(ident, "String", L_str(v), doc)

    def cmp(self, ident, v, doc=None):
        self._note(ident, v)
        self.d(ident, "Cmp", L_cmp(v), doc)

    def bool(self, ident, v, doc=None):
        self._note(ident, v)
        self.d(ident, "Option Bool", L_bool(v), doc)

    def poly(self, ident, v, doc=None):
        self._note(ident, v)
        self.d(ident, "Poly", L_poly(v), doc)

    def shapes(self, ident, entries, doc=None):
        """entries: results of `func_shape`"""
        rows = ["(%s, [%s], %s, [%s], %s)" % (L_str(q), ", ".join(L_str(x) for x in de), L_str(pa),
                                             ", ".join(L_str(x) for x in sk), L_nat(rb))
                for q, de, pa, sk, rb in entries]
        if doc:
            self.lines.append("/-- %s -/" % doc.replace("-/", "- /"))
        self.lines.append("def %s : List (String × List String × String × List String × Nat) :=\n  [%s]"
                          % (ident, ",\n   ".join(rows)))

    def rat(self, ident, v, doc=None):
        self._note(ident, v)
        self.d(ident, "Rat", L_rat(v), doc)

    def strs(self, ident, vs, doc=None):
        self._note(ident, vs)
        self.d(ident, "List String", L_list([L_str(x) for x in (vs or [])]), doc)

    def ints(self, ident, vs, doc=None):
        self._note(ident, vs)
        self.d(ident, "List Int", L_list([L_int(x) for x in (vs or [])]), doc)

    def blank(self):
        self.lines.append("")

    def result(self):
        body = "\n".join(self.lines + ["", "end PW.Gen.%s" % self.name, ""])
        return (self.name + ".lean", body, "; ".join(self.notes) if self.notes else "all anchors found")
