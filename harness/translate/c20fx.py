"""Translator fragment for C20's purity clause: lean/PW/Gen/Effects.lean.

Every public callable of polliwog (the same list as harness/translate/c20.py) and every polliwog helper it can
reach is abstracted — with python `ast`, never importing — into a program of the small alias language of
lean/PW/Model/Effects.lean:

    x = <expr>                  -> bind must? x (alias [names <expr> may share memory with]) | bind must? x fresh
    x[...] = v / x += v / x.a = v / del x[...]                 -> write x
    np.f(..., out=x) / np.put(x, ..) / x.sort() / x.append(..) -> write x  (the in-place NumPy / container calls)
    f(a, b, k=c)  (f a polliwog function, method or class)     -> call f [[names a may alias], ..]  (keywords are
                                                                  put at the callee's parameter position)
    for x in xs: ...            -> bind may x (alias xs) and the body `2 + number of bindings in the body` times
    statements under if / for / while / try / with              -> the same statements with must = false

Every program has one more parameter than the Python function: the *environment*, standing for the state that outlives
the call — module-level / class-level names the body uses without binding them, names declared `global` / `nonlocal`
(rebinding one is a write), and for a function returned by a factory the factory's locals.  Every call hands the
caller's environment to the callee.

`must` is true only for statements at the top level of the function body (they always execute, so the abstract
interpreter may replace the binding; everywhere else it only adds to it).  Which expressions may share memory
with their operands is the *trusted abstraction* of this fragment (listed in VIEW_FUNCS / VIEW_METHODS /
VIEW_ATTRS below: names, subscripts, attributes, `.T`, `reshape`, `ravel`, `np.asarray`, `np.atleast_*`,
polliwog's `columnize`, tuples / lists / conditional expressions of those, ...); any other call returns a fresh
object.  A call whose callee cannot be resolved inside polliwog is assumed not to write its arguments unless it
is one of the known in-place spellings.

The Lean side proves (PW.C20.gen_argument_writes) that the abstract interpreter finds no write to an argument or
to `self` in any of these programs except the documented builders of CompositeTransform / CoordinateManager, and
(PW.Effects.sound) that a program for which it finds none leaves the arguments' memory unchanged in every execution
of the alias language.
"""
import ast
import os

from . import c20 as C20

VIEW_FUNCS = {"asarray", "asanyarray", "ascontiguousarray", "asfortranarray", "atleast_1d", "atleast_2d", "atleast_3d",
              "reshape", "ravel", "squeeze", "transpose", "swapaxes", "moveaxis", "rollaxis", "broadcast_to",
              "expand_dims", "broadcast_arrays", "real", "imag", "diagonal", "split", "array_split", "vsplit", "hsplit",
              "dsplit", "flipud", "fliplr", "flip", "rot90", "require", "nan_to_num_inplace", "columnize", "iter",
              "reversed", "zip", "enumerate", "list", "tuple", "check_shape_any_view"}
VIEW_METHODS = {"reshape", "ravel", "squeeze", "transpose", "swapaxes", "view", "diagonal", "flatten_view", "T", "get",
                "items", "values", "keys", "__getitem__", "newbyteorder"}
ENV = "<module and closure state>"
import builtins as _b
BUILTIN_NAMES = set(dir(_b))
MODULES = {"np", "numpy", "vg", "math", "json", "os", "functools", "itertools", "operator", "copy", "ounce", "random"}
# in-place spellings: function names whose first argument is written / methods that write their receiver
INPLACE_FUNCS = {"put", "place", "putmask", "copyto", "fill_diagonal", "shuffle", "put_along_axis", "setflags_writeable"}
INPLACE_METHODS = {"sort", "fill", "resize", "put", "itemset", "setfield", "setflags", "partition", "append", "extend",
                   "insert", "pop", "remove", "clear", "update", "setdefault", "reverse", "popitem", "add", "discard",
                   "__setitem__", "__delitem__", "byteswap_inplace"}


def lean_str(s):
    return '"' + s.replace("\\", "\\\\").replace('"', '\\"') + '"'


class Fn:
    def __init__(self, key, rel, node, cls, outer=None):
        self.key, self.rel, self.node, self.cls, self.outer = key, rel, node, cls, outer
        a = node.args
        self.params = [x.arg for x in a.posonlyargs + a.args] + [x.arg for x in a.kwonlyargs]
        if a.vararg:
            self.params.append(a.vararg.arg)
        if a.kwarg:
            self.params.append(a.kwarg.arg)


class Abstractor:
    def __init__(self, ix):
        self.ix = ix
        self.fns = {}          # key -> Fn
        self.progs = {}        # key -> [stmt]
        self.pending = []
        self.tmp_of = {}       # id(ast node of a polliwog call / property read) -> temporary holding its result
        self.ntmp = 0

    # ---- callee resolution ---------------------------------------------------------------------
    def key_of_func(self, name, rel_hint):
        r = self.ix.func(name, os.path.dirname(rel_hint))
        if r is None:
            return None
        key = "fn:" + name
        if key not in self.fns:
            self.fns[key] = Fn(key, r[0], r[1], None)
            self.pending.append(key)
        return key

    def key_of_method(self, cls, name):
        r = self.ix.methods.get((cls, name))
        if r is None:
            return None
        key = cls + "." + name
        if key not in self.fns:
            self.fns[key] = Fn(key, r[0], r[1], cls)
            self.pending.append(key)
        return key

    # ---- expressions: the names an expression may share memory with ---------------------------------
    def names(self, e, fn):
        """list of local names (sorted, unique) whose objects the value of `e` may alias"""
        out = set()

        def go(x):
            if x is None:
                return
            if id(x) in self.tmp_of:              # a polliwog call / property read: what the callee hands back
                out.add(self.tmp_of[id(x)])
            elif isinstance(x, ast.Name):
                out.add(x.id)
            elif isinstance(x, ast.Attribute):
                go(x.value)                       # x.a shares memory with x (self.v, a.T, a.flat, a.shape ...)
            elif isinstance(x, ast.Subscript):
                go(x.value)
            elif isinstance(x, ast.Starred):
                go(x.value)
            elif isinstance(x, (ast.Tuple, ast.List, ast.Set)):
                for y in x.elts:
                    go(y)
            elif isinstance(x, ast.Dict):
                for y in x.values:
                    go(y)
            elif isinstance(x, ast.IfExp):
                go(x.body)
                go(x.orelse)
            elif isinstance(x, ast.BoolOp):       # `a or b` evaluates to one of its operands
                for y in x.values:
                    go(y)
            elif isinstance(x, ast.NamedExpr):
                go(x.value)
            elif isinstance(x, ast.Call):
                f = x.func
                fname = f.attr if isinstance(f, ast.Attribute) else (f.id if isinstance(f, ast.Name) else "")
                if isinstance(f, ast.Attribute) and fname in VIEW_METHODS:
                    go(f.value)
                elif fname in VIEW_FUNCS:
                    for y in x.args:
                        go(y)
                    for k in x.keywords:
                        go(k.value)
                elif isinstance(f, ast.Attribute) and isinstance(f.value, ast.Name) and f.value.id in ("np", "numpy", "vg", "math"):
                    if fname == "array" and any(k.arg == "copy" and not (isinstance(k.value, ast.Constant) and k.value.value is True)
                                                for k in x.keywords):
                        for y in x.args:
                            go(y)                 # np.array(x, copy=False) may return x itself
                # any other call (NumPy arithmetic, vg, constructors of builtins): a new object
            elif isinstance(x, (ast.ListComp, ast.GeneratorExp, ast.SetComp)):
                go(x.elt)
                for g in x.generators:
                    go(g.iter)
            # arithmetic, comparisons, constants, f-strings, lambdas: fresh
        go(e)
        return sorted(out)

    def resolve(self, call, fn):
        """key of the polliwog callable a Call node invokes, with the offset of its first explicit argument"""
        f = call.func
        if isinstance(f, ast.Name):
            if f.id in C20.CLASSES:
                k = self.key_of_method(f.id, "__init__")
                return (k, 1) if k else None
            if fn.outer is not None and (fn.outer.node.name, f.id) in self.ix.nested:
                return None
            if (fn.node.name, f.id) in self.ix.nested:
                return None
            k = self.key_of_func(f.id, fn.rel)
            return (k, 0) if k else None
        if isinstance(f, ast.Attribute):
            v = f.value
            if isinstance(v, ast.Name) and v.id in ("self", "cls") and fn.cls is not None:
                k = self.key_of_method(fn.cls, f.attr)
                if k and self.ix.methods[(fn.cls, f.attr)][2] != "property":
                    return (k, 1)
                return None
            if isinstance(v, ast.Name) and v.id in C20.CLASSES:        # Plane.from_points(...)
                k = self.key_of_method(v.id, f.attr)
                return (k, 1) if k else None
            if isinstance(v, ast.Attribute) and isinstance(v.value, ast.Name) and v.value.id == "self" and fn.cls is not None:
                c = C20.ATTR_CLASS.get((fn.cls, v.attr))
                if c:
                    k = self.key_of_method(c, f.attr)
                    return (k, 1) if k else None
        return None

    # ---- statements --------------------------------------------------------------------------------
    def abstract(self, fn):
        stmts = []
        containers = set()
        for node in ast.walk(fn.node):
            if isinstance(node, ast.Assign) and isinstance(node.value, (ast.List, ast.Dict, ast.ListComp, ast.DictComp, ast.Set)) \
                    or (isinstance(node, ast.Assign) and isinstance(node.value, ast.Call) and isinstance(node.value.func, ast.Name)
                        and node.value.func.id in ("list", "dict", "set", "defaultdict", "OrderedDict")):
                for t in node.targets:
                    if isinstance(t, ast.Name):
                        containers.add(t.id)

        declared = set()
        for node in ast.walk(fn.node):
            if isinstance(node, (ast.Global, ast.Nonlocal)):
                declared.update(node.names)

        def bind(must, target, srcs):
            if isinstance(target, ast.Name) and target.id in declared:
                # rebinding a module-level / enclosing name: state that outlives the call
                stmts.append(("write", ENV, "global " + target.id))
                stmts.append(("bind", False, ENV, srcs))
            elif isinstance(target, ast.Name):
                stmts.append(("bind", must, target.id, srcs))
            elif isinstance(target, (ast.Tuple, ast.List)):
                for t in target.elts:
                    bind(must, t, srcs)
            elif isinstance(target, ast.Starred):
                bind(must, target.value, srcs)
            elif isinstance(target, (ast.Subscript, ast.Attribute)):
                base = target
                while isinstance(base, (ast.Subscript, ast.Attribute)):
                    base = base.value
                if isinstance(base, ast.Name):
                    how = "store " + ast.unparse(target)
                    if not (fn.node.name in ("__init__", "__new__") and base.id == "self"):
                        stmts.append(("write", base.id, how[:60]))
                    # an attribute / dict / list slot keeps a reference to the stored value; an array element store
                    # copies numbers (names never bound to a list / dict display are taken to be arrays)
                    keeps_ref = isinstance(target, ast.Attribute) or base.id in containers or "__dict__" in ast.unparse(target)
                    if srcs and keeps_ref:
                        stmts.append(("bind", False, base.id, srcs))
                else:
                    calls(base)

        def calls(e):
            """write / call statements for every call inside expression e (inner first)"""
            if e is None:
                return
            for x in ast.iter_child_nodes(e):
                if isinstance(x, (ast.expr, ast.keyword, ast.comprehension, ast.Starred)):
                    calls(x)
            if isinstance(e, ast.Attribute) and isinstance(e.value, ast.Name) and e.value.id == "self" and fn.cls is not None \
                    and isinstance(e.ctx, ast.Load):
                m = self.ix.methods.get((fn.cls, e.attr))
                if m is not None and m[2] == "property":
                    key = self.key_of_method(fn.cls, e.attr)
                    self.ntmp += 1
                    tmp = "<r%d %s>" % (self.ntmp, e.attr)
                    self.tmp_of[id(e)] = tmp
                    stmts.append(("call", key, [["self"], [ENV]]))
                    stmts.append(("bindret", tmp, key, [["self"], [ENV]]))
            if isinstance(e, ast.NamedExpr) and isinstance(e.target, ast.Name):
                stmts.append(("bind", False, e.target.id, self.names(e.value, fn)))
            if isinstance(e, (ast.ListComp, ast.GeneratorExp, ast.SetComp, ast.DictComp)):
                for g in e.generators:
                    bind(False, g.target, self.names(g.iter, fn))
            if not isinstance(e, ast.Call):
                return
            f = e.func
            fname = f.attr if isinstance(f, ast.Attribute) else (f.id if isinstance(f, ast.Name) else "")
            for k in e.keywords:
                if k.arg == "out":
                    for n in self.names(k.value, fn):
                        stmts.append(("write", n, "out= of " + fname))
            if fname in INPLACE_FUNCS and e.args:
                for n in self.names(e.args[0], fn):
                    stmts.append(("write", n, fname + "(..)"))
            if isinstance(f, ast.Attribute) and fname in INPLACE_METHODS \
                    and not (isinstance(f.value, ast.Name) and f.value.id in MODULES):      # np.append / np.sort are functions
                recv = self.names(f.value, fn)
                if not (fn.node.name == "__init__" and recv == ["self"]):
                    for n in recv:
                        stmts.append(("write", n, "." + fname + "(..)"))
                    for a in e.args:
                        srcs = self.names(a, fn)
                        for n in recv:
                            if srcs:
                                stmts.append(("bind", False, n, srcs))
            if fname == "setattr" and e.args:
                for n in self.names(e.args[0], fn):
                    stmts.append(("write", n, "setattr"))
            r = self.resolve(e, fn)
            if r is not None:
                key, off = r
                callee = self.fns[key]
                args = [[] for _ in callee.params]
                if off == 1 and callee.params:
                    recv = f.value if isinstance(f, ast.Attribute) else None
                    if isinstance(f, ast.Name) or (isinstance(recv, ast.Name) and recv.id in C20.CLASSES):
                        pass                          # constructor / classmethod: receiver is new
                    else:
                        args[0] = self.names(recv, fn)
                extra = []
                for i, a in enumerate(e.args):
                    if isinstance(a, ast.Starred) or i + off >= len(args):
                        extra += self.names(a, fn)
                    else:
                        args[i + off] = self.names(a, fn)
                for k in e.keywords:
                    if k.arg in callee.params:
                        args[callee.params.index(k.arg)] = self.names(k.value, fn)
                    else:
                        extra += self.names(k.value, fn)
                if extra:                              # *args / **kwargs: may land at any explicit-argument position
                    args = [sorted(set(a + extra)) if j >= off else a for j, a in enumerate(args)]
                args = args + [[ENV]]                  # the callee's module-level state is the caller's too
                stmts.append(("call", key, args))
                self.ntmp += 1
                tmp = "<r%d %s>" % (self.ntmp, key)
                self.tmp_of[id(e)] = tmp
                stmts.append(("bindret", tmp, key, args))

        def block(body, must, loop_depth=0):
            for st in body:
                if isinstance(st, ast.Assign):
                    calls(st.value)
                    srcs = self.names(st.value, fn)
                    for t in st.targets:
                        bind(must and len(st.targets) == 1, t, srcs)
                elif isinstance(st, ast.AnnAssign):
                    calls(st.value)
                    if st.value is not None:
                        bind(must, st.target, self.names(st.value, fn))
                elif isinstance(st, ast.AugAssign):
                    calls(st.value)
                    base = st.target
                    while isinstance(base, (ast.Subscript, ast.Attribute)):
                        base = base.value
                    if isinstance(base, ast.Name):
                        stmts.append(("write", base.id, "augmented " + ast.unparse(st.target)[:40]))
                elif isinstance(st, ast.Delete):
                    for t in st.targets:
                        if isinstance(t, (ast.Subscript, ast.Attribute)):
                            base = t
                            while isinstance(base, (ast.Subscript, ast.Attribute)):
                                base = base.value
                            if isinstance(base, ast.Name):
                                stmts.append(("write", base.id, "del"))
                elif isinstance(st, ast.Expr):
                    calls(st.value)
                elif isinstance(st, ast.Return):
                    calls(st.value)
                    if st.value is not None:
                        stmts.append(("bind", False, "<return>", self.names(st.value, fn)))
                elif isinstance(st, ast.Raise):
                    calls(st.exc)
                elif isinstance(st, ast.Assert):
                    calls(st.test)
                elif isinstance(st, ast.If):
                    calls(st.test)
                    block(st.body, False, loop_depth)
                    block(st.orelse, False, loop_depth)
                elif isinstance(st, (ast.For, ast.While)):
                    start = len(stmts)
                    if isinstance(st, ast.For):
                        calls(st.iter)
                        bind(False, st.target, self.names(st.iter, fn))
                    else:
                        calls(st.test)
                    block(st.body, False, loop_depth + 1)
                    body_stmts = stmts[start:]
                    reps = 1 + sum(1 for s in body_stmts if s[0] in ("bind", "bindret"))
                    if loop_depth == 0:
                        for _ in range(min(reps, 12)):
                            stmts.extend(body_stmts)
                    block(st.orelse, False, loop_depth)
                elif isinstance(st, ast.With):
                    for it in st.items:
                        calls(it.context_expr)
                        if it.optional_vars is not None:
                            bind(False, it.optional_vars, self.names(it.context_expr, fn))
                    block(st.body, must, loop_depth)
                elif isinstance(st, ast.Try):
                    block(st.body, False, loop_depth)
                    for h in st.handlers:
                        block(h.body, False, loop_depth)
                    block(st.orelse, False, loop_depth)
                    block(st.finalbody, False, loop_depth)
                elif isinstance(st, (ast.FunctionDef, ast.ClassDef, ast.Import, ast.ImportFrom, ast.Pass, ast.Global,
                                     ast.Nonlocal, ast.Break, ast.Continue)):
                    pass
                else:
                    stmts.append(("write", "<unknown statement %s>" % type(st).__name__, "untranslated"))

        def stored_names(node, skip=None):
            out = set()
            for x in ast.walk(node):
                if x is skip:
                    continue
                if isinstance(x, ast.Name) and isinstance(x.ctx, (ast.Store, ast.Del)):
                    out.add(x.id)
                elif isinstance(x, (ast.FunctionDef, ast.ClassDef)) and x is not node:
                    out.add(x.name)
                elif isinstance(x, ast.alias):
                    out.add((x.asname or x.name).split(".")[0])
            return out
        local = (set(fn.params) | stored_names(fn.node)) - declared
        if fn.outer is not None:
            # the closure of a returned inner function: what the factory bound before -- and it outlives the call: the
            # factory's locals are state shared by all calls of the returned function
            block([s for s in fn.outer.node.body if not isinstance(s, (ast.FunctionDef, ast.Return))], False)
            outer_local = stored_names(fn.outer.node, skip=fn.node) - set(fn.outer.params)
            for nm in sorted(outer_local - local):
                stmts.append(("bind", False, nm, [ENV]))
            local |= outer_local | set(fn.outer.params)
        # names the body uses without binding them: module-level (or class-level) state, shared by all calls
        free = set()
        for x in ast.walk(fn.node):
            if isinstance(x, ast.Name) and isinstance(x.ctx, ast.Load) and x.id not in local and x.id not in MODULES \
                    and x.id not in BUILTIN_NAMES:
                free.add(x.id)
        pre = [("bind", True, nm, [ENV]) for nm in sorted(free)]
        stmts[:0] = pre
        block(fn.node.body, True)
        if fn.node.name == "__init__" and fn.params:
            stmts.append(("bind", False, "<return>", [fn.params[0]]))      # what the constructed object keeps
        return stmts


def render(stmts, var, fid):
    """statements with local names / callables replaced by numbers; the names stay in comments"""
    out = []
    for s in stmts:
        if s[0] == "bind":
            src = ".fresh" if not s[3] else "(.alias [%s])" % ", ".join(str(var(n)) for n in s[3])
            c = "%s = %s" % (s[2], "new" if not s[3] else "view of " + " | ".join(s[3]))
            out.append((".bind %s %d %s" % ("true" if s[1] else "false", var(s[2]), src), c))
        elif s[0] == "bindret":
            out.append((".bind false %d (.ret %d [%s])" % (var(s[1]), fid(s[2]), ", ".join("[%s]" % ", ".join(str(var(n)) for n in a) for a in s[3])),
                        s[1] + " = result"))
        elif s[0] == "write":
            if s[1].startswith("<unknown") or s[1].startswith("<translator"):
                out.append((".unknown %s" % lean_str(s[1] + " " + s[2]), ""))
            else:
                out.append((".write %d %s" % (var(s[1]), lean_str(s[2])), s[1]))
        else:
            out.append((".call %d [%s]" % (fid(s[1]), ", ".join("[%s]" % ", ".join(str(var(n)) for n in a) for a in s[2])),
                        s[1] + "(" + ", ".join("|".join(a) for a in s[2]) + ")"))
    return out


def generate(repo):
    ix = C20.Index(repo)
    ab = Abstractor(ix)
    notes = {}
    public = []
    for name, rel, node, cls in C20.public_callables(ix):
        if cls is None and name.count(".") == 2:       # inner function returned by a factory: sub.factory.inner
            outer_name = name.split(".")[1]
            r = ix.func(outer_name, name.split(".")[0])
            outer = Fn("fn:" + outer_name, r[0], r[1], None)
            key = "fn:" + outer_name + "." + node.name
            ab.fns[key] = Fn(key, rel, node, None, outer=outer)
        elif cls is None:
            key = "fn:" + node.name
            if key not in ab.fns:
                ab.fns[key] = Fn(key, rel, node, None)
        else:
            key = cls + "." + node.name
            if key not in ab.fns:
                ab.fns[key] = Fn(key, rel, node, cls)
        public.append((name, key))
        ab.pending.append(key)
    # properties are public reads too
    for (c, m), (rel, node, kind) in sorted(ix.methods.items()):
        if kind == "property" and not m.startswith("_") and c in C20.CLASSES:
            key = c + "." + m
            # a setter shares the name; keep the getter (first definition wins in Index? last wins) - analyse what is indexed
            if key not in ab.fns:
                ab.fns[key] = Fn(key, rel, node, c)
            public.append((c + "." + m, key))
            ab.pending.append(key)
    done = set()
    while ab.pending:
        key = ab.pending.pop()
        if key in done:
            continue
        done.add(key)
        fn = ab.fns[key]
        try:
            ab.progs[key] = ab.abstract(fn)
        except Exception as e:   # fail closed for this callable
            ab.progs[key] = [("write", "<translator error>", repr(e)[:60])]
            notes[key] = "translator error %r" % (e,)
    lines = ["-- generated by harness/translate/c20fx.py from polliwog's source; do not edit",
             "import PW.Model.Effects", "", "namespace PW.Gen", "open PW.Effects", ""]
    keys = sorted(ab.progs)
    fid = {k: i for i, k in enumerate(keys)}
    for key in keys:
        fn = ab.fns[key]
        ident = "fx_" + C20.mangle(key.replace("fn:", "fn."))[4:]
        protected = list(fn.params) + ([p for p in fn.outer.params if p not in fn.params] if fn.outer else []) + [ENV]
        table = {p: i for i, p in enumerate(protected)}

        def var(name, table=table):
            if name not in table:
                table[name] = len(table)
            return table[name]
        body = render(ab.progs[key], var, lambda k: fid[k])
        lines.append("/-- %s  —  polliwog/%s:%d   parameters: %s -/" % (key, fn.rel, fn.node.lineno, ", ".join(
            "%d=%s" % (i, p) for i, p in enumerate(protected))))
        rv = var("<return>")
        lines.append("def %s : Fn := { name := %s, nparams := %d, retVar := %d, body := [" % (ident, lean_str(key), len(protected), rv))
        for i, (b, c) in enumerate(body):
            lines.append("  %s%s%s" % (b, "," if i + 1 < len(body) else "", ("   -- " + c.replace("\n", " ")[:90]) if c else ""))
        lines.append("] }")
        lines.append("")
        notes.setdefault(key, {"statements": len(body)})
    lines.append("/-- every abstracted callable (public ones and the helpers they reach) -/")
    lines.append("def allFx : List Fn := [")
    lines.append(",\n".join("  fx_" + C20.mangle(k.replace("fn:", "fn."))[4:] for k in keys))
    lines.append("]")
    lines.append("")
    lines.append("/-- the public callables (as in Gen/Signatures.lean) and public properties, by the name of their program -/")
    lines.append("def publicFx : List (String × Nat) := [")
    lines.append(",\n".join("  (%s, %d)" % (lean_str(n), fid[k]) for n, k in public))
    lines.append("]")
    lines.append("")
    lines.append("end PW.Gen")
    return [("Effects.lean", "\n".join(lines) + "\n", notes)]
