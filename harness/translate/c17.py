"""Translator fragment for C17: polliwog/box/_box_object.py (+ Polyline.bounding_box)
-> lean/PW/Gen/BoxFormulas.lean.

Every accessor of `Box` is evaluated symbolically over origin `o` and size `s` (see _sym_c16c17.py) and written
out as a Lean definition over an arbitrary number type:
  ranges, min/mid/max_x.., width/height/depth, center_point, floor_point, volume, surface_area, the corner table `v`,
  the six face planes (reference point, normal), `contains` (and the default of `atol`),
  the constructor's rejection test and exception class, the two column reductions `from_points` passes to the
  constructor and its empty-input guard, the shape of `Polyline.bounding_box`.
Fail closed: an accessor that cannot be evaluated becomes a definition that the theorems of PW/Props/C17.lean
cannot match (empty list / constant).
"""
import ast
import os

from . import _sym_c16c17 as S

SRC = "polliwog/box/_box_object.py"
PSRC = "polliwog/polyline/_polyline_object.py"

SCALARS = ["min_x", "min_y", "min_z", "max_x", "max_y", "max_z", "mid_x", "mid_y", "mid_z",
           "width", "height", "depth", "volume", "surface_area"]
VECTORS = ["center_point", "floor_point"]
PLANES = ["min_x_plane", "min_y_plane", "min_z_plane", "max_x_plane", "max_y_plane", "max_z_plane"]


def camel(name):
    parts = name.split("_")
    return parts[0] + "".join(p.capitalize() for p in parts[1:])


def _attempt(notes, key, thunk, fallback):
    try:
        v = thunk()
        notes[key] = "ok"
        return v
    except Exception as e:  # noqa: BLE001 - fail closed
        notes[key] = "FAILED: %s: %s" % (type(e).__name__, str(e)[:200])
        return fallback


def generate(repo):
    notes = {}
    try:
        mod = ast.parse(open(os.path.join(repo, SRC)).read())
    except Exception as e:  # noqa: BLE001
        mod = ast.parse("")
        notes["source"] = "FAILED to parse %s: %s" % (SRC, e)
    cls = S.find_class(mod, "Box") or ast.parse("class Box:\n    pass").body[0]

    def selfobj(ev):
        return S.SelfObj(ev, cls, {"origin": S.sym_vec("o"), "size": S.sym_vec("s")})

    def prop(name):
        ev = S.Evaluator()
        return selfobj(ev).get(name)

    out = S.HEADER % ("c17.py", SRC + ", " + PSRC, "PW/Props/C17.lean", "BoxF")

    # scalars -------------------------------------------------------------------------------------------
    for name in SCALARS:
        def f(name=name):
            v = prop(name)
            if not isinstance(v, S.Sc):
                raise S.Unsupported("%s is not a scalar" % name)
            return v.lean
        lean = _attempt(notes, name, f, None)
        out += "/-- `Box.%s` -/\n" % name
        if lean is None:
            out += "def %s (o s : V3 K) : Option K := none\n\n" % camel(name)
        else:
            out += "def %s (o s : V3 K) : K := %s\n\n" % (camel(name), lean)
    # vectors -------------------------------------------------------------------------------------------
    for name in VECTORS:
        lean = _attempt(notes, name, lambda name=name: S.v3_lean(prop(name)), None)
        out += "/-- `Box.%s` -/\n" % name
        if lean is None:
            out += "def %s (o s : V3 K) : Option (V3 K) := none\n\n" % camel(name)
        else:
            out += "def %s (o s : V3 K) : V3 K := %s\n\n" % (camel(name), lean)

    # ranges (3 x 2) ----------------------------------------------------------------------------------------
    def ranges():
        m = S.to_array(prop("ranges"))
        if m.shape != (3, 2):
            raise S.Unsupported("ranges is not 3 x 2")
        return "[" + ",\n   ".join("(%s, %s)" % (S.Sc.of(r[0]).lean, S.Sc.of(r[1]).lean) for r in m) + "]"
    out += "/-- `Box.ranges` (rows `(low, high)` per axis) -/\n"
    out += "def ranges (o s : V3 K) : List (K × K) :=\n  %s\n\n" % _attempt(notes, "ranges", ranges, "[]")

    # corner table ----------------------------------------------------------------------------------------
    out += "/-- `Box.v` -/\n"
    out += "def v (o s : V3 K) : List (V3 K) :=\n  %s\n\n" % _attempt(notes, "v", lambda: S.rows_v3_lean(prop("v"), 8), "[]")

    # planes ------------------------------------------------------------------------------------------------
    def planes():
        rows = []
        for name in PLANES:
            p = prop(name)
            if not isinstance(p, S.PlaneV):
                raise S.Unsupported("%s is not Plane(point, normal)" % name)
            rows.append("(%s, %s)" % (S.v3_lean(p.ref), S.v3_lean(p.normal)))
        return "[" + ",\n   ".join(rows) + "]"
    out += "/-- `(reference_point, normal)` of `min_x_plane, min_y_plane, min_z_plane, max_x_plane, max_y_plane, max_z_plane` -/\n"
    out += "def planes (o s : V3 K) : List (V3 K × V3 K) :=\n  %s\n\n" % _attempt(notes, "planes", planes, "[]")

    # contains ------------------------------------------------------------------------------------------------
    def contains():
        fn = S.find_function(cls, "contains")
        if fn is None:
            raise S.Unsupported("contains not found")
        params = [a.arg for a in fn.args.args]
        if params != ["self", "point", "atol"]:
            raise S.Unsupported("signature of contains")
        dflt = fn.args.defaults
        if len(dflt) != 1 or not (isinstance(dflt[0], ast.Constant) and dflt[0].value is None):
            raise S.Unsupported("default of atol")
        ev = S.Evaluator()
        env = {"self": selfobj(ev), "point": S.sym_vec("p"), "atol": S.Sc("atol")}
        try:
            ev.run_body(fn.body, env)
            r = S.NoneV()
        except S.Return as ret:
            r = ret.value
        if not isinstance(r, S.BoolE):
            raise S.Unsupported("contains does not return a boolean expression")
        d = env.get("__defaults__", {}).get("atol")
        if not isinstance(d, S.Sc):
            raise S.Unsupported("`if atol is None: atol = <const>` not found")
        return r.lean, d.lean
    c = _attempt(notes, "contains", contains, None)
    out += "/-- `Box.contains(point, atol)` -/\n"
    if c is None:
        out += "def contains (o s p : V3 K) (atol : K) : Bool := false\n"
        out += "def containsDefaultAtol : Option K := none\n\n"
    else:
        out += "def contains (o s p : V3 K) (atol : K) : Bool :=\n  %s\n" % c[0]
        out += "/-- the value `atol` takes when it is `None` -/\n"
        out += "def containsDefaultAtol : K := %s\n\n" % c[1]

    # constructor ---------------------------------------------------------------------------------------------
    def ctor():
        fn = S.find_function(cls, "__init__")
        if fn is None or [a.arg for a in fn.args.args] != ["self", "origin", "size"]:
            raise S.Unsupported("signature of __init__")
        ev = S.Evaluator()
        env = {"origin": S.sym_vec("o"), "size": S.sym_vec("s")}
        stores = []
        for st in fn.body:
            if (isinstance(st, ast.Assign) and len(st.targets) == 1 and isinstance(st.targets[0], ast.Attribute)
                    and S.dotted(st.targets[0]) in ("self.origin", "self.size") and isinstance(st.value, ast.Name)):
                stores.append((S.dotted(st.targets[0]), st.value.id))
                continue
            ev.run_stmt(st, env)
        if sorted(stores) != [("self.origin", "origin"), ("self.size", "size")]:
            raise S.Unsupported("__init__ does not store origin and size unchanged")
        if len(ev.guards) != 1 or ev.guards[0][0][0] != "bool":
            raise S.Unsupported("exactly one boolean guard expected in __init__")
        return ev.guards[0][0][1], str(ev.guards[0][1])
    g = _attempt(notes, "__init__", ctor, None)
    out += "/-- `Box.__init__`: the test under which it raises, and the exception class -/\n"
    if g is None:
        out += "def ctorRejects (s : V3 K) : Bool := true\n"
        out += "def ctorError : String := \"?\"\n\n"
    else:
        out += "def ctorRejects (s : V3 K) : Bool := %s\n" % g[0]
        out += "def ctorError : String := \"%s\"\n\n" % g[1]

    # from_points ---------------------------------------------------------------------------------------------
    def from_points():
        fn = S.find_function(cls, "from_points")
        if fn is None:
            raise S.Unsupported("from_points not found")
        ops = None
        guard = None
        kname = None
        for st in fn.body:
            if isinstance(st, ast.Expr) and isinstance(st.value, ast.Constant):
                continue
            if (isinstance(st, ast.Assign) and isinstance(st.value, ast.Call)
                    and S.dotted(st.value.func) == "vg.shape.check" and isinstance(st.targets[0], ast.Name)):
                shp = st.value.args[2]
                if ast.dump(shp) != ast.dump(ast.parse("(-1, 3)", mode="eval").body):
                    raise S.Unsupported("points shape")
                kname = st.targets[0].id
                continue
            if isinstance(st, ast.If) and len(st.body) == 1 and isinstance(st.body[0], ast.Raise) and not st.orelse:
                t = st.test
                if not (isinstance(t, ast.Compare) and isinstance(t.left, ast.Name) and t.left.id == kname
                        and len(t.ops) == 1 and isinstance(t.comparators[0], ast.Constant)):
                    raise S.Unsupported("guard of from_points")
                opn = {ast.Eq: "==", ast.Lt: "<", ast.LtE: "<=", ast.Gt: ">", ast.GtE: ">=", ast.NotEq: "!="}[type(t.ops[0])]
                exc = st.body[0].exc
                guard = ["k %s %s" % (opn, t.comparators[0].value), S.dotted(exc.func) if isinstance(exc, ast.Call) else S.dotted(exc)]
                continue
            if isinstance(st, ast.Return):
                c = st.value
                if not (isinstance(c, ast.Call) and S.dotted(c.func) == "cls" and len(c.args) == 2 and not c.keywords):
                    raise S.Unsupported("from_points does not return cls(a, b)")
                names = []
                for a in c.args:
                    if not (isinstance(a, ast.Call) and len(a.args) == 1 and S.dotted(a.args[0]) == "points"
                            and len(a.keywords) == 1 and a.keywords[0].arg == "axis"
                            and isinstance(a.keywords[0].value, ast.Constant) and a.keywords[0].value.value == 0):
                        raise S.Unsupported("argument of cls(...) is not np.<f>(points, axis=0)")
                    names.append(S.dotted(a.func))
                ops = names
                continue
            raise S.Unsupported("statement in from_points: " + type(st).__name__)
        if ops is None or guard is None:
            raise S.Unsupported("from_points: return or guard missing")
        return ops, guard
    fp = _attempt(notes, "from_points", from_points, ([], []))
    out += "/-- `from_points`: the column reductions handed to the constructor (origin, size), and its guard -/\n"
    out += "def fromPointsOps : List String := [%s]\n" % ", ".join('"%s"' % x for x in fp[0])
    out += "def fromPointsGuard : List String := [%s]\n\n" % ", ".join('"%s"' % x for x in fp[1])

    # Polyline.bounding_box -------------------------------------------------------------------------------------
    def bbox():
        pmod = ast.parse(open(os.path.join(repo, PSRC)).read())
        pc = S.find_class(pmod, "Polyline")
        fn = S.find_function(pc, "bounding_box")
        body = [st for st in fn.body if not (isinstance(st, ast.Expr) and isinstance(st.value, ast.Constant))]
        body = [st for st in body if not isinstance(st, (ast.ImportFrom, ast.Import))]
        want = ast.parse("if self.num_v == 0:\n    return None\nreturn Box.from_points(self.v)\n").body
        return S.is_property(fn) and [ast.dump(b) for b in body] == [ast.dump(w) for w in want]
    ok = _attempt(notes, "bounding_box", bbox, False)
    out += "/-- `Polyline.bounding_box` is `None if num_v == 0 else Box.from_points(self.v)` -/\n"
    out += "def boundingBoxOk : Bool := %s\n\n" % ("true" if ok else "false")
    out += "end PW.Gen.BoxF\n"
    return [("BoxFormulas.lean", out, notes)]
