"""Translator fragment for C09 (Polyline as an immutable list-of-points value): the edge rule and the index arithmetic
of the editing methods
    polliwog/polyline/_edges.py              edges_for
    polliwog/polyline/_polyline_object.py    rolled, sliced_at_indices, sectioned, with_insertions, flipped, join,
                                             index_of_vertex, aligned_with
-> lean/PW/Gen/PolyOps.lean (namespace PW.Gen.PolyOps), tied to PW/Model/PolylineBase.lean and PW/Model/PolylineOps.lean
by the `gen_*` theorems at the end of PW/Props/C09.lean.

Read from the source text through the symbolic reader of `_symsrc.py` (local names replaced by what they were assigned,
anchors found by structure, commutative operands / mirrored comparisons normalised).  Labels used in the strings:
  NUM_E (edges_for); STARTS, ENDS, BP (sectioned); NORM, ORDER, K (with_insertions).
Fails closed: an anchor that is not recognised is emitted as a value that falsifies its tying theorem.
"""
import ast
from fractions import Fraction

from ._symsrc import (SRCOPS_FILE, Out, Sym, affine, affine1, as_int, cmp_parts, exc_name, find, find_def, func_shape,
                      match, read_tree, safe, text)


def _edges_for(o, tree):
    s = safe(lambda: Sym(find_def(tree, "edges_for")))
    ev = safe(lambda: [(c, e) for c, k, e in s.events if k == "return"]) or []
    empty = [(c, e) for c, e in ev if len(c) == 1 and c[0][1] is True]
    full = [(c, e) for c, e in ev if len(c) == 1 and c[0][1] is False]
    ok = len(ev) == 2 and len(empty) == 1 and len(full) == 1
    ec = safe(lambda: cmp_parts(empty[0][0][0][0]), (None, None, None)) if ok else (None, None, None)
    nume = ec[1]
    mn = safe(lambda: match("_A if is_closed else _B", nume)) or {}
    op = safe(lambda: affine1(mn["_B"]), (None, None, None))
    abbr = [("NUM_E", nume)]
    o.str("numEClosedSrc", safe(lambda: text(mn["_A"])), "`edges_for`: NUM_E = `<this> if is_closed else c * <term> + d`")
    o.int("numEOpenCoef", op[0])
    o.str("numEOpenTerm", safe(lambda: text(op[1])))
    o.int("numEOpenOffset", op[2])
    o.cmp("emptyCmp", ec[0], "the empty edge array is returned when `NUM_E op n`")
    o.int("emptyRhs", safe(lambda: as_int(ec[2])))
    o.str("emptySrc", safe(lambda: text(empty[0][1])) if ok else None)
    r = full[0][1] if ok else None
    m = safe(lambda: match("_set(_E, _0[_I][_J], _V) if is_closed else _E", r)) or {}
    me = safe(lambda: match("np.vstack([_C0, _C1]).T", m["_E"])) or {}
    nx = safe(lambda: affine1(me["_C1"]), (None, None, None))
    o.str("firstColumnSrc", safe(lambda: text(me["_C0"], abbr)), "the edges before closing: columns `<first>` and `c * <first> + d`")
    o.int("nextCoef", nx[0] if safe(lambda: text(nx[1]) == text(me["_C0"]), False) else None)
    o.int("nextOffset", nx[2])
    o.int("closeRow", safe(lambda: as_int(m["_I"])), "closed: `edges[row][col] = value`")
    o.int("closeCol", safe(lambda: as_int(m["_J"])))
    o.int("closeValue", safe(lambda: as_int(m["_V"])))
    dt = [st.value for st in tree.body if isinstance(st, ast.Assign) and len(st.targets) == 1
          and isinstance(st.targets[0], ast.Name) and st.targets[0].id == "EDGE_DTYPE"]
    o.str("edgeDtype", safe(lambda: text(dt[0]) if len(dt) == 1 else None), "`EDGE_DTYPE`")


def _rolled(o, tree):
    s = safe(lambda: Sym(find_def(tree, "Polyline.rolled")))
    rz = safe(lambda: s.raises()) or []
    o.str("rollRefusesWhen", safe(lambda: text(rz[0][0][-1][0]) if len(rz) == 1 and rz[0][0][-1][1] is True else None),
          "`rolled` refuses when")
    o.str("rollRaises", safe(lambda: exc_name(rz[0][1])))
    rs = safe(lambda: s.returns()) or []
    both = [r for r in rs if match("(_P, _M)", r)]
    one = [r for r in rs if match("Polyline(v=_V, is_closed=_C)", r)]
    ok = len(rs) == 2 and len(both) == 1 and len(one) == 1
    mb = safe(lambda: match("(Polyline(v=np.roll(self.v, _S, axis=0), is_closed=_C), np.roll(np.arange(self.num_v), _S2))", both[0])) or {} if ok else {}
    sh, sh2 = safe(lambda: affine1(mb["_S"]), (None, None, None)), safe(lambda: affine1(mb["_S2"]), (None, None, None))
    o.int("rollCoef", sh[0], "`np.roll(self.v, c * <term> + d, axis=0)`")
    o.str("rollTerm", safe(lambda: text(sh[1])))
    o.int("rollOffset", sh[2])
    o.bool("rollMappingSameShift", safe(lambda: text(mb["_S"]) == text(mb["_S2"]), False), "the edge mapping is rolled by the same amount")
    o.bool("rolledIsClosed", safe(lambda: mb["_C"].value if isinstance(mb["_C"].value, bool) else None))
    o.bool("rolledSamePolyline", safe(lambda: text(match("(_P, _M)", both[0])["_P"]) == text(one[0]), False) if ok else None)


def _sliced_at_indices(o, tree):
    s = safe(lambda: Sym(find_def(tree, "Polyline.sliced_at_indices")))
    rs = safe(lambda: s.returns()) or []
    r = rs[0] if len(rs) == 1 else None
    m = safe(lambda: match("Polyline(v=_A if _C else _B, is_closed=False)", r)) or {}
    c = safe(lambda: cmp_parts(m["_C"]), (None, None, None))
    ma = safe(lambda: match("np.roll(self.v, _S, axis=0)[0:_N]", m["_A"])) or {}
    sh = safe(lambda: affine1(ma["_S"]), (None, None, None))
    const, terms = safe(lambda: affine(ma["_N"]), (None, []))
    coef = {text(n): (int(k) if k.denominator == 1 else None) for k, n in terms}
    o.cmp("wrapCmp", c[0], "`sliced_at_indices` wraps around when `<lhs> op <rhs>`")
    o.str("wrapLhs", safe(lambda: text(c[1])))
    o.str("wrapRhs", safe(lambda: text(c[2])))
    o.int("wrapRollCoef", sh[0], "wrapping: `np.roll(self.v, c * <term>, axis=0)[0:NUM_TO_KEEP]`")
    o.str("wrapRollTerm", safe(lambda: text(sh[1])))
    o.int("wrapRollOffset", sh[2])
    o.int("keepLenCoef", coef.get("len(self.v)") if len(coef) == 3 else None, "NUM_TO_KEEP = a * len(self.v) + b * start + c * stop + d")
    o.int("keepStartCoef", coef.get("start") if len(coef) == 3 else None)
    o.int("keepStopCoef", coef.get("stop") if len(coef) == 3 else None)
    o.int("keepConst", safe(lambda: int(const) if const.denominator == 1 else None))
    o.str("plainSliceSrc", safe(lambda: text(m["_B"])), "otherwise")
    rz = safe(lambda: s.raises()) or []
    o.strs("wrapRefusesWhen", safe(lambda: [("" if pol else "not ") + text(cc) for cc, pol in rz[0][0]] if len(rz) == 1 else None),
           "refused when all of")
    o.str("wrapRaises", safe(lambda: exc_name(rz[0][1])))


def _sectioned(o, tree):
    s = safe(lambda: Sym(find_def(tree, "Polyline.sectioned")))
    rz = safe(lambda: s.raises()) or []
    rs = safe(lambda: s.returns()) or []
    r = rs[0] if len(rs) == 1 and isinstance(rs[0], ast.ListComp) else None
    mz = safe(lambda: match("zip(_S, _E)", r.generators[0].iter)) or {}
    starts, ends = mz.get("_S"), mz.get("_E")
    ms = safe(lambda: match("np.hstack([np.array(_Z, dtype=np.int64), _BP])", starts)) or {}
    bp = ms.get("_BP")
    me = safe(lambda: match("np.hstack([_B1, np.array([self.num_v], dtype=np.int64)])", ends)) or {}
    eo = safe(lambda: affine1(me["_B1"]), (None, None, None))
    abbr = [("STARTS", starts), ("ENDS", ends), ("BP", bp)]
    two = len(rz) == 2
    c2 = safe(lambda: rz[1][0][-1][0]) if two else None
    mc = safe(lambda: match("_T.any()", c2)) or {}
    t = safe(lambda: cmp_parts(mc["_T"]), (None, None, None))
    o.str("sectionClosedRefusal", safe(lambda: text(rz[0][0][-1][0]) if two and rz[0][0][-1][1] is True else None),
          "`sectioned` refuses when")
    o.strs("sectionRaises", safe(lambda: [exc_name(e) for _, e in rz]) if two else None)
    o.str("breakpointsSrc", safe(lambda: text(bp)), "BP")
    o.int("firstStart", safe(lambda: as_int(ms["_Z"])), "STARTS = `[z, *BP]`")
    o.int("endCoef", eo[0] if safe(lambda: text(eo[1]) == text(bp), False) else None, "ENDS = `[*(c * BP + d), num_v]`")
    o.int("endOffset", eo[2])
    o.str("endsSrc", safe(lambda: text(ends, abbr[2:])))
    o.str("edgesPerSectionSrc", safe(lambda: text(t[1], abbr)), "edges per section")
    o.cmp("minEdgesCmp", t[0] if two and safe(lambda: rz[1][0][-1][1] is True, False) else None,
          "refused when any `edges_per_section op n`")
    o.int("minEdgesRhs", safe(lambda: as_int(t[2])))
    o.str("sectionLoopSrc", safe(lambda: ", ".join(text(x) for x in r.generators[0].target.elts)), "each section, for (these) in zip(STARTS, ENDS)")
    o.str("sectionSrc", safe(lambda: text(r.elt)))


def _with_insertions(o, tree):
    s = safe(lambda: Sym(find_def(tree, "Polyline.with_insertions")))
    ev = safe(lambda: [(c, e) for c, k, e in s.events if k == "return"]) or []
    plain = [e for c, e in ev if len(c) == 1 and c[0][1] is True and text(c[0][0]) == "not ret_new_indices"]
    full = [e for c, e in ev if len(c) == 1 and c[0][1] is False and text(c[0][0]) == "not ret_new_indices"]
    ok = len(ev) == 2 and len(plain) == 1 and len(full) == 1
    m = safe(lambda: match("(_P, _ORIG, _INS)", full[0])) or {} if ok else {}
    bc = safe(lambda: find("np.bincount(_X, minlength=_M)", m["_ORIG"])) or {}
    norm = bc.get("_X")
    ml = safe(lambda: affine1(bc["_M"]), (None, None, None))
    mi = safe(lambda: match("_set(np.empty(_K, dtype=np.int64), _0[_ORDER], _VAL)", m["_INS"])) or {}
    mo = safe(lambda: match("np.argsort(_X, kind=_KIND)", mi["_ORDER"])) or {}
    mw = safe(lambda: match("np.where(_C, _A, indices)", norm)) or {}
    neg = safe(lambda: cmp_parts(mw["_C"]), (None, None, None))
    abbr = [("ORDER", mi.get("_ORDER")), ("NORM", norm), ("K", mi.get("_K"))]
    o.str("insertSrc", safe(lambda: text(plain[0])) if ok else None, "`with_insertions`: the new polyline")
    o.bool("insertSamePolyline", safe(lambda: text(m["_P"]) == text(plain[0]), False) if ok else None)
    o.cmp("negIndexCmp", neg[0], "NORM = `np.where(indices op n, <then>, indices)`")
    o.str("negIndexLhs", safe(lambda: text(neg[1])))
    o.int("negIndexRhs", safe(lambda: as_int(neg[2])))
    o.str("negIndexThen", safe(lambda: text(mw["_A"])))
    o.int("minlengthCoef", ml[0], "`np.bincount(NORM, minlength=c * <term> + d)`")
    o.str("minlengthTerm", safe(lambda: text(ml[1])))
    o.int("minlengthOffset", ml[2])
    o.str("originalIndicesSrc", safe(lambda: text(m["_ORIG"], abbr)), "indices of the original vertices")
    o.str("sortKind", safe(lambda: mo["_KIND"].value if isinstance(mo["_KIND"].value, str) else None),
          "ORDER = `np.argsort(NORM, kind=<this>)`")
    o.bool("sortOfNorm", safe(lambda: text(mo["_X"]) == text(norm), False))
    o.str("insertedIndicesSrc", safe(lambda: text(m["_INS"], abbr)), "indices of the inserted points")


def _others(o, tree):
    def only_return(q):
        rs = Sym(find_def(tree, q)).returns()
        return rs[0] if len(rs) == 1 else None
    o.str("flippedSrc", safe(lambda: text(only_return("Polyline.flipped"))), "`flipped`")
    s = safe(lambda: Sym(find_def(tree, "Polyline.join")))
    rz = safe(lambda: s.raises()) or []
    two = len(rz) == 2
    c = safe(lambda: cmp_parts(rz[0][0][-1][0]), (None, None, None)) if two else (None, None, None)
    o.cmp("joinEmptyCmp", c[0], "`join` refuses when `len(polylines) op n` …")
    o.str("joinEmptyLhs", safe(lambda: text(c[1])))
    o.int("joinEmptyRhs", safe(lambda: as_int(c[2])))
    o.str("joinClosedRefusal", safe(lambda: text(rz[1][0][-1][0])) if two else None, "… or when")
    o.strs("joinRaises", safe(lambda: [exc_name(e) for _, e in rz]) if two else None)
    o.str("joinSrc", safe(lambda: text(s.returns()[0]) if len(s.returns()) == 1 else None))
    fn = find_def(tree, "Polyline.index_of_vertex")

    def atol():
        a = fn.args
        names = [x.arg for x in a.args]
        d = dict(zip(names[len(names) - len(a.defaults):], a.defaults))["atol"]
        return Fraction(repr(d.value)) if isinstance(d.value, float) else Fraction(d.value)
    o.rat("indexOfVertexAtol", safe(atol), "`index_of_vertex(point, atol=<this>)`")
    o.str("indexOfVertexSrc", safe(lambda: (lambda rs: text(rs[0]) if len(rs) == 1 else None)(Sym(fn).returns())))
    o.str("indexOfVertexRaises", safe(lambda: (lambda rz: exc_name(rz[0][1]) if len(rz) == 1 else None)(Sym(fn).raises())))
    s = safe(lambda: Sym(find_def(tree, "Polyline.aligned_with")))
    ev = safe(lambda: [(c, e) for c, k, e in s.events if k == "return"]) or []
    fl = [c for c, e in ev if text(e) == "self.flipped()"]
    conds = fl[0] if len(fl) == 1 and len(ev) == 3 else None
    short = safe(lambda: cmp_parts(conds[-2][0]), (None, None, None))
    neg = safe(lambda: cmp_parts(conds[-1][0]), (None, None, None))
    o.cmp("alignShortCmp", short[0] if safe(lambda: conds[-2][1] is False, False) else None,
          "`aligned_with` returns self when `self.num_v op n` …")
    o.str("alignShortLhs", safe(lambda: text(short[1])))
    o.int("alignShortRhs", safe(lambda: as_int(short[2])))
    o.cmp("alignFlipCmp", neg[0] if safe(lambda: conds[-1][1] is True, False) else None, "… and flips when `<lhs> op n`")
    o.str("alignFlipLhs", safe(lambda: text(neg[1])))
    o.int("alignFlipRhs", safe(lambda: as_int(neg[2])))
    o.str("alignClosedRefusal", safe(lambda: (lambda rz: text(rz[0][0][-1][0]) if len(rz) == 1 and rz[0][0][-1][1] is True else None)(s.raises())),
          "and refuses when")
    o.str("alignRaises", safe(lambda: (lambda rz: exc_name(rz[0][1]) if len(rz) == 1 else None)(s.raises())))
    mf = safe(lambda: match("Polyline(v=_W(self.v), is_closed=self.is_closed)", only_return("Polyline.flipped"))) or {}
    o.str("flippedWrapper", safe(lambda: text(mf["_W"])), "`flipped` = `Polyline(v=<wrapper>(self.v), is_closed=self.is_closed)`")
    mi = safe(lambda: match("_only(_M.nonzero())[_I]", (lambda rs: rs[0] if len(rs) == 1 else None)(Sym(fn).returns()))) or {}
    o.int("indexOfVertexPick", safe(lambda: as_int(mi["_I"])), "`index_of_vertex` returns the match with this index")


def generate(repo):
    o = Out("PolyOps", "harness/translate/c09.py from polliwog/polyline/_edges.py and polliwog/polyline/_polyline_object.py")
    _, t0 = read_tree(repo, "polliwog", "polyline", "_edges.py")
    _, t1 = read_tree(repo, "polliwog", "polyline", "_polyline_object.py")
    for part, tree in ((_edges_for, t0), (_rolled, t1), (_sliced_at_indices, t1), (_sectioned, t1), (_with_insertions, t1),
                       (_others, t1)):
        n = len(o.lines)
        try:
            part(o, tree)
        except Exception as e:  # noqa: BLE001  fail closed: drop the partial output; the tying theorems then do not compile
            del o.lines[n:]
            o.notes.append("%s: %r" % (part.__name__, e))
        o.blank()
    o.shapes("functionShapes",
             [func_shape(t0, "edges_for")] +
             [func_shape(t1, "Polyline." + q) for q in ("rolled", "sliced_at_indices", "sectioned", "with_insertions", "flipped",
                                                         "join", "index_of_vertex", "aligned_with")],
             "for every function read above: (name, decorators, parameters with defaults, statements the symbolic reader "
             "does not interpret, other bindings of the name in its scope)")
    return [SRCOPS_FILE, o.result()]
