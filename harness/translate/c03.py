"""Translator fragment for C03/C04: the call structure of CompositeTransform's appending methods and the
delegation table of CoordinateManager, read from the source text with `ast` (polliwog is never imported).

  Gen/CompositeCalls.lean
    compositeCalls      : for every appending method of CompositeTransform other than append_transform, the builders /
                          own methods / external routines it calls, in evaluation order
                          (`transform_matrix_for_translation`, `self.append_transform`, …)
    appendReturnsOldLen : append_transform computes `new_index = len(self.transforms)` *before* `self.transforms.append`
                          and returns `new_index`
    coordMgrDelegation  : for every public method of CoordinateManager whose body is the single statement
                          `self._transform.<g>(*args, **kwargs)`: (method, g); other public methods: (method, "?")
    tagAsIsLen          : tag_as stores `len(self._transform.transforms)` under the name
Fail closed: a class / method that is not found yields an empty table / `false`.
"""
import ast
import os

APPENDERS = ["append_transform", "uniform_scale", "non_uniform_scale", "convert_units", "flip", "translate",
             "reorient", "rotate"]


def dotted(node):
    if isinstance(node, ast.Name):
        return node.id
    if isinstance(node, ast.Attribute):
        base = dotted(node.value)
        return None if base is None else base + "." + node.attr
    return None


def calls_in_order(fn):
    out = []

    class V(ast.NodeVisitor):
        def visit_Call(self, node):
            # arguments are evaluated before the call itself happens
            for a in node.args:
                self.visit(a)
            for k in node.keywords:
                self.visit(k.value)
            self.visit(node.func)
            out.append(dotted(node.func) or "?")

    for st in fn.body:
        V().visit(st)
    return out


def relevant(name):
    """builders, methods of the object itself, and the two external routines; not np.ones / ValueError / locals …"""
    return (name.startswith("transform_matrix_for_") or name.startswith("self.")
            or name in ("rotation_from_up_and_look", "ounce.factor"))


def find_class(tree, name):
    for n in tree.body:
        if isinstance(n, ast.ClassDef) and n.name == name:
            return n
    return None


def methods(cls):
    return {n.name: n for n in cls.body if isinstance(n, ast.FunctionDef)} if cls is not None else {}


def lean_str(s):
    return '"' + s.replace("\\", "\\\\").replace('"', '\\"') + '"'


def append_returns_old_len(fn):
    """new_index = len(self.transforms); self.transforms.append(...); return new_index  — in this order"""
    if fn is None:
        return False
    pos_assign = pos_append = pos_return = None
    for k, st in enumerate(fn.body):
        if (isinstance(st, ast.Assign) and len(st.targets) == 1 and dotted(st.targets[0]) == "new_index"
                and isinstance(st.value, ast.Call) and dotted(st.value.func) == "len" and len(st.value.args) == 1
                and dotted(st.value.args[0]) == "self.transforms"):
            pos_assign = k
        if (isinstance(st, ast.Expr) and isinstance(st.value, ast.Call)
                and dotted(st.value.func) == "self.transforms.append"):
            pos_append = k
        if isinstance(st, ast.Return) and st.value is not None and dotted(st.value) == "new_index":
            pos_return = k
    return None not in (pos_assign, pos_append, pos_return) and pos_assign < pos_append < pos_return


def delegation(fn):
    body = [st for st in fn.body if not (isinstance(st, ast.Expr) and isinstance(st.value, ast.Constant))]
    if len(body) != 1 or not isinstance(body[0], ast.Expr) or not isinstance(body[0].value, ast.Call):
        return "?"
    c = body[0].value
    f = dotted(c.func)
    if f is None or not f.startswith("self._transform."):
        return "?"
    a = fn.args
    if not (a.vararg and a.kwarg and [x.arg for x in a.args] == ["self"]):
        return "?"
    if not (len(c.args) == 1 and isinstance(c.args[0], ast.Starred) and dotted(c.args[0].value) == a.vararg.arg):
        return "?"
    if not (len(c.keywords) == 1 and c.keywords[0].arg is None and dotted(c.keywords[0].value) == a.kwarg.arg):
        return "?"
    return f[len("self._transform."):]


def tag_as_is_len(fn):
    if fn is None:
        return False
    body = [st for st in fn.body if not (isinstance(st, ast.Expr) and isinstance(st.value, ast.Constant))]
    if len(body) != 1 or not isinstance(body[0], ast.Assign) or len(body[0].targets) != 1:
        return False
    t, v = body[0].targets[0], body[0].value
    if not (isinstance(t, ast.Subscript) and dotted(t.value) == "self._tags_to_indices" and dotted(t.slice) == "name"):
        return False
    return (isinstance(v, ast.Call) and dotted(v.func) == "len" and len(v.args) == 1
            and dotted(v.args[0]) == "self._transform.transforms")


def parse(repo, rel):
    try:
        return ast.parse(open(os.path.join(repo, rel)).read())
    except (OSError, SyntaxError):
        return ast.parse("")


def generate(repo):
    notes = []
    ct = methods(find_class(parse(repo, "polliwog/transform/_composite_transform.py"), "CompositeTransform"))
    calls = []
    for m in APPENDERS[1:]:
        if m in ct:
            calls.append((m, [c for c in calls_in_order(ct[m]) if relevant(c)]))
        else:
            notes.append("CompositeTransform.%s not found" % m)
    old_len = append_returns_old_len(ct.get("append_transform"))
    cm = methods(find_class(parse(repo, "polliwog/transform/_coordinate_manager.py"), "CoordinateManager"))
    deleg = [(name, delegation(fn)) for name, fn in cm.items()
             if not name.startswith("_") and name not in ("tag_as", "do_transform")]
    is_len = tag_as_is_len(cm.get("tag_as"))
    if not cm:
        notes.append("CoordinateManager not found")
    lines = ["-- generated by harness/translate/c03.py from polliwog/transform/_composite_transform.py and",
             "-- _coordinate_manager.py; do not edit", "namespace PW.Gen", "",
             "def compositeCalls : List (String × List String) := ["]
    lines.append(",\n".join("  (%s, [%s])" % (lean_str(m), ", ".join(lean_str(c) for c in cs)) for m, cs in calls))
    lines += ["]", "", "def appendReturnsOldLen : Bool := %s" % ("true" if old_len else "false"), "",
              "def coordMgrDelegation : List (String × String) := ["]
    lines.append(",\n".join("  (%s, %s)" % (lean_str(a), lean_str(b)) for a, b in deleg))
    lines += ["]", "", "def tagAsIsLen : Bool := %s" % ("true" if is_len else "false"), "", "end PW.Gen", ""]
    return [("CompositeCalls.lean", "\n".join(lines), "; ".join(notes) or "ok")]
