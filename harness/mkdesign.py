#!/usr/bin/env python3
"""refreshes the generated tables of DESIGN.md Part II (between <!-- BEGIN name --> / <!-- END name --> markers)
from evidence/*.json, known_findings.json and seeded/*/meta.json"""
import glob, json, os, re
V = os.path.dirname(os.path.dirname(os.path.abspath(__file__)))
STATUS = {
 "C01": "full (kernel laws, pointwise tiling, sandwich); lifted to the arrays by C02_mesh_lift",
 "C02": "full; complementarity as an area identity of the two returned meshes over ℝ under the exact-on-plane hypothesis (false of the code in the tolerance band, defect ≈ tol); idempotence for fully selected slices",
 "C03": "affine histories full; unrestricted round trip / step-by-step action refuted for non-affine explicit matrices (known finding, proved witnesses)",
 "C04": "well-formed (affine) scripts full; unrestricted path independence refuted for non-affine explicit matrices (known finding, proved witnesses)",
 "C05": "full",
 "C06": "full (runs = span = spec, cyclic reduction; crossing from the deciding signed distances)",
 "C07": "optimality, consistency, flag logic full; `ret_t_values`-only known finding with proved witness; sub-path clause full for simple polylines except query points within 1e-8 of each other",
 "C08": "full (incl. global Lipschitz bound and every total-length clause)",
 "C09": "full",
 "C10": "full incl. the 2.5e-5 snap bound, for every proper rotation (Euler's theorem `euler_rotation` proved) ; Jacobian = derivative proved (`jacobian_is_derivative_holds`, all 27 partials); Jacobian composition partial (refuted at half-turns: known finding)",
 "C11": "full for affine matrices; unrestricted compose order refuted (known finding, proved witness)",
 "C12": "full", "C13": "full at exactly unit normals (incl. Rayleigh minimality and `tilted`)", "C14": "full", "C15": "full", "C16": "full",
 "C17": "full; percentile partial on tiny axes (known finding with proved witness); NumPy's linear-interpolation percentile modelled and proved to be the order statistic (between, endpoints, k-th order statistic, monotone in q, permutation invariant)",
 "C18": "full; tiny-direction rejection known finding with proved witness",
 "C19": "full (Plane theorems with a slack on the normal's length, instantiated for doubles)",
 "C20": "shape strictness: per-callable iff theorems on generated signatures (2 partial, 2 known findings); elementwise structural + row/stack tie; purity: no write to an argument proved on alias programs generated from the source (abstract interpreter proved sound), determinism monitored",
}


def table_props():
    rows = ["| prop | obligations | proof status | quick evaluations | distinct non-trivial |", "|---|---|---|---|---|"]
    for f in sorted(glob.glob(os.path.join(V, "evidence", "*.json"))):
        e = json.load(open(f)); c = e["coverage"]
        rows.append("| %s | %d | %s | %d | %d |" % (e["property_id"], c["obligations"], STATUS.get(e["property_id"], ""), c["evaluations"], c["distinct_nontrivial"]))
    return "\n".join(rows)


def esc(s):
    return s.replace("|", "/").replace("\n", " ")


def table_fixed():
    doc = json.load(open(os.path.join(V, "known_findings.json")))
    rows = ["| prop | commit | what failed |", "|---|---|---|"]
    rows += ["| %s | `%s` | %s |" % (f["property"], f["commit"], esc(f["what"])) for f in doc["findings"] if f["status"] == "fixed"]
    return "\n".join(rows)


def table_known():
    doc = json.load(open(os.path.join(V, "known_findings.json")))
    rows = ["| prop | key | what fails, and why it is not repaired |", "|---|---|---|"]
    rows += ["| %s | `%s` | %s |" % (f["property"], f["key"], esc(f["what"])) for f in doc["findings"] if f["status"] == "known"]
    return "\n".join(rows)


def table_seeds():
    rows = ["| seed | change | needs | caught by (oracle keys) |", "|---|---|---|---|"]
    for d in sorted(glob.glob(os.path.join(V, "seeded", "*"))):
        m = json.load(open(os.path.join(d, "meta.json")))
        what = esc(m["what"]); what = what[:150] + ("…" if len(what) > 150 else "")
        needs = esc(m["needs"]); needs = needs[:110] + ("…" if len(needs) > 110 else "")
        by = []
        for k, v in m.get("detected_by", {}).items():
            if v["detected"]:
                by.append("%s (%s)" % (k, ", ".join(v["keys"][:2]) if v["keys"] else "correspondence / proof obligation, no-failing-input-found"))
            else:
                by.append("%s: %s, exit %s" % (k, "not detected (discussed above)" if k == m.get("property", m.get("breaks_property")) else "not this check's property", v["exit"]))
        rows.append("| %s | %s | %s | %s |" % (os.path.basename(d), what, needs, "; ".join(by)))
    return "\n".join(rows)


def main():
    p = os.path.join(V, "DESIGN.md")
    s = open(p).read()
    for name, fn in (("props", table_props), ("fixed", table_fixed), ("known", table_known), ("seeds", table_seeds)):
        b, e = "<!-- BEGIN %s -->" % name, "<!-- END %s -->" % name
        i, j = s.index(b) + len(b), s.index(e)
        s = s[:i] + "\n" + fn() + "\n" + s[j:]
    open(p, "w").write(s)


if __name__ == "__main__":
    main()
